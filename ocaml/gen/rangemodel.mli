
val negb : bool -> bool

type nat =
| O
| S of nat

val fst : ('a1 * 'a2) -> 'a1

val snd : ('a1 * 'a2) -> 'a2

val length : 'a1 list -> nat

val app : 'a1 list -> 'a1 list -> 'a1 list

type comparison =
| Eq
| Lt
| Gt

val add : nat -> nat -> nat

val leb : nat -> nat -> bool

type byte =
| X00
| X01
| X02
| X03
| X04
| X05
| X06
| X07
| X08
| X09
| X0a
| X0b
| X0c
| X0d
| X0e
| X0f
| X10
| X11
| X12
| X13
| X14
| X15
| X16
| X17
| X18
| X19
| X1a
| X1b
| X1c
| X1d
| X1e
| X1f
| X20
| X21
| X22
| X23
| X24
| X25
| X26
| X27
| X28
| X29
| X2a
| X2b
| X2c
| X2d
| X2e
| X2f
| X30
| X31
| X32
| X33
| X34
| X35
| X36
| X37
| X38
| X39
| X3a
| X3b
| X3c
| X3d
| X3e
| X3f
| X40
| X41
| X42
| X43
| X44
| X45
| X46
| X47
| X48
| X49
| X4a
| X4b
| X4c
| X4d
| X4e
| X4f
| X50
| X51
| X52
| X53
| X54
| X55
| X56
| X57
| X58
| X59
| X5a
| X5b
| X5c
| X5d
| X5e
| X5f
| X60
| X61
| X62
| X63
| X64
| X65
| X66
| X67
| X68
| X69
| X6a
| X6b
| X6c
| X6d
| X6e
| X6f
| X70
| X71
| X72
| X73
| X74
| X75
| X76
| X77
| X78
| X79
| X7a
| X7b
| X7c
| X7d
| X7e
| X7f
| X80
| X81
| X82
| X83
| X84
| X85
| X86
| X87
| X88
| X89
| X8a
| X8b
| X8c
| X8d
| X8e
| X8f
| X90
| X91
| X92
| X93
| X94
| X95
| X96
| X97
| X98
| X99
| X9a
| X9b
| X9c
| X9d
| X9e
| X9f
| Xa0
| Xa1
| Xa2
| Xa3
| Xa4
| Xa5
| Xa6
| Xa7
| Xa8
| Xa9
| Xaa
| Xab
| Xac
| Xad
| Xae
| Xaf
| Xb0
| Xb1
| Xb2
| Xb3
| Xb4
| Xb5
| Xb6
| Xb7
| Xb8
| Xb9
| Xba
| Xbb
| Xbc
| Xbd
| Xbe
| Xbf
| Xc0
| Xc1
| Xc2
| Xc3
| Xc4
| Xc5
| Xc6
| Xc7
| Xc8
| Xc9
| Xca
| Xcb
| Xcc
| Xcd
| Xce
| Xcf
| Xd0
| Xd1
| Xd2
| Xd3
| Xd4
| Xd5
| Xd6
| Xd7
| Xd8
| Xd9
| Xda
| Xdb
| Xdc
| Xdd
| Xde
| Xdf
| Xe0
| Xe1
| Xe2
| Xe3
| Xe4
| Xe5
| Xe6
| Xe7
| Xe8
| Xe9
| Xea
| Xeb
| Xec
| Xed
| Xee
| Xef
| Xf0
| Xf1
| Xf2
| Xf3
| Xf4
| Xf5
| Xf6
| Xf7
| Xf8
| Xf9
| Xfa
| Xfb
| Xfc
| Xfd
| Xfe
| Xff

val of_bits :
  (bool * (bool * (bool * (bool * (bool * (bool * (bool * bool))))))) -> byte

module Nat :
 sig
  val eqb : nat -> nat -> bool

  val leb : nat -> nat -> bool
 end

val removelast : 'a1 list -> 'a1 list

val concat : 'a1 list list -> 'a1 list

val map : ('a1 -> 'a2) -> 'a1 list -> 'a2 list

val flat_map : ('a1 -> 'a2 list) -> 'a1 list -> 'a2 list

val fold_left : ('a1 -> 'a2 -> 'a1) -> 'a2 list -> 'a1 -> 'a1

val existsb : ('a1 -> bool) -> 'a1 list -> bool

val forallb : ('a1 -> bool) -> 'a1 list -> bool

val find : ('a1 -> bool) -> 'a1 list -> 'a1 option

val skipn : nat -> 'a1 list -> 'a1 list

type positive =
| XI of positive
| XO of positive
| XH

type n =
| N0
| Npos of positive

module Pos :
 sig
  type mask =
  | IsNul
  | IsPos of positive
  | IsNeg
 end

module Coq_Pos :
 sig
  val succ : positive -> positive

  val add : positive -> positive -> positive

  val add_carry : positive -> positive -> positive

  val pred_double : positive -> positive

  type mask = Pos.mask =
  | IsNul
  | IsPos of positive
  | IsNeg

  val succ_double_mask : mask -> mask

  val double_mask : mask -> mask

  val double_pred_mask : positive -> mask

  val sub_mask : positive -> positive -> mask

  val sub_mask_carry : positive -> positive -> mask

  val compare_cont : comparison -> positive -> positive -> comparison

  val compare : positive -> positive -> comparison

  val eqb : positive -> positive -> bool

  val coq_Nsucc_double : n -> n

  val coq_Ndouble : n -> n

  val coq_land : positive -> positive -> n

  val iter_op : ('a1 -> 'a1 -> 'a1) -> positive -> 'a1 -> 'a1

  val to_nat : positive -> nat

  val of_succ_nat : nat -> positive
 end

module N :
 sig
  val add : n -> n -> n

  val sub : n -> n -> n

  val compare : n -> n -> comparison

  val eqb : n -> n -> bool

  val leb : n -> n -> bool

  val ltb : n -> n -> bool

  val min : n -> n -> n

  val max : n -> n -> n

  val coq_land : n -> n -> n

  val to_nat : n -> nat

  val of_nat : nat -> n
 end

val to_N : byte -> n

type ascii =
| Ascii of bool * bool * bool * bool * bool * bool * bool * bool

val byte_of_ascii : ascii -> byte

type string =
| EmptyString
| String of ascii * string

val list_ascii_of_string : string -> ascii list

val list_byte_of_string : string -> byte list

val bytes_of_string : string -> n list

val bS : string -> n list

val bytes_eqb : n list -> n list -> bool

val nth_opt : 'a1 list -> nat -> 'a1 option

type 'a res =
| Val of 'a
| Pan of string
| Fuel

val bind : 'a1 res -> ('a1 -> 'a2 res) -> 'a2 res

val unwrap : string -> 'a1 option -> 'a1 res

type cdspec =
| CEnum of (n * n) list
| CPattern of n * n option
| CString of bool * n option
| CUInt
| CFloat

type elemdef = { ed_name : n; ed_type : n; ed_mult : n; ed_ordered : 
                 n; ed_split : n; ed_restrict : n }

type dtype = { dt_sub_start : n; dt_sub_end : n; dt_sub_ver : n;
               dt_attr_start : n; dt_attr_end : n; dt_attr_ver : n;
               dt_cdata : n; dt_mode : n; dt_ref_start : n; dt_ref_end : 
               n }

type tables = { t_elements : (n -> elemdef option); n_elements : n;
                t_subelements : (n -> (n * n) option); n_subelements : 
                n; t_attributes : (n -> ((n * n) * n) option);
                n_attributes : n; t_version_info : (n -> n option);
                n_version_info : n; t_datatypes : (n -> dtype option);
                n_datatypes : n; t_ref_items : (n -> n option);
                n_ref_items : n; t_cdata : (n -> cdspec option); n_cdata : 
                n; reference_type_idx : n; autosar_element : n;
                name_short_name : n; attr_dest : n }

val mSequence : n

val mChoice : n

val mBag : n

val mCharacters : n

val mMixed : n

type etype = n * n

val elem : tables -> n -> elemdef res

val dt : tables -> n -> dtype res

val vinfo : tables -> n -> n res

val subel : tables -> n -> (n * n) res

val et_new : tables -> n -> etype res

val slice_chk : string -> n -> n -> n -> unit res

val sub_slice : tables -> n -> ((n * n) * dtype) res

val find_sub : tables -> nat -> n -> n -> n -> (etype * n list) option res

val fUEL : nat

val find_sub_element :
  tables -> etype -> n -> n -> (etype * n list) option res

val short_name_version_mask : tables -> n -> n option res

val is_named : tables -> etype -> bool res

val is_named_in_version : tables -> etype -> n -> bool res

val list_sub : tables -> nat -> n -> (((n * etype) * n) * n) list res

val sub_element_spec_list :
  tables -> etype -> (((n * etype) * n) * n) list res

val walk_groups : tables -> n -> n list -> ((n * n) * n) option res

val get_sub_element_spec :
  tables -> etype -> n list -> ((n * n) * n) option res

val get_sub_element_multiplicity : tables -> etype -> n list -> n option res

val get_sub_element_container_mode : tables -> etype -> n list -> n res

val common_group : tables -> n -> n list -> n list -> n res

val find_common_group : tables -> etype -> n list -> n list -> n res

val content_mode : tables -> etype -> n res

val chardata_spec : tables -> etype -> cdspec option res

type id = n

type cdata =
| DEnum of n
| DString of n list
| DUInt of n
| DFloat of n

type pref =
| PNone
| PModel of n
| PElem of id

type citem =
| CElem of id
| CData of cdata

type node = { n_parent : pref; n_name : n; n_type : (n * n);
              n_content : citem list; n_attrs : (n * cdata) list;
              n_files : n list; n_comment : n list option }

type file = { f_model : n; f_name : n list; f_version : n;
              f_standalone : bool option }

type model = { m_root : id; m_files : n list; m_idents : (n list * id) list;
               m_origins : (n list * id list) list }

type world = { w_nodes : (id -> node option); w_next : id;
               w_files : file list; w_models : model list }

type err =
| ItemDeleted
| ParentElementLocked
| ElementNotIdentifiable
| ItemNameRequired
| IncorrectContentType
| ElementInsertionConflict
| InvalidSubElement
| ElementNotFound
| ShortNameRemovalForbidden
| NotReferenceElement
| InvalidReference
| DuplicateItemName
| ForbiddenMoveToSubElement
| ForbiddenCopyOfParent
| InvalidPosition
| VersionMismatch
| VersionIncompatibleData
| InvalidAttribute
| InvalidAttributeValue
| NoFilesInModel
| InvalidFile
| FilesetModificationForbidden
| DuplicateFilenameError
| EmptyFile
| InvalidFileMerge
| OverlappingDataError
| LoadError

type 'a out =
| OK of 'a
| ER of err

type 'a w = world -> ('a out * world) res

val wret : 'a1 -> 'a1 w

val wfail : err -> 'a1 w

val wpanic : string -> 'a1 w

val wfuel : 'a1 w

val wbind : 'a1 w -> ('a1 -> 'a2 w) -> 'a2 w

val wtry : 'a1 w -> 'a1 option w

val wcatch : 'a1 w -> 'a1 out w

val wget : world w

val wlift : 'a1 res -> 'a1 w

val upd : (id -> node option) -> id -> node -> id -> node option

val get_node : id -> node w

val set_node : id -> node -> unit w

val alloc : node -> id w

val set_content : node -> citem list -> node

val get_model : n -> model w

val list_set : 'a1 list -> nat -> 'a1 -> 'a1 list

val set_model : n -> model -> unit w

val modify_model : n -> (model -> model) -> unit w

val set_idents : model -> (n list * id) list -> model

val insert_at : 'a1 list -> nat -> 'a1 -> 'a1 list

val is_empty : 'a1 list -> bool

val assoc_get : n list -> (n list * 'a1) list -> 'a1 option

val assoc_insert : n list -> 'a1 -> (n list * 'a1) list -> (n list * 'a1) list

val sHORT : tables -> n

val wl : 'a1 res -> 'a1 w

val fuel_of : world -> nat

val opt_le : n option -> nat -> bool

val check_value :
  (n -> n list -> bool res) -> cdata -> cdspec -> n -> bool res

val character_data : tables -> node -> cdata option res

val item_name : tables -> node -> n list option w

val parent_of : node -> id option w

val up_names : tables -> nat -> pref -> n list list -> n list list w

val join_path : n list list -> n list

val path_unchecked : tables -> node -> n list w

val model_walk : nat -> id -> n w

val model_of : id -> n w

val fm_walk : nat -> id -> id -> (bool * n list) w

val file_membership : id -> (bool * n list) w

val min_version : n -> id -> n w

val get_element_by_path : n -> n list -> id option w

val add_identifiable : n -> n list -> id -> unit w

val lex_cmp : n list -> n list -> comparison

val list_eqbN : n list -> n list -> bool

val repeat_conflict : tables -> (n * n) -> n list -> bool res

val range_loop :
  tables -> (n * n) -> n -> n list -> citem list -> n -> n -> n -> (n * n) w

val calc_element_insert_range : tables -> node -> n -> n -> (n * n) w

val content_insert : id -> n -> citem -> unit w

val new_node : pref -> n -> (n * n) -> node

val create_sub_element_inner : tables -> id -> n -> n -> n -> id w

val raw_create_sub_element : tables -> id -> n -> n -> id w

val raw_create_sub_element_at : tables -> id -> n -> n -> n -> id w

val raw_set_character_data :
  tables -> (n -> n list -> bool res) -> id -> cdata -> n -> unit w

val create_named_sub_element_inner :
  tables -> (n -> n list -> bool res) -> id -> n -> n list -> n -> n -> n ->
  id w

val raw_create_named_sub_element :
  tables -> (n -> n list -> bool res) -> id -> n -> n list -> n -> n -> id w

val raw_create_named_sub_element_at :
  tables -> (n -> n list -> bool res) -> id -> n -> n list -> n -> n -> n ->
  id w

val e_create_sub_element : tables -> n -> n -> n -> id w

val e_create_sub_element_at : tables -> n -> n -> n -> n -> id w

val e_create_named_sub_element :
  tables -> (n -> n list -> bool res) -> n -> n -> n -> n list -> id w

val e_create_named_sub_element_at :
  tables -> (n -> n list -> bool res) -> n -> n -> n -> n list -> n -> id w

val q_min_version : n -> id -> n w

val q_insert_range : tables -> id -> n -> n -> (n * n) w

val in_range : n -> (n * n) -> bool

val class_mem : (n * n) list -> n -> bool

val dfa_go : n list list -> n list -> n -> n list -> bool option

val dfa_run : n list list -> n list -> n list -> bool option

type vexpr =
| VLenGe of nat
| VLenEq of nat
| VLenLe of nat
| VNonEmpty
| VStarts of n list
| VEq of n list
| VAll of (n * n) list
| VAt of nat * (n * n) list
| VSkip of nat * vexpr
| VAnd of vexpr * vexpr
| VOr of vexpr * vexpr
| VStripOpt of (n * n) list * vexpr
| VSplitAll of n * vexpr
| VSplitCount of n * nat

val prefixb : n list -> n list -> bool

val split : n -> n list -> n list list

val all_opt : (n list -> bool option) -> n list list -> bool option

val veval : vexpr -> n list -> bool option

val sub_range : n -> n -> (n * n) -> (n * n) list

val complement : (n * n) list -> (n * n) list

val v_1 : vexpr

val v_4 : vexpr

val v_5 : vexpr

val v_6 : vexpr

val v_7 : vexpr

val v_8 : vexpr

val v_10 : vexpr

val v_11 : vexpr

val v_15 : vexpr

val v_17 : vexpr

val v_19 : vexpr

val v_20 : vexpr

val v_23 : vexpr

val v_24 : vexpr

val v_27 : vexpr

val xml_vexpr : n -> vexpr option

val check_fn_model :
  (n -> (n list list * n list) option) -> n -> n list -> bool res

val ix_cmp : n list -> n list -> comparison

val ix_eqb : n list -> n list -> bool

val ins : 'a1 list -> nat -> 'a1 -> 'a1 list

val idx_of : tables -> etype -> n -> n -> n list option

val mult_any : tables -> etype -> n list -> bool

val group_mode : tables -> n -> n option

val pair_ok : tables -> etype -> n list -> n list -> bool

val all_pairs_ok : tables -> etype -> n list list -> bool

val paths_of : tables -> etype -> n -> n option list -> n list list option

val orderedb : tables -> etype -> n -> n option list -> bool

val container_seq_or_choice : tables -> etype -> n list -> bool

val choice_conflict : tables -> etype -> n list -> n list -> bool

val too_many : tables -> etype -> n list -> n -> n option list -> bool

val loader_scan :
  tables -> etype -> n -> n list -> n option list -> n option list ->
  (bool * n) list option

val loader_complaints :
  tables -> etype -> n -> n option list -> (bool * n) list option

val compatible : n -> n -> bool

type valid_info = { vi_name : n; vi_named : bool; vi_allowed : bool }

val valid_loop :
  tables -> node -> n -> (((n * etype) * n) * n) list -> valid_info list w

val list_valid_sub_elements : tables -> n -> id -> valid_info list w
