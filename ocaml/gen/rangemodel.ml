
(** val negb : bool -> bool **)

let negb = function
| true -> false
| false -> true

type nat =
| O
| S of nat

(** val fst : ('a1 * 'a2) -> 'a1 **)

let fst = function
| (x, _) -> x

(** val snd : ('a1 * 'a2) -> 'a2 **)

let snd = function
| (_, y) -> y

(** val length : 'a1 list -> nat **)

let rec length = function
| [] -> O
| _ :: l' -> S (length l')

(** val app : 'a1 list -> 'a1 list -> 'a1 list **)

let rec app l m =
  match l with
  | [] -> m
  | a :: l1 -> a :: (app l1 m)

type comparison =
| Eq
| Lt
| Gt

module Coq__1 = struct
 (** val add : nat -> nat -> nat **)
 let rec add n0 m =
   match n0 with
   | O -> m
   | S p -> S (add p m)
end
include Coq__1

(** val leb : nat -> nat -> bool **)

let rec leb n0 m =
  match n0 with
  | O -> true
  | S n' -> (match m with
             | O -> false
             | S m' -> leb n' m')

type byte =
| X00
| X01
| X02
| X03
| X04
| X05
| X06
| X07
| X08
| X09
| X0a
| X0b
| X0c
| X0d
| X0e
| X0f
| X10
| X11
| X12
| X13
| X14
| X15
| X16
| X17
| X18
| X19
| X1a
| X1b
| X1c
| X1d
| X1e
| X1f
| X20
| X21
| X22
| X23
| X24
| X25
| X26
| X27
| X28
| X29
| X2a
| X2b
| X2c
| X2d
| X2e
| X2f
| X30
| X31
| X32
| X33
| X34
| X35
| X36
| X37
| X38
| X39
| X3a
| X3b
| X3c
| X3d
| X3e
| X3f
| X40
| X41
| X42
| X43
| X44
| X45
| X46
| X47
| X48
| X49
| X4a
| X4b
| X4c
| X4d
| X4e
| X4f
| X50
| X51
| X52
| X53
| X54
| X55
| X56
| X57
| X58
| X59
| X5a
| X5b
| X5c
| X5d
| X5e
| X5f
| X60
| X61
| X62
| X63
| X64
| X65
| X66
| X67
| X68
| X69
| X6a
| X6b
| X6c
| X6d
| X6e
| X6f
| X70
| X71
| X72
| X73
| X74
| X75
| X76
| X77
| X78
| X79
| X7a
| X7b
| X7c
| X7d
| X7e
| X7f
| X80
| X81
| X82
| X83
| X84
| X85
| X86
| X87
| X88
| X89
| X8a
| X8b
| X8c
| X8d
| X8e
| X8f
| X90
| X91
| X92
| X93
| X94
| X95
| X96
| X97
| X98
| X99
| X9a
| X9b
| X9c
| X9d
| X9e
| X9f
| Xa0
| Xa1
| Xa2
| Xa3
| Xa4
| Xa5
| Xa6
| Xa7
| Xa8
| Xa9
| Xaa
| Xab
| Xac
| Xad
| Xae
| Xaf
| Xb0
| Xb1
| Xb2
| Xb3
| Xb4
| Xb5
| Xb6
| Xb7
| Xb8
| Xb9
| Xba
| Xbb
| Xbc
| Xbd
| Xbe
| Xbf
| Xc0
| Xc1
| Xc2
| Xc3
| Xc4
| Xc5
| Xc6
| Xc7
| Xc8
| Xc9
| Xca
| Xcb
| Xcc
| Xcd
| Xce
| Xcf
| Xd0
| Xd1
| Xd2
| Xd3
| Xd4
| Xd5
| Xd6
| Xd7
| Xd8
| Xd9
| Xda
| Xdb
| Xdc
| Xdd
| Xde
| Xdf
| Xe0
| Xe1
| Xe2
| Xe3
| Xe4
| Xe5
| Xe6
| Xe7
| Xe8
| Xe9
| Xea
| Xeb
| Xec
| Xed
| Xee
| Xef
| Xf0
| Xf1
| Xf2
| Xf3
| Xf4
| Xf5
| Xf6
| Xf7
| Xf8
| Xf9
| Xfa
| Xfb
| Xfc
| Xfd
| Xfe
| Xff

(** val of_bits :
    (bool * (bool * (bool * (bool * (bool * (bool * (bool * bool))))))) ->
    byte **)

let of_bits = function
| (b0, p) ->
  if b0
  then let (b1, p0) = p in
       if b1
       then let (b2, p1) = p0 in
            if b2
            then let (b3, p2) = p1 in
                 if b3
                 then let (b4, p3) = p2 in
                      if b4
                      then let (b5, p4) = p3 in
                           if b5
                           then let (b6, b7) = p4 in
                                if b6
                                then if b7 then Xff else X7f
                                else if b7 then Xbf else X3f
                           else let (b6, b7) = p4 in
                                if b6
                                then if b7 then Xdf else X5f
                                else if b7 then X9f else X1f
                      else let (b5, p4) = p3 in
                           if b5
                           then let (b6, b7) = p4 in
                                if b6
                                then if b7 then Xef else X6f
                                else if b7 then Xaf else X2f
                           else let (b6, b7) = p4 in
                                if b6
                                then if b7 then Xcf else X4f
                                else if b7 then X8f else X0f
                 else let (b4, p3) = p2 in
                      if b4
                      then let (b5, p4) = p3 in
                           if b5
                           then let (b6, b7) = p4 in
                                if b6
                                then if b7 then Xf7 else X77
                                else if b7 then Xb7 else X37
                           else let (b6, b7) = p4 in
                                if b6
                                then if b7 then Xd7 else X57
                                else if b7 then X97 else X17
                      else let (b5, p4) = p3 in
                           if b5
                           then let (b6, b7) = p4 in
                                if b6
                                then if b7 then Xe7 else X67
                                else if b7 then Xa7 else X27
                           else let (b6, b7) = p4 in
                                if b6
                                then if b7 then Xc7 else X47
                                else if b7 then X87 else X07
            else let (b3, p2) = p1 in
                 if b3
                 then let (b4, p3) = p2 in
                      if b4
                      then let (b5, p4) = p3 in
                           if b5
                           then let (b6, b7) = p4 in
                                if b6
                                then if b7 then Xfb else X7b
                                else if b7 then Xbb else X3b
                           else let (b6, b7) = p4 in
                                if b6
                                then if b7 then Xdb else X5b
                                else if b7 then X9b else X1b
                      else let (b5, p4) = p3 in
                           if b5
                           then let (b6, b7) = p4 in
                                if b6
                                then if b7 then Xeb else X6b
                                else if b7 then Xab else X2b
                           else let (b6, b7) = p4 in
                                if b6
                                then if b7 then Xcb else X4b
                                else if b7 then X8b else X0b
                 else let (b4, p3) = p2 in
                      if b4
                      then let (b5, p4) = p3 in
                           if b5
                           then let (b6, b7) = p4 in
                                if b6
                                then if b7 then Xf3 else X73
                                else if b7 then Xb3 else X33
                           else let (b6, b7) = p4 in
                                if b6
                                then if b7 then Xd3 else X53
                                else if b7 then X93 else X13
                      else let (b5, p4) = p3 in
                           if b5
                           then let (b6, b7) = p4 in
                                if b6
                                then if b7 then Xe3 else X63
                                else if b7 then Xa3 else X23
                           else let (b6, b7) = p4 in
                                if b6
                                then if b7 then Xc3 else X43
                                else if b7 then X83 else X03
       else let (b2, p1) = p0 in
            if b2
            then let (b3, p2) = p1 in
                 if b3
                 then let (b4, p3) = p2 in
                      if b4
                      then let (b5, p4) = p3 in
                           if b5
                           then let (b6, b7) = p4 in
                                if b6
                                then if b7 then Xfd else X7d
                                else if b7 then Xbd else X3d
                           else let (b6, b7) = p4 in
                                if b6
                                then if b7 then Xdd else X5d
                                else if b7 then X9d else X1d
                      else let (b5, p4) = p3 in
                           if b5
                           then let (b6, b7) = p4 in
                                if b6
                                then if b7 then Xed else X6d
                                else if b7 then Xad else X2d
                           else let (b6, b7) = p4 in
                                if b6
                                then if b7 then Xcd else X4d
                                else if b7 then X8d else X0d
                 else let (b4, p3) = p2 in
                      if b4
                      then let (b5, p4) = p3 in
                           if b5
                           then let (b6, b7) = p4 in
                                if b6
                                then if b7 then Xf5 else X75
                                else if b7 then Xb5 else X35
                           else let (b6, b7) = p4 in
                                if b6
                                then if b7 then Xd5 else X55
                                else if b7 then X95 else X15
                      else let (b5, p4) = p3 in
                           if b5
                           then let (b6, b7) = p4 in
                                if b6
                                then if b7 then Xe5 else X65
                                else if b7 then Xa5 else X25
                           else let (b6, b7) = p4 in
                                if b6
                                then if b7 then Xc5 else X45
                                else if b7 then X85 else X05
            else let (b3, p2) = p1 in
                 if b3
                 then let (b4, p3) = p2 in
                      if b4
                      then let (b5, p4) = p3 in
                           if b5
                           then let (b6, b7) = p4 in
                                if b6
                                then if b7 then Xf9 else X79
                                else if b7 then Xb9 else X39
                           else let (b6, b7) = p4 in
                                if b6
                                then if b7 then Xd9 else X59
                                else if b7 then X99 else X19
                      else let (b5, p4) = p3 in
                           if b5
                           then let (b6, b7) = p4 in
                                if b6
                                then if b7 then Xe9 else X69
                                else if b7 then Xa9 else X29
                           else let (b6, b7) = p4 in
                                if b6
                                then if b7 then Xc9 else X49
                                else if b7 then X89 else X09
                 else let (b4, p3) = p2 in
                      if b4
                      then let (b5, p4) = p3 in
                           if b5
                           then let (b6, b7) = p4 in
                                if b6
                                then if b7 then Xf1 else X71
                                else if b7 then Xb1 else X31
                           else let (b6, b7) = p4 in
                                if b6
                                then if b7 then Xd1 else X51
                                else if b7 then X91 else X11
                      else let (b5, p4) = p3 in
                           if b5
                           then let (b6, b7) = p4 in
                                if b6
                                then if b7 then Xe1 else X61
                                else if b7 then Xa1 else X21
                           else let (b6, b7) = p4 in
                                if b6
                                then if b7 then Xc1 else X41
                                else if b7 then X81 else X01
  else let (b1, p0) = p in
       if b1
       then let (b2, p1) = p0 in
            if b2
            then let (b3, p2) = p1 in
                 if b3
                 then let (b4, p3) = p2 in
                      if b4
                      then let (b5, p4) = p3 in
                           if b5
                           then let (b6, b7) = p4 in
                                if b6
                                then if b7 then Xfe else X7e
                                else if b7 then Xbe else X3e
                           else let (b6, b7) = p4 in
                                if b6
                                then if b7 then Xde else X5e
                                else if b7 then X9e else X1e
                      else let (b5, p4) = p3 in
                           if b5
                           then let (b6, b7) = p4 in
                                if b6
                                then if b7 then Xee else X6e
                                else if b7 then Xae else X2e
                           else let (b6, b7) = p4 in
                                if b6
                                then if b7 then Xce else X4e
                                else if b7 then X8e else X0e
                 else let (b4, p3) = p2 in
                      if b4
                      then let (b5, p4) = p3 in
                           if b5
                           then let (b6, b7) = p4 in
                                if b6
                                then if b7 then Xf6 else X76
                                else if b7 then Xb6 else X36
                           else let (b6, b7) = p4 in
                                if b6
                                then if b7 then Xd6 else X56
                                else if b7 then X96 else X16
                      else let (b5, p4) = p3 in
                           if b5
                           then let (b6, b7) = p4 in
                                if b6
                                then if b7 then Xe6 else X66
                                else if b7 then Xa6 else X26
                           else let (b6, b7) = p4 in
                                if b6
                                then if b7 then Xc6 else X46
                                else if b7 then X86 else X06
            else let (b3, p2) = p1 in
                 if b3
                 then let (b4, p3) = p2 in
                      if b4
                      then let (b5, p4) = p3 in
                           if b5
                           then let (b6, b7) = p4 in
                                if b6
                                then if b7 then Xfa else X7a
                                else if b7 then Xba else X3a
                           else let (b6, b7) = p4 in
                                if b6
                                then if b7 then Xda else X5a
                                else if b7 then X9a else X1a
                      else let (b5, p4) = p3 in
                           if b5
                           then let (b6, b7) = p4 in
                                if b6
                                then if b7 then Xea else X6a
                                else if b7 then Xaa else X2a
                           else let (b6, b7) = p4 in
                                if b6
                                then if b7 then Xca else X4a
                                else if b7 then X8a else X0a
                 else let (b4, p3) = p2 in
                      if b4
                      then let (b5, p4) = p3 in
                           if b5
                           then let (b6, b7) = p4 in
                                if b6
                                then if b7 then Xf2 else X72
                                else if b7 then Xb2 else X32
                           else let (b6, b7) = p4 in
                                if b6
                                then if b7 then Xd2 else X52
                                else if b7 then X92 else X12
                      else let (b5, p4) = p3 in
                           if b5
                           then let (b6, b7) = p4 in
                                if b6
                                then if b7 then Xe2 else X62
                                else if b7 then Xa2 else X22
                           else let (b6, b7) = p4 in
                                if b6
                                then if b7 then Xc2 else X42
                                else if b7 then X82 else X02
       else let (b2, p1) = p0 in
            if b2
            then let (b3, p2) = p1 in
                 if b3
                 then let (b4, p3) = p2 in
                      if b4
                      then let (b5, p4) = p3 in
                           if b5
                           then let (b6, b7) = p4 in
                                if b6
                                then if b7 then Xfc else X7c
                                else if b7 then Xbc else X3c
                           else let (b6, b7) = p4 in
                                if b6
                                then if b7 then Xdc else X5c
                                else if b7 then X9c else X1c
                      else let (b5, p4) = p3 in
                           if b5
                           then let (b6, b7) = p4 in
                                if b6
                                then if b7 then Xec else X6c
                                else if b7 then Xac else X2c
                           else let (b6, b7) = p4 in
                                if b6
                                then if b7 then Xcc else X4c
                                else if b7 then X8c else X0c
                 else let (b4, p3) = p2 in
                      if b4
                      then let (b5, p4) = p3 in
                           if b5
                           then let (b6, b7) = p4 in
                                if b6
                                then if b7 then Xf4 else X74
                                else if b7 then Xb4 else X34
                           else let (b6, b7) = p4 in
                                if b6
                                then if b7 then Xd4 else X54
                                else if b7 then X94 else X14
                      else let (b5, p4) = p3 in
                           if b5
                           then let (b6, b7) = p4 in
                                if b6
                                then if b7 then Xe4 else X64
                                else if b7 then Xa4 else X24
                           else let (b6, b7) = p4 in
                                if b6
                                then if b7 then Xc4 else X44
                                else if b7 then X84 else X04
            else let (b3, p2) = p1 in
                 if b3
                 then let (b4, p3) = p2 in
                      if b4
                      then let (b5, p4) = p3 in
                           if b5
                           then let (b6, b7) = p4 in
                                if b6
                                then if b7 then Xf8 else X78
                                else if b7 then Xb8 else X38
                           else let (b6, b7) = p4 in
                                if b6
                                then if b7 then Xd8 else X58
                                else if b7 then X98 else X18
                      else let (b5, p4) = p3 in
                           if b5
                           then let (b6, b7) = p4 in
                                if b6
                                then if b7 then Xe8 else X68
                                else if b7 then Xa8 else X28
                           else let (b6, b7) = p4 in
                                if b6
                                then if b7 then Xc8 else X48
                                else if b7 then X88 else X08
                 else let (b4, p3) = p2 in
                      if b4
                      then let (b5, p4) = p3 in
                           if b5
                           then let (b6, b7) = p4 in
                                if b6
                                then if b7 then Xf0 else X70
                                else if b7 then Xb0 else X30
                           else let (b6, b7) = p4 in
                                if b6
                                then if b7 then Xd0 else X50
                                else if b7 then X90 else X10
                      else let (b5, p4) = p3 in
                           if b5
                           then let (b6, b7) = p4 in
                                if b6
                                then if b7 then Xe0 else X60
                                else if b7 then Xa0 else X20
                           else let (b6, b7) = p4 in
                                if b6
                                then if b7 then Xc0 else X40
                                else if b7 then X80 else X00

module Nat =
 struct
  (** val eqb : nat -> nat -> bool **)

  let rec eqb n0 m =
    match n0 with
    | O -> (match m with
            | O -> true
            | S _ -> false)
    | S n' -> (match m with
               | O -> false
               | S m' -> eqb n' m')

  (** val leb : nat -> nat -> bool **)

  let rec leb n0 m =
    match n0 with
    | O -> true
    | S n' -> (match m with
               | O -> false
               | S m' -> leb n' m')
 end

(** val removelast : 'a1 list -> 'a1 list **)

let rec removelast = function
| [] -> []
| a :: l0 -> (match l0 with
              | [] -> []
              | _ :: _ -> a :: (removelast l0))

(** val concat : 'a1 list list -> 'a1 list **)

let rec concat = function
| [] -> []
| x :: l0 -> app x (concat l0)

(** val map : ('a1 -> 'a2) -> 'a1 list -> 'a2 list **)

let rec map f = function
| [] -> []
| a :: t -> (f a) :: (map f t)

(** val flat_map : ('a1 -> 'a2 list) -> 'a1 list -> 'a2 list **)

let rec flat_map f = function
| [] -> []
| x :: t -> app (f x) (flat_map f t)

(** val fold_left : ('a1 -> 'a2 -> 'a1) -> 'a2 list -> 'a1 -> 'a1 **)

let rec fold_left f l a0 =
  match l with
  | [] -> a0
  | b :: t -> fold_left f t (f a0 b)

(** val existsb : ('a1 -> bool) -> 'a1 list -> bool **)

let rec existsb f = function
| [] -> false
| a :: l0 -> (||) (f a) (existsb f l0)

(** val forallb : ('a1 -> bool) -> 'a1 list -> bool **)

let rec forallb f = function
| [] -> true
| a :: l0 -> (&&) (f a) (forallb f l0)

(** val find : ('a1 -> bool) -> 'a1 list -> 'a1 option **)

let rec find f = function
| [] -> None
| x :: tl -> if f x then Some x else find f tl

(** val skipn : nat -> 'a1 list -> 'a1 list **)

let rec skipn n0 l =
  match n0 with
  | O -> l
  | S n1 -> (match l with
             | [] -> []
             | _ :: l0 -> skipn n1 l0)

type positive =
| XI of positive
| XO of positive
| XH

type n =
| N0
| Npos of positive

module Pos =
 struct
  type mask =
  | IsNul
  | IsPos of positive
  | IsNeg
 end

module Coq_Pos =
 struct
  (** val succ : positive -> positive **)

  let rec succ = function
  | XI p -> XO (succ p)
  | XO p -> XI p
  | XH -> XO XH

  (** val add : positive -> positive -> positive **)

  let rec add x y =
    match x with
    | XI p ->
      (match y with
       | XI q -> XO (add_carry p q)
       | XO q -> XI (add p q)
       | XH -> XO (succ p))
    | XO p ->
      (match y with
       | XI q -> XI (add p q)
       | XO q -> XO (add p q)
       | XH -> XI p)
    | XH -> (match y with
             | XI q -> XO (succ q)
             | XO q -> XI q
             | XH -> XO XH)

  (** val add_carry : positive -> positive -> positive **)

  and add_carry x y =
    match x with
    | XI p ->
      (match y with
       | XI q -> XI (add_carry p q)
       | XO q -> XO (add_carry p q)
       | XH -> XI (succ p))
    | XO p ->
      (match y with
       | XI q -> XO (add_carry p q)
       | XO q -> XI (add p q)
       | XH -> XO (succ p))
    | XH ->
      (match y with
       | XI q -> XI (succ q)
       | XO q -> XO (succ q)
       | XH -> XI XH)

  (** val pred_double : positive -> positive **)

  let rec pred_double = function
  | XI p -> XI (XO p)
  | XO p -> XI (pred_double p)
  | XH -> XH

  type mask = Pos.mask =
  | IsNul
  | IsPos of positive
  | IsNeg

  (** val succ_double_mask : mask -> mask **)

  let succ_double_mask = function
  | IsNul -> IsPos XH
  | IsPos p -> IsPos (XI p)
  | IsNeg -> IsNeg

  (** val double_mask : mask -> mask **)

  let double_mask = function
  | IsPos p -> IsPos (XO p)
  | x0 -> x0

  (** val double_pred_mask : positive -> mask **)

  let double_pred_mask = function
  | XI p -> IsPos (XO (XO p))
  | XO p -> IsPos (XO (pred_double p))
  | XH -> IsNul

  (** val sub_mask : positive -> positive -> mask **)

  let rec sub_mask x y =
    match x with
    | XI p ->
      (match y with
       | XI q -> double_mask (sub_mask p q)
       | XO q -> succ_double_mask (sub_mask p q)
       | XH -> IsPos (XO p))
    | XO p ->
      (match y with
       | XI q -> succ_double_mask (sub_mask_carry p q)
       | XO q -> double_mask (sub_mask p q)
       | XH -> IsPos (pred_double p))
    | XH -> (match y with
             | XH -> IsNul
             | _ -> IsNeg)

  (** val sub_mask_carry : positive -> positive -> mask **)

  and sub_mask_carry x y =
    match x with
    | XI p ->
      (match y with
       | XI q -> succ_double_mask (sub_mask_carry p q)
       | XO q -> double_mask (sub_mask p q)
       | XH -> IsPos (pred_double p))
    | XO p ->
      (match y with
       | XI q -> double_mask (sub_mask_carry p q)
       | XO q -> succ_double_mask (sub_mask_carry p q)
       | XH -> double_pred_mask p)
    | XH -> IsNeg

  (** val compare_cont : comparison -> positive -> positive -> comparison **)

  let rec compare_cont r x y =
    match x with
    | XI p ->
      (match y with
       | XI q -> compare_cont r p q
       | XO q -> compare_cont Gt p q
       | XH -> Gt)
    | XO p ->
      (match y with
       | XI q -> compare_cont Lt p q
       | XO q -> compare_cont r p q
       | XH -> Gt)
    | XH -> (match y with
             | XH -> r
             | _ -> Lt)

  (** val compare : positive -> positive -> comparison **)

  let compare =
    compare_cont Eq

  (** val eqb : positive -> positive -> bool **)

  let rec eqb p q =
    match p with
    | XI p0 -> (match q with
                | XI q0 -> eqb p0 q0
                | _ -> false)
    | XO p0 -> (match q with
                | XO q0 -> eqb p0 q0
                | _ -> false)
    | XH -> (match q with
             | XH -> true
             | _ -> false)

  (** val coq_Nsucc_double : n -> n **)

  let coq_Nsucc_double = function
  | N0 -> Npos XH
  | Npos p -> Npos (XI p)

  (** val coq_Ndouble : n -> n **)

  let coq_Ndouble = function
  | N0 -> N0
  | Npos p -> Npos (XO p)

  (** val coq_land : positive -> positive -> n **)

  let rec coq_land p q =
    match p with
    | XI p0 ->
      (match q with
       | XI q0 -> coq_Nsucc_double (coq_land p0 q0)
       | XO q0 -> coq_Ndouble (coq_land p0 q0)
       | XH -> Npos XH)
    | XO p0 ->
      (match q with
       | XI q0 -> coq_Ndouble (coq_land p0 q0)
       | XO q0 -> coq_Ndouble (coq_land p0 q0)
       | XH -> N0)
    | XH -> (match q with
             | XO _ -> N0
             | _ -> Npos XH)

  (** val iter_op : ('a1 -> 'a1 -> 'a1) -> positive -> 'a1 -> 'a1 **)

  let rec iter_op op p a =
    match p with
    | XI p0 -> op a (iter_op op p0 (op a a))
    | XO p0 -> iter_op op p0 (op a a)
    | XH -> a

  (** val to_nat : positive -> nat **)

  let to_nat x =
    iter_op Coq__1.add x (S O)

  (** val of_succ_nat : nat -> positive **)

  let rec of_succ_nat = function
  | O -> XH
  | S x -> succ (of_succ_nat x)
 end

module N =
 struct
  (** val add : n -> n -> n **)

  let add n0 m =
    match n0 with
    | N0 -> m
    | Npos p -> (match m with
                 | N0 -> n0
                 | Npos q -> Npos (Coq_Pos.add p q))

  (** val sub : n -> n -> n **)

  let sub n0 m =
    match n0 with
    | N0 -> N0
    | Npos n' ->
      (match m with
       | N0 -> n0
       | Npos m' ->
         (match Coq_Pos.sub_mask n' m' with
          | Coq_Pos.IsPos p -> Npos p
          | _ -> N0))

  (** val compare : n -> n -> comparison **)

  let compare n0 m =
    match n0 with
    | N0 -> (match m with
             | N0 -> Eq
             | Npos _ -> Lt)
    | Npos n' -> (match m with
                  | N0 -> Gt
                  | Npos m' -> Coq_Pos.compare n' m')

  (** val eqb : n -> n -> bool **)

  let eqb n0 m =
    match n0 with
    | N0 -> (match m with
             | N0 -> true
             | Npos _ -> false)
    | Npos p -> (match m with
                 | N0 -> false
                 | Npos q -> Coq_Pos.eqb p q)

  (** val leb : n -> n -> bool **)

  let leb x y =
    match compare x y with
    | Gt -> false
    | _ -> true

  (** val ltb : n -> n -> bool **)

  let ltb x y =
    match compare x y with
    | Lt -> true
    | _ -> false

  (** val min : n -> n -> n **)

  let min n0 n' =
    match compare n0 n' with
    | Gt -> n'
    | _ -> n0

  (** val max : n -> n -> n **)

  let max n0 n' =
    match compare n0 n' with
    | Gt -> n0
    | _ -> n'

  (** val coq_land : n -> n -> n **)

  let coq_land n0 m =
    match n0 with
    | N0 -> N0
    | Npos p -> (match m with
                 | N0 -> N0
                 | Npos q -> Coq_Pos.coq_land p q)

  (** val to_nat : n -> nat **)

  let to_nat = function
  | N0 -> O
  | Npos p -> Coq_Pos.to_nat p

  (** val of_nat : nat -> n **)

  let of_nat = function
  | O -> N0
  | S n' -> Npos (Coq_Pos.of_succ_nat n')
 end

(** val to_N : byte -> n **)

let to_N = function
| X00 -> N0
| X01 -> Npos XH
| X02 -> Npos (XO XH)
| X03 -> Npos (XI XH)
| X04 -> Npos (XO (XO XH))
| X05 -> Npos (XI (XO XH))
| X06 -> Npos (XO (XI XH))
| X07 -> Npos (XI (XI XH))
| X08 -> Npos (XO (XO (XO XH)))
| X09 -> Npos (XI (XO (XO XH)))
| X0a -> Npos (XO (XI (XO XH)))
| X0b -> Npos (XI (XI (XO XH)))
| X0c -> Npos (XO (XO (XI XH)))
| X0d -> Npos (XI (XO (XI XH)))
| X0e -> Npos (XO (XI (XI XH)))
| X0f -> Npos (XI (XI (XI XH)))
| X10 -> Npos (XO (XO (XO (XO XH))))
| X11 -> Npos (XI (XO (XO (XO XH))))
| X12 -> Npos (XO (XI (XO (XO XH))))
| X13 -> Npos (XI (XI (XO (XO XH))))
| X14 -> Npos (XO (XO (XI (XO XH))))
| X15 -> Npos (XI (XO (XI (XO XH))))
| X16 -> Npos (XO (XI (XI (XO XH))))
| X17 -> Npos (XI (XI (XI (XO XH))))
| X18 -> Npos (XO (XO (XO (XI XH))))
| X19 -> Npos (XI (XO (XO (XI XH))))
| X1a -> Npos (XO (XI (XO (XI XH))))
| X1b -> Npos (XI (XI (XO (XI XH))))
| X1c -> Npos (XO (XO (XI (XI XH))))
| X1d -> Npos (XI (XO (XI (XI XH))))
| X1e -> Npos (XO (XI (XI (XI XH))))
| X1f -> Npos (XI (XI (XI (XI XH))))
| X20 -> Npos (XO (XO (XO (XO (XO XH)))))
| X21 -> Npos (XI (XO (XO (XO (XO XH)))))
| X22 -> Npos (XO (XI (XO (XO (XO XH)))))
| X23 -> Npos (XI (XI (XO (XO (XO XH)))))
| X24 -> Npos (XO (XO (XI (XO (XO XH)))))
| X25 -> Npos (XI (XO (XI (XO (XO XH)))))
| X26 -> Npos (XO (XI (XI (XO (XO XH)))))
| X27 -> Npos (XI (XI (XI (XO (XO XH)))))
| X28 -> Npos (XO (XO (XO (XI (XO XH)))))
| X29 -> Npos (XI (XO (XO (XI (XO XH)))))
| X2a -> Npos (XO (XI (XO (XI (XO XH)))))
| X2b -> Npos (XI (XI (XO (XI (XO XH)))))
| X2c -> Npos (XO (XO (XI (XI (XO XH)))))
| X2d -> Npos (XI (XO (XI (XI (XO XH)))))
| X2e -> Npos (XO (XI (XI (XI (XO XH)))))
| X2f -> Npos (XI (XI (XI (XI (XO XH)))))
| X30 -> Npos (XO (XO (XO (XO (XI XH)))))
| X31 -> Npos (XI (XO (XO (XO (XI XH)))))
| X32 -> Npos (XO (XI (XO (XO (XI XH)))))
| X33 -> Npos (XI (XI (XO (XO (XI XH)))))
| X34 -> Npos (XO (XO (XI (XO (XI XH)))))
| X35 -> Npos (XI (XO (XI (XO (XI XH)))))
| X36 -> Npos (XO (XI (XI (XO (XI XH)))))
| X37 -> Npos (XI (XI (XI (XO (XI XH)))))
| X38 -> Npos (XO (XO (XO (XI (XI XH)))))
| X39 -> Npos (XI (XO (XO (XI (XI XH)))))
| X3a -> Npos (XO (XI (XO (XI (XI XH)))))
| X3b -> Npos (XI (XI (XO (XI (XI XH)))))
| X3c -> Npos (XO (XO (XI (XI (XI XH)))))
| X3d -> Npos (XI (XO (XI (XI (XI XH)))))
| X3e -> Npos (XO (XI (XI (XI (XI XH)))))
| X3f -> Npos (XI (XI (XI (XI (XI XH)))))
| X40 -> Npos (XO (XO (XO (XO (XO (XO XH))))))
| X41 -> Npos (XI (XO (XO (XO (XO (XO XH))))))
| X42 -> Npos (XO (XI (XO (XO (XO (XO XH))))))
| X43 -> Npos (XI (XI (XO (XO (XO (XO XH))))))
| X44 -> Npos (XO (XO (XI (XO (XO (XO XH))))))
| X45 -> Npos (XI (XO (XI (XO (XO (XO XH))))))
| X46 -> Npos (XO (XI (XI (XO (XO (XO XH))))))
| X47 -> Npos (XI (XI (XI (XO (XO (XO XH))))))
| X48 -> Npos (XO (XO (XO (XI (XO (XO XH))))))
| X49 -> Npos (XI (XO (XO (XI (XO (XO XH))))))
| X4a -> Npos (XO (XI (XO (XI (XO (XO XH))))))
| X4b -> Npos (XI (XI (XO (XI (XO (XO XH))))))
| X4c -> Npos (XO (XO (XI (XI (XO (XO XH))))))
| X4d -> Npos (XI (XO (XI (XI (XO (XO XH))))))
| X4e -> Npos (XO (XI (XI (XI (XO (XO XH))))))
| X4f -> Npos (XI (XI (XI (XI (XO (XO XH))))))
| X50 -> Npos (XO (XO (XO (XO (XI (XO XH))))))
| X51 -> Npos (XI (XO (XO (XO (XI (XO XH))))))
| X52 -> Npos (XO (XI (XO (XO (XI (XO XH))))))
| X53 -> Npos (XI (XI (XO (XO (XI (XO XH))))))
| X54 -> Npos (XO (XO (XI (XO (XI (XO XH))))))
| X55 -> Npos (XI (XO (XI (XO (XI (XO XH))))))
| X56 -> Npos (XO (XI (XI (XO (XI (XO XH))))))
| X57 -> Npos (XI (XI (XI (XO (XI (XO XH))))))
| X58 -> Npos (XO (XO (XO (XI (XI (XO XH))))))
| X59 -> Npos (XI (XO (XO (XI (XI (XO XH))))))
| X5a -> Npos (XO (XI (XO (XI (XI (XO XH))))))
| X5b -> Npos (XI (XI (XO (XI (XI (XO XH))))))
| X5c -> Npos (XO (XO (XI (XI (XI (XO XH))))))
| X5d -> Npos (XI (XO (XI (XI (XI (XO XH))))))
| X5e -> Npos (XO (XI (XI (XI (XI (XO XH))))))
| X5f -> Npos (XI (XI (XI (XI (XI (XO XH))))))
| X60 -> Npos (XO (XO (XO (XO (XO (XI XH))))))
| X61 -> Npos (XI (XO (XO (XO (XO (XI XH))))))
| X62 -> Npos (XO (XI (XO (XO (XO (XI XH))))))
| X63 -> Npos (XI (XI (XO (XO (XO (XI XH))))))
| X64 -> Npos (XO (XO (XI (XO (XO (XI XH))))))
| X65 -> Npos (XI (XO (XI (XO (XO (XI XH))))))
| X66 -> Npos (XO (XI (XI (XO (XO (XI XH))))))
| X67 -> Npos (XI (XI (XI (XO (XO (XI XH))))))
| X68 -> Npos (XO (XO (XO (XI (XO (XI XH))))))
| X69 -> Npos (XI (XO (XO (XI (XO (XI XH))))))
| X6a -> Npos (XO (XI (XO (XI (XO (XI XH))))))
| X6b -> Npos (XI (XI (XO (XI (XO (XI XH))))))
| X6c -> Npos (XO (XO (XI (XI (XO (XI XH))))))
| X6d -> Npos (XI (XO (XI (XI (XO (XI XH))))))
| X6e -> Npos (XO (XI (XI (XI (XO (XI XH))))))
| X6f -> Npos (XI (XI (XI (XI (XO (XI XH))))))
| X70 -> Npos (XO (XO (XO (XO (XI (XI XH))))))
| X71 -> Npos (XI (XO (XO (XO (XI (XI XH))))))
| X72 -> Npos (XO (XI (XO (XO (XI (XI XH))))))
| X73 -> Npos (XI (XI (XO (XO (XI (XI XH))))))
| X74 -> Npos (XO (XO (XI (XO (XI (XI XH))))))
| X75 -> Npos (XI (XO (XI (XO (XI (XI XH))))))
| X76 -> Npos (XO (XI (XI (XO (XI (XI XH))))))
| X77 -> Npos (XI (XI (XI (XO (XI (XI XH))))))
| X78 -> Npos (XO (XO (XO (XI (XI (XI XH))))))
| X79 -> Npos (XI (XO (XO (XI (XI (XI XH))))))
| X7a -> Npos (XO (XI (XO (XI (XI (XI XH))))))
| X7b -> Npos (XI (XI (XO (XI (XI (XI XH))))))
| X7c -> Npos (XO (XO (XI (XI (XI (XI XH))))))
| X7d -> Npos (XI (XO (XI (XI (XI (XI XH))))))
| X7e -> Npos (XO (XI (XI (XI (XI (XI XH))))))
| X7f -> Npos (XI (XI (XI (XI (XI (XI XH))))))
| X80 -> Npos (XO (XO (XO (XO (XO (XO (XO XH)))))))
| X81 -> Npos (XI (XO (XO (XO (XO (XO (XO XH)))))))
| X82 -> Npos (XO (XI (XO (XO (XO (XO (XO XH)))))))
| X83 -> Npos (XI (XI (XO (XO (XO (XO (XO XH)))))))
| X84 -> Npos (XO (XO (XI (XO (XO (XO (XO XH)))))))
| X85 -> Npos (XI (XO (XI (XO (XO (XO (XO XH)))))))
| X86 -> Npos (XO (XI (XI (XO (XO (XO (XO XH)))))))
| X87 -> Npos (XI (XI (XI (XO (XO (XO (XO XH)))))))
| X88 -> Npos (XO (XO (XO (XI (XO (XO (XO XH)))))))
| X89 -> Npos (XI (XO (XO (XI (XO (XO (XO XH)))))))
| X8a -> Npos (XO (XI (XO (XI (XO (XO (XO XH)))))))
| X8b -> Npos (XI (XI (XO (XI (XO (XO (XO XH)))))))
| X8c -> Npos (XO (XO (XI (XI (XO (XO (XO XH)))))))
| X8d -> Npos (XI (XO (XI (XI (XO (XO (XO XH)))))))
| X8e -> Npos (XO (XI (XI (XI (XO (XO (XO XH)))))))
| X8f -> Npos (XI (XI (XI (XI (XO (XO (XO XH)))))))
| X90 -> Npos (XO (XO (XO (XO (XI (XO (XO XH)))))))
| X91 -> Npos (XI (XO (XO (XO (XI (XO (XO XH)))))))
| X92 -> Npos (XO (XI (XO (XO (XI (XO (XO XH)))))))
| X93 -> Npos (XI (XI (XO (XO (XI (XO (XO XH)))))))
| X94 -> Npos (XO (XO (XI (XO (XI (XO (XO XH)))))))
| X95 -> Npos (XI (XO (XI (XO (XI (XO (XO XH)))))))
| X96 -> Npos (XO (XI (XI (XO (XI (XO (XO XH)))))))
| X97 -> Npos (XI (XI (XI (XO (XI (XO (XO XH)))))))
| X98 -> Npos (XO (XO (XO (XI (XI (XO (XO XH)))))))
| X99 -> Npos (XI (XO (XO (XI (XI (XO (XO XH)))))))
| X9a -> Npos (XO (XI (XO (XI (XI (XO (XO XH)))))))
| X9b -> Npos (XI (XI (XO (XI (XI (XO (XO XH)))))))
| X9c -> Npos (XO (XO (XI (XI (XI (XO (XO XH)))))))
| X9d -> Npos (XI (XO (XI (XI (XI (XO (XO XH)))))))
| X9e -> Npos (XO (XI (XI (XI (XI (XO (XO XH)))))))
| X9f -> Npos (XI (XI (XI (XI (XI (XO (XO XH)))))))
| Xa0 -> Npos (XO (XO (XO (XO (XO (XI (XO XH)))))))
| Xa1 -> Npos (XI (XO (XO (XO (XO (XI (XO XH)))))))
| Xa2 -> Npos (XO (XI (XO (XO (XO (XI (XO XH)))))))
| Xa3 -> Npos (XI (XI (XO (XO (XO (XI (XO XH)))))))
| Xa4 -> Npos (XO (XO (XI (XO (XO (XI (XO XH)))))))
| Xa5 -> Npos (XI (XO (XI (XO (XO (XI (XO XH)))))))
| Xa6 -> Npos (XO (XI (XI (XO (XO (XI (XO XH)))))))
| Xa7 -> Npos (XI (XI (XI (XO (XO (XI (XO XH)))))))
| Xa8 -> Npos (XO (XO (XO (XI (XO (XI (XO XH)))))))
| Xa9 -> Npos (XI (XO (XO (XI (XO (XI (XO XH)))))))
| Xaa -> Npos (XO (XI (XO (XI (XO (XI (XO XH)))))))
| Xab -> Npos (XI (XI (XO (XI (XO (XI (XO XH)))))))
| Xac -> Npos (XO (XO (XI (XI (XO (XI (XO XH)))))))
| Xad -> Npos (XI (XO (XI (XI (XO (XI (XO XH)))))))
| Xae -> Npos (XO (XI (XI (XI (XO (XI (XO XH)))))))
| Xaf -> Npos (XI (XI (XI (XI (XO (XI (XO XH)))))))
| Xb0 -> Npos (XO (XO (XO (XO (XI (XI (XO XH)))))))
| Xb1 -> Npos (XI (XO (XO (XO (XI (XI (XO XH)))))))
| Xb2 -> Npos (XO (XI (XO (XO (XI (XI (XO XH)))))))
| Xb3 -> Npos (XI (XI (XO (XO (XI (XI (XO XH)))))))
| Xb4 -> Npos (XO (XO (XI (XO (XI (XI (XO XH)))))))
| Xb5 -> Npos (XI (XO (XI (XO (XI (XI (XO XH)))))))
| Xb6 -> Npos (XO (XI (XI (XO (XI (XI (XO XH)))))))
| Xb7 -> Npos (XI (XI (XI (XO (XI (XI (XO XH)))))))
| Xb8 -> Npos (XO (XO (XO (XI (XI (XI (XO XH)))))))
| Xb9 -> Npos (XI (XO (XO (XI (XI (XI (XO XH)))))))
| Xba -> Npos (XO (XI (XO (XI (XI (XI (XO XH)))))))
| Xbb -> Npos (XI (XI (XO (XI (XI (XI (XO XH)))))))
| Xbc -> Npos (XO (XO (XI (XI (XI (XI (XO XH)))))))
| Xbd -> Npos (XI (XO (XI (XI (XI (XI (XO XH)))))))
| Xbe -> Npos (XO (XI (XI (XI (XI (XI (XO XH)))))))
| Xbf -> Npos (XI (XI (XI (XI (XI (XI (XO XH)))))))
| Xc0 -> Npos (XO (XO (XO (XO (XO (XO (XI XH)))))))
| Xc1 -> Npos (XI (XO (XO (XO (XO (XO (XI XH)))))))
| Xc2 -> Npos (XO (XI (XO (XO (XO (XO (XI XH)))))))
| Xc3 -> Npos (XI (XI (XO (XO (XO (XO (XI XH)))))))
| Xc4 -> Npos (XO (XO (XI (XO (XO (XO (XI XH)))))))
| Xc5 -> Npos (XI (XO (XI (XO (XO (XO (XI XH)))))))
| Xc6 -> Npos (XO (XI (XI (XO (XO (XO (XI XH)))))))
| Xc7 -> Npos (XI (XI (XI (XO (XO (XO (XI XH)))))))
| Xc8 -> Npos (XO (XO (XO (XI (XO (XO (XI XH)))))))
| Xc9 -> Npos (XI (XO (XO (XI (XO (XO (XI XH)))))))
| Xca -> Npos (XO (XI (XO (XI (XO (XO (XI XH)))))))
| Xcb -> Npos (XI (XI (XO (XI (XO (XO (XI XH)))))))
| Xcc -> Npos (XO (XO (XI (XI (XO (XO (XI XH)))))))
| Xcd -> Npos (XI (XO (XI (XI (XO (XO (XI XH)))))))
| Xce -> Npos (XO (XI (XI (XI (XO (XO (XI XH)))))))
| Xcf -> Npos (XI (XI (XI (XI (XO (XO (XI XH)))))))
| Xd0 -> Npos (XO (XO (XO (XO (XI (XO (XI XH)))))))
| Xd1 -> Npos (XI (XO (XO (XO (XI (XO (XI XH)))))))
| Xd2 -> Npos (XO (XI (XO (XO (XI (XO (XI XH)))))))
| Xd3 -> Npos (XI (XI (XO (XO (XI (XO (XI XH)))))))
| Xd4 -> Npos (XO (XO (XI (XO (XI (XO (XI XH)))))))
| Xd5 -> Npos (XI (XO (XI (XO (XI (XO (XI XH)))))))
| Xd6 -> Npos (XO (XI (XI (XO (XI (XO (XI XH)))))))
| Xd7 -> Npos (XI (XI (XI (XO (XI (XO (XI XH)))))))
| Xd8 -> Npos (XO (XO (XO (XI (XI (XO (XI XH)))))))
| Xd9 -> Npos (XI (XO (XO (XI (XI (XO (XI XH)))))))
| Xda -> Npos (XO (XI (XO (XI (XI (XO (XI XH)))))))
| Xdb -> Npos (XI (XI (XO (XI (XI (XO (XI XH)))))))
| Xdc -> Npos (XO (XO (XI (XI (XI (XO (XI XH)))))))
| Xdd -> Npos (XI (XO (XI (XI (XI (XO (XI XH)))))))
| Xde -> Npos (XO (XI (XI (XI (XI (XO (XI XH)))))))
| Xdf -> Npos (XI (XI (XI (XI (XI (XO (XI XH)))))))
| Xe0 -> Npos (XO (XO (XO (XO (XO (XI (XI XH)))))))
| Xe1 -> Npos (XI (XO (XO (XO (XO (XI (XI XH)))))))
| Xe2 -> Npos (XO (XI (XO (XO (XO (XI (XI XH)))))))
| Xe3 -> Npos (XI (XI (XO (XO (XO (XI (XI XH)))))))
| Xe4 -> Npos (XO (XO (XI (XO (XO (XI (XI XH)))))))
| Xe5 -> Npos (XI (XO (XI (XO (XO (XI (XI XH)))))))
| Xe6 -> Npos (XO (XI (XI (XO (XO (XI (XI XH)))))))
| Xe7 -> Npos (XI (XI (XI (XO (XO (XI (XI XH)))))))
| Xe8 -> Npos (XO (XO (XO (XI (XO (XI (XI XH)))))))
| Xe9 -> Npos (XI (XO (XO (XI (XO (XI (XI XH)))))))
| Xea -> Npos (XO (XI (XO (XI (XO (XI (XI XH)))))))
| Xeb -> Npos (XI (XI (XO (XI (XO (XI (XI XH)))))))
| Xec -> Npos (XO (XO (XI (XI (XO (XI (XI XH)))))))
| Xed -> Npos (XI (XO (XI (XI (XO (XI (XI XH)))))))
| Xee -> Npos (XO (XI (XI (XI (XO (XI (XI XH)))))))
| Xef -> Npos (XI (XI (XI (XI (XO (XI (XI XH)))))))
| Xf0 -> Npos (XO (XO (XO (XO (XI (XI (XI XH)))))))
| Xf1 -> Npos (XI (XO (XO (XO (XI (XI (XI XH)))))))
| Xf2 -> Npos (XO (XI (XO (XO (XI (XI (XI XH)))))))
| Xf3 -> Npos (XI (XI (XO (XO (XI (XI (XI XH)))))))
| Xf4 -> Npos (XO (XO (XI (XO (XI (XI (XI XH)))))))
| Xf5 -> Npos (XI (XO (XI (XO (XI (XI (XI XH)))))))
| Xf6 -> Npos (XO (XI (XI (XO (XI (XI (XI XH)))))))
| Xf7 -> Npos (XI (XI (XI (XO (XI (XI (XI XH)))))))
| Xf8 -> Npos (XO (XO (XO (XI (XI (XI (XI XH)))))))
| Xf9 -> Npos (XI (XO (XO (XI (XI (XI (XI XH)))))))
| Xfa -> Npos (XO (XI (XO (XI (XI (XI (XI XH)))))))
| Xfb -> Npos (XI (XI (XO (XI (XI (XI (XI XH)))))))
| Xfc -> Npos (XO (XO (XI (XI (XI (XI (XI XH)))))))
| Xfd -> Npos (XI (XO (XI (XI (XI (XI (XI XH)))))))
| Xfe -> Npos (XO (XI (XI (XI (XI (XI (XI XH)))))))
| Xff -> Npos (XI (XI (XI (XI (XI (XI (XI XH)))))))

type ascii =
| Ascii of bool * bool * bool * bool * bool * bool * bool * bool

(** val byte_of_ascii : ascii -> byte **)

let byte_of_ascii = function
| Ascii (b0, b1, b2, b3, b4, b5, b6, b7) ->
  of_bits (b0, (b1, (b2, (b3, (b4, (b5, (b6, b7)))))))

type string =
| EmptyString
| String of ascii * string

(** val list_ascii_of_string : string -> ascii list **)

let rec list_ascii_of_string = function
| EmptyString -> []
| String (ch, s0) -> ch :: (list_ascii_of_string s0)

(** val list_byte_of_string : string -> byte list **)

let list_byte_of_string s =
  map byte_of_ascii (list_ascii_of_string s)

(** val bytes_of_string : string -> n list **)

let bytes_of_string s =
  map to_N (list_byte_of_string s)

(** val bS : string -> n list **)

let bS =
  bytes_of_string

(** val bytes_eqb : n list -> n list -> bool **)

let rec bytes_eqb a b =
  match a with
  | [] -> (match b with
           | [] -> true
           | _ :: _ -> false)
  | x :: a' ->
    (match b with
     | [] -> false
     | y :: b' -> (&&) (N.eqb x y) (bytes_eqb a' b'))

(** val nth_opt : 'a1 list -> nat -> 'a1 option **)

let rec nth_opt l n0 =
  match l with
  | [] -> None
  | x :: l' -> (match n0 with
                | O -> Some x
                | S n' -> nth_opt l' n')

type 'a res =
| Val of 'a
| Pan of string
| Fuel

(** val bind : 'a1 res -> ('a1 -> 'a2 res) -> 'a2 res **)

let bind m f =
  match m with
  | Val a -> f a
  | Pan s -> Pan s
  | Fuel -> Fuel

(** val unwrap : string -> 'a1 option -> 'a1 res **)

let unwrap site = function
| Some a -> Val a
| None -> Pan site

type cdspec =
| CEnum of (n * n) list
| CPattern of n * n option
| CString of bool * n option
| CUInt
| CFloat

type elemdef = { ed_name : n; ed_type : n; ed_mult : n; ed_ordered : 
                 n; ed_split : n; ed_restrict : n }

type dtype = { dt_sub_start : n; dt_sub_end : n; dt_sub_ver : n;
               dt_attr_start : n; dt_attr_end : n; dt_attr_ver : n;
               dt_cdata : n; dt_mode : n; dt_ref_start : n; dt_ref_end : 
               n }

type tables = { t_elements : (n -> elemdef option); n_elements : n;
                t_subelements : (n -> (n * n) option); n_subelements : 
                n; t_attributes : (n -> ((n * n) * n) option);
                n_attributes : n; t_version_info : (n -> n option);
                n_version_info : n; t_datatypes : (n -> dtype option);
                n_datatypes : n; t_ref_items : (n -> n option);
                n_ref_items : n; t_cdata : (n -> cdspec option); n_cdata : 
                n; reference_type_idx : n; autosar_element : n;
                name_short_name : n; attr_dest : n }

(** val mSequence : n **)

let mSequence =
  N0

(** val mChoice : n **)

let mChoice =
  Npos XH

(** val mBag : n **)

let mBag =
  Npos (XO XH)

(** val mCharacters : n **)

let mCharacters =
  Npos (XI XH)

(** val mMixed : n **)

let mMixed =
  Npos (XO (XO XH))

type etype = n * n

(** val elem : tables -> n -> elemdef res **)

let elem t i =
  unwrap (String ((Ascii (true, false, true, false, false, false, true,
    false)), (String ((Ascii (false, false, true, true, false, false, true,
    false)), (String ((Ascii (true, false, true, false, false, false, true,
    false)), (String ((Ascii (true, false, true, true, false, false, true,
    false)), (String ((Ascii (true, false, true, false, false, false, true,
    false)), (String ((Ascii (false, true, true, true, false, false, true,
    false)), (String ((Ascii (false, false, true, false, true, false, true,
    false)), (String ((Ascii (true, true, false, false, true, false, true,
    false)), (String ((Ascii (true, true, false, true, true, false, true,
    false)), (String ((Ascii (true, false, false, true, false, true, true,
    false)), (String ((Ascii (true, false, true, true, true, false, true,
    false)), EmptyString)))))))))))))))))))))) (t.t_elements i)

(** val dt : tables -> n -> dtype res **)

let dt t i =
  unwrap (String ((Ascii (false, false, true, false, false, false, true,
    false)), (String ((Ascii (true, false, false, false, false, false, true,
    false)), (String ((Ascii (false, false, true, false, true, false, true,
    false)), (String ((Ascii (true, false, false, false, false, false, true,
    false)), (String ((Ascii (false, false, true, false, true, false, true,
    false)), (String ((Ascii (true, false, false, true, true, false, true,
    false)), (String ((Ascii (false, false, false, false, true, false, true,
    false)), (String ((Ascii (true, false, true, false, false, false, true,
    false)), (String ((Ascii (true, true, false, false, true, false, true,
    false)), (String ((Ascii (true, true, false, true, true, false, true,
    false)), (String ((Ascii (true, false, false, true, false, true, true,
    false)), (String ((Ascii (true, false, true, true, true, false, true,
    false)), EmptyString)))))))))))))))))))))))) (t.t_datatypes i)

(** val vinfo : tables -> n -> n res **)

let vinfo t i =
  unwrap (String ((Ascii (false, true, true, false, true, false, true,
    false)), (String ((Ascii (true, false, true, false, false, false, true,
    false)), (String ((Ascii (false, true, false, false, true, false, true,
    false)), (String ((Ascii (true, true, false, false, true, false, true,
    false)), (String ((Ascii (true, false, false, true, false, false, true,
    false)), (String ((Ascii (true, true, true, true, false, false, true,
    false)), (String ((Ascii (false, true, true, true, false, false, true,
    false)), (String ((Ascii (true, true, true, true, true, false, true,
    false)), (String ((Ascii (true, false, false, true, false, false, true,
    false)), (String ((Ascii (false, true, true, true, false, false, true,
    false)), (String ((Ascii (false, true, true, false, false, false, true,
    false)), (String ((Ascii (true, true, true, true, false, false, true,
    false)), (String ((Ascii (true, true, false, true, true, false, true,
    false)), (String ((Ascii (true, false, false, true, false, true, true,
    false)), (String ((Ascii (true, false, true, true, true, false, true,
    false)), EmptyString)))))))))))))))))))))))))))))) (t.t_version_info i)

(** val subel : tables -> n -> (n * n) res **)

let subel t i =
  unwrap (String ((Ascii (true, true, false, false, true, false, true,
    false)), (String ((Ascii (true, false, true, false, true, false, true,
    false)), (String ((Ascii (false, true, false, false, false, false, true,
    false)), (String ((Ascii (true, false, true, false, false, false, true,
    false)), (String ((Ascii (false, false, true, true, false, false, true,
    false)), (String ((Ascii (true, false, true, false, false, false, true,
    false)), (String ((Ascii (true, false, true, true, false, false, true,
    false)), (String ((Ascii (true, false, true, false, false, false, true,
    false)), (String ((Ascii (false, true, true, true, false, false, true,
    false)), (String ((Ascii (false, false, true, false, true, false, true,
    false)), (String ((Ascii (true, true, false, false, true, false, true,
    false)), (String ((Ascii (true, true, false, true, true, false, true,
    false)), (String ((Ascii (true, false, false, true, false, true, true,
    false)), (String ((Ascii (true, false, true, true, true, false, true,
    false)), EmptyString)))))))))))))))))))))))))))) (t.t_subelements i)

(** val et_new : tables -> n -> etype res **)

let et_new t def =
  bind (elem t def) (fun e -> Val (def, e.ed_type))

(** val slice_chk : string -> n -> n -> n -> unit res **)

let slice_chk site start stop len =
  if (||) (N.ltb stop start) (N.ltb len stop) then Pan site else Val ()

(** val sub_slice : tables -> n -> ((n * n) * dtype) res **)

let sub_slice t ty =
  bind (dt t ty) (fun d ->
    bind
      (slice_chk (String ((Ascii (true, true, false, false, true, false,
        true, false)), (String ((Ascii (true, false, true, false, true,
        false, true, false)), (String ((Ascii (false, true, false, false,
        false, false, true, false)), (String ((Ascii (true, false, true,
        false, false, false, true, false)), (String ((Ascii (false, false,
        true, true, false, false, true, false)), (String ((Ascii (true,
        false, true, false, false, false, true, false)), (String ((Ascii
        (true, false, true, true, false, false, true, false)), (String
        ((Ascii (true, false, true, false, false, false, true, false)),
        (String ((Ascii (false, true, true, true, false, false, true,
        false)), (String ((Ascii (false, false, true, false, true, false,
        true, false)), (String ((Ascii (true, true, false, false, true,
        false, true, false)), (String ((Ascii (true, true, false, true, true,
        false, true, false)), (String ((Ascii (true, false, false, false,
        false, true, true, false)), (String ((Ascii (false, true, true, true,
        false, true, false, false)), (String ((Ascii (false, true, true,
        true, false, true, false, false)), (String ((Ascii (false, true,
        false, false, false, true, true, false)), (String ((Ascii (true,
        false, true, true, true, false, true, false)),
        EmptyString)))))))))))))))))))))))))))))))))) d.dt_sub_start
        d.dt_sub_end t.n_subelements) (fun _ -> Val ((d.dt_sub_start,
      d.dt_sub_end), d)))

(** val find_sub :
    tables -> nat -> n -> n -> n -> (etype * n list) option res **)

let rec find_sub t fuel ty target version =
  match fuel with
  | O -> Fuel
  | S fuel' ->
    bind (sub_slice t ty) (fun x ->
      let (p, d) = x in
      let (start, stop) = p in
      let rec loop k pos =
        match k with
        | O -> Val None
        | S k' ->
          bind (subel t (N.add start pos)) (fun x0 ->
            let (kind, idx) = x0 in
            if N.eqb kind N0
            then bind (elem t idx) (fun e ->
                   bind (vinfo t (N.add d.dt_sub_ver pos)) (fun mask0 ->
                     if (&&) (N.eqb e.ed_name target)
                          (negb (N.eqb (N.coq_land version mask0) N0))
                     then bind (et_new t idx) (fun et -> Val (Some (et,
                            (pos :: []))))
                     else loop k' (N.add pos (Npos XH))))
            else (match find_sub t fuel' idx target version with
                  | Val a ->
                    (match a with
                     | Some p0 ->
                       let (et, ixs) = p0 in Val (Some (et, (pos :: ixs)))
                     | None -> loop k' (N.add pos (Npos XH)))
                  | x1 -> x1))
      in loop (N.to_nat (N.sub stop start)) N0)

(** val fUEL : nat **)

let fUEL =
  S (S (S (S (S (S (S (S (S (S (S (S (S (S (S (S (S (S (S (S (S (S (S (S
    O)))))))))))))))))))))))

(** val find_sub_element :
    tables -> etype -> n -> n -> (etype * n list) option res **)

let find_sub_element t t0 target version =
  find_sub t fUEL (snd t0) target version

(** val short_name_version_mask : tables -> n -> n option res **)

let short_name_version_mask t ty =
  bind (sub_slice t ty) (fun x ->
    let (p, d) = x in
    let (start, stop) = p in
    if N.eqb start stop
    then Val None
    else bind (subel t start) (fun x0 ->
           let (kind, idx) = x0 in
           if N.eqb kind N0
           then bind (elem t idx) (fun e ->
                  if N.eqb e.ed_name t.name_short_name
                  then bind (vinfo t d.dt_sub_ver) (fun m -> Val (Some m))
                  else Val None)
           else Val None))

(** val is_named : tables -> etype -> bool res **)

let is_named t t0 =
  bind (short_name_version_mask t (snd t0)) (fun m -> Val
    (match m with
     | Some _ -> true
     | None -> false))

(** val is_named_in_version : tables -> etype -> n -> bool res **)

let is_named_in_version t t0 v =
  bind (short_name_version_mask t (snd t0)) (fun m -> Val
    (match m with
     | Some mask0 -> negb (N.eqb (N.coq_land mask0 v) N0)
     | None -> false))

(** val list_sub : tables -> nat -> n -> (((n * etype) * n) * n) list res **)

let rec list_sub t fuel ty =
  match fuel with
  | O -> Fuel
  | S fuel' ->
    bind (dt t ty) (fun d ->
      let start = d.dt_sub_start in
      let stop = d.dt_sub_end in
      let rec loop k pos =
        match k with
        | O -> Val []
        | S k' ->
          bind (subel t (N.add start pos)) (fun x ->
            let (kind, idx) = x in
            if N.eqb kind N0
            then bind (elem t idx) (fun e ->
                   bind (vinfo t (N.add d.dt_sub_ver pos)) (fun mask0 ->
                     bind (et_new t idx) (fun et ->
                       bind (short_name_version_mask t (snd et)) (fun nm ->
                         bind (loop k' (N.add pos (Npos XH))) (fun rest ->
                           Val ((((e.ed_name, et), mask0),
                           (match nm with
                            | Some m -> m
                            | None -> N0)) :: rest))))))
            else bind (list_sub t fuel' idx) (fun inner ->
                   bind (loop k' (N.add pos (Npos XH))) (fun rest -> Val
                     (app inner rest))))
      in loop (N.to_nat (N.sub stop start)) N0)

(** val sub_element_spec_list :
    tables -> etype -> (((n * etype) * n) * n) list res **)

let sub_element_spec_list t t0 =
  list_sub t fUEL (snd t0)

(** val walk_groups : tables -> n -> n list -> ((n * n) * n) option res **)

let rec walk_groups t cur_ty = function
| [] -> Val None
| i :: rest ->
  (match rest with
   | [] ->
     bind (sub_slice t cur_ty) (fun x ->
       let (p, d) = x in
       let (start, stop) = p in
       if N.leb (N.sub stop start) i
       then Pan (String ((Ascii (true, true, false, false, false, true, true,
              false)), (String ((Ascii (true, false, true, false, true, true,
              true, false)), (String ((Ascii (false, true, false, false,
              true, true, true, false)), (String ((Ascii (false, true, false,
              false, true, true, true, false)), (String ((Ascii (true, false,
              true, false, false, true, true, false)), (String ((Ascii
              (false, true, true, true, false, true, true, false)), (String
              ((Ascii (false, false, true, false, true, true, true, false)),
              (String ((Ascii (true, true, true, true, true, false, true,
              false)), (String ((Ascii (true, true, false, false, true, true,
              true, false)), (String ((Ascii (false, false, false, false,
              true, true, true, false)), (String ((Ascii (true, false, true,
              false, false, true, true, false)), (String ((Ascii (true, true,
              false, false, false, true, true, false)), (String ((Ascii
              (true, true, false, true, true, false, true, false)), (String
              ((Ascii (false, false, true, true, false, true, true, false)),
              (String ((Ascii (true, false, false, false, false, true, true,
              false)), (String ((Ascii (true, true, false, false, true, true,
              true, false)), (String ((Ascii (false, false, true, false,
              true, true, true, false)), (String ((Ascii (true, true, true,
              true, true, false, true, false)), (String ((Ascii (true, false,
              false, true, false, true, true, false)), (String ((Ascii
              (false, false, true, false, false, true, true, false)), (String
              ((Ascii (false, false, false, true, true, true, true, false)),
              (String ((Ascii (true, false, true, true, true, false, true,
              false)), EmptyString))))))))))))))))))))))))))))))))))))))))))))
       else bind (subel t (N.add start i)) (fun se ->
              bind (vinfo t (N.add d.dt_sub_ver i)) (fun m -> Val (Some (se,
                m)))))
   | _ :: _ ->
     bind (sub_slice t cur_ty) (fun x ->
       let (p, _) = x in
       let (start, stop) = p in
       if N.leb (N.sub stop start) i
       then Pan (String ((Ascii (true, true, false, false, false, true, true,
              false)), (String ((Ascii (true, false, true, false, true, true,
              true, false)), (String ((Ascii (false, true, false, false,
              true, true, true, false)), (String ((Ascii (false, true, false,
              false, true, true, true, false)), (String ((Ascii (true, false,
              true, false, false, true, true, false)), (String ((Ascii
              (false, true, true, true, false, true, true, false)), (String
              ((Ascii (false, false, true, false, true, true, true, false)),
              (String ((Ascii (true, true, true, true, true, false, true,
              false)), (String ((Ascii (true, true, false, false, true, true,
              true, false)), (String ((Ascii (false, false, false, false,
              true, true, true, false)), (String ((Ascii (true, false, true,
              false, false, true, true, false)), (String ((Ascii (true, true,
              false, false, false, true, true, false)), (String ((Ascii
              (true, true, false, true, true, false, true, false)), (String
              ((Ascii (true, false, true, false, false, true, true, false)),
              (String ((Ascii (false, false, true, true, false, true, true,
              false)), (String ((Ascii (true, false, true, false, false,
              true, true, false)), (String ((Ascii (true, false, true, true,
              false, true, true, false)), (String ((Ascii (true, false, true,
              false, false, true, true, false)), (String ((Ascii (false,
              true, true, true, false, true, true, false)), (String ((Ascii
              (false, false, true, false, true, true, true, false)), (String
              ((Ascii (true, true, true, true, true, false, true, false)),
              (String ((Ascii (true, false, false, true, false, true, true,
              false)), (String ((Ascii (false, true, true, true, false, true,
              true, false)), (String ((Ascii (false, false, true, false,
              false, true, true, false)), (String ((Ascii (true, false,
              false, true, false, true, true, false)), (String ((Ascii (true,
              true, false, false, false, true, true, false)), (String ((Ascii
              (true, false, true, false, false, true, true, false)), (String
              ((Ascii (true, true, false, false, true, true, true, false)),
              (String ((Ascii (true, true, false, true, true, false, true,
              false)), (String ((Ascii (true, false, false, true, false,
              true, true, false)), (String ((Ascii (false, false, true,
              false, false, true, true, false)), (String ((Ascii (false,
              false, false, true, true, true, true, false)), (String ((Ascii
              (true, false, true, true, true, false, true, false)), (String
              ((Ascii (true, false, true, true, true, false, true, false)),
              EmptyString))))))))))))))))))))))))))))))))))))))))))))))))))))))))))))))))))))
       else bind (subel t (N.add start i)) (fun x0 ->
              let (kind, idx) = x0 in
              if N.eqb kind N0 then Val None else walk_groups t idx rest)))

(** val get_sub_element_spec :
    tables -> etype -> n list -> ((n * n) * n) option res **)

let get_sub_element_spec t t0 ixs = match ixs with
| [] -> Val None
| _ :: _ -> bind (sub_slice t (snd t0)) (fun _ -> walk_groups t (snd t0) ixs)

(** val get_sub_element_multiplicity :
    tables -> etype -> n list -> n option res **)

let get_sub_element_multiplicity t t0 ixs =
  bind (get_sub_element_spec t t0 ixs) (fun r ->
    match r with
    | Some p ->
      let (p0, _) = p in
      let (n0, def) = p0 in
      (match n0 with
       | N0 -> bind (elem t def) (fun e -> Val (Some e.ed_mult))
       | Npos _ -> Val None)
    | None -> Val None)

(** val get_sub_element_container_mode :
    tables -> etype -> n list -> n res **)

let get_sub_element_container_mode t t0 ixs =
  if N.ltb (N.of_nat (length ixs)) (Npos (XO XH))
  then bind (dt t (snd t0)) (fun d -> Val d.dt_mode)
  else bind (get_sub_element_spec t t0 (removelast ixs)) (fun r ->
         match r with
         | Some p ->
           let (p0, _) = p in
           let (n0, gid) = p0 in
           (match n0 with
            | N0 ->
              Pan (String ((Ascii (true, false, true, false, true, true,
                true, false)), (String ((Ascii (false, true, true, true,
                false, true, true, false)), (String ((Ascii (false, true,
                false, false, true, true, true, false)), (String ((Ascii
                (true, false, true, false, false, true, true, false)),
                (String ((Ascii (true, false, false, false, false, true,
                true, false)), (String ((Ascii (true, true, false, false,
                false, true, true, false)), (String ((Ascii (false, false,
                false, true, false, true, true, false)), (String ((Ascii
                (true, false, false, false, false, true, true, false)),
                (String ((Ascii (false, true, false, false, false, true,
                true, false)), (String ((Ascii (false, false, true, true,
                false, true, true, false)), (String ((Ascii (true, false,
                true, false, false, true, true, false)), (String ((Ascii
                (false, true, false, true, true, true, false, false)),
                (String ((Ascii (false, false, false, false, false, true,
                false, false)), (String ((Ascii (true, false, true, false,
                false, true, true, false)), (String ((Ascii (false, false,
                true, true, false, true, true, false)), (String ((Ascii
                (true, false, true, false, false, true, true, false)),
                (String ((Ascii (true, false, true, true, false, true, true,
                false)), (String ((Ascii (true, false, true, false, false,
                true, true, false)), (String ((Ascii (false, true, true,
                true, false, true, true, false)), (String ((Ascii (false,
                false, true, false, true, true, true, false)), (String
                ((Ascii (false, false, false, false, false, true, false,
                false)), (String ((Ascii (true, true, false, false, false,
                true, true, false)), (String ((Ascii (true, true, true, true,
                false, true, true, false)), (String ((Ascii (false, true,
                true, true, false, true, true, false)), (String ((Ascii
                (false, false, true, false, true, true, true, false)),
                (String ((Ascii (true, false, false, false, false, true,
                true, false)), (String ((Ascii (true, false, false, true,
                false, true, true, false)), (String ((Ascii (false, true,
                true, true, false, true, true, false)), (String ((Ascii
                (true, false, true, false, false, true, true, false)),
                (String ((Ascii (false, true, false, false, true, true, true,
                false)), (String ((Ascii (false, false, false, false, false,
                true, false, false)), (String ((Ascii (true, false, false,
                true, false, true, true, false)), (String ((Ascii (true,
                true, false, false, true, true, true, false)), (String
                ((Ascii (false, false, false, false, false, true, false,
                false)), (String ((Ascii (false, true, true, true, false,
                true, true, false)), (String ((Ascii (true, true, true, true,
                false, true, true, false)), (String ((Ascii (false, false,
                true, false, true, true, true, false)), (String ((Ascii
                (false, false, false, false, false, true, false, false)),
                (String ((Ascii (true, false, false, false, false, true,
                true, false)), (String ((Ascii (false, false, false, false,
                false, true, false, false)), (String ((Ascii (true, true,
                true, false, false, true, true, false)), (String ((Ascii
                (false, true, false, false, true, true, true, false)),
                (String ((Ascii (true, true, true, true, false, true, true,
                false)), (String ((Ascii (true, false, true, false, true,
                true, true, false)), (String ((Ascii (false, false, false,
                false, true, true, true, false)),
                EmptyString))))))))))))))))))))))))))))))))))))))))))))))))))))))))))))))))))))))))))))))))))))))))))
            | Npos p1 ->
              (match p1 with
               | XH -> bind (dt t gid) (fun d -> Val d.dt_mode)
               | _ ->
                 Pan (String ((Ascii (true, false, true, false, true, true,
                   true, false)), (String ((Ascii (false, true, true, true,
                   false, true, true, false)), (String ((Ascii (false, true,
                   false, false, true, true, true, false)), (String ((Ascii
                   (true, false, true, false, false, true, true, false)),
                   (String ((Ascii (true, false, false, false, false, true,
                   true, false)), (String ((Ascii (true, true, false, false,
                   false, true, true, false)), (String ((Ascii (false, false,
                   false, true, false, true, true, false)), (String ((Ascii
                   (true, false, false, false, false, true, true, false)),
                   (String ((Ascii (false, true, false, false, false, true,
                   true, false)), (String ((Ascii (false, false, true, true,
                   false, true, true, false)), (String ((Ascii (true, false,
                   true, false, false, true, true, false)), (String ((Ascii
                   (false, true, false, true, true, true, false, false)),
                   (String ((Ascii (false, false, false, false, false, true,
                   false, false)), (String ((Ascii (true, false, true, false,
                   false, true, true, false)), (String ((Ascii (false, false,
                   true, true, false, true, true, false)), (String ((Ascii
                   (true, false, true, false, false, true, true, false)),
                   (String ((Ascii (true, false, true, true, false, true,
                   true, false)), (String ((Ascii (true, false, true, false,
                   false, true, true, false)), (String ((Ascii (false, true,
                   true, true, false, true, true, false)), (String ((Ascii
                   (false, false, true, false, true, true, true, false)),
                   (String ((Ascii (false, false, false, false, false, true,
                   false, false)), (String ((Ascii (true, true, false, false,
                   false, true, true, false)), (String ((Ascii (true, true,
                   true, true, false, true, true, false)), (String ((Ascii
                   (false, true, true, true, false, true, true, false)),
                   (String ((Ascii (false, false, true, false, true, true,
                   true, false)), (String ((Ascii (true, false, false, false,
                   false, true, true, false)), (String ((Ascii (true, false,
                   false, true, false, true, true, false)), (String ((Ascii
                   (false, true, true, true, false, true, true, false)),
                   (String ((Ascii (true, false, true, false, false, true,
                   true, false)), (String ((Ascii (false, true, false, false,
                   true, true, true, false)), (String ((Ascii (false, false,
                   false, false, false, true, false, false)), (String ((Ascii
                   (true, false, false, true, false, true, true, false)),
                   (String ((Ascii (true, true, false, false, true, true,
                   true, false)), (String ((Ascii (false, false, false,
                   false, false, true, false, false)), (String ((Ascii
                   (false, true, true, true, false, true, true, false)),
                   (String ((Ascii (true, true, true, true, false, true,
                   true, false)), (String ((Ascii (false, false, true, false,
                   true, true, true, false)), (String ((Ascii (false, false,
                   false, false, false, true, false, false)), (String ((Ascii
                   (true, false, false, false, false, true, true, false)),
                   (String ((Ascii (false, false, false, false, false, true,
                   false, false)), (String ((Ascii (true, true, true, false,
                   false, true, true, false)), (String ((Ascii (false, true,
                   false, false, true, true, true, false)), (String ((Ascii
                   (true, true, true, true, false, true, true, false)),
                   (String ((Ascii (true, false, true, false, true, true,
                   true, false)), (String ((Ascii (false, false, false,
                   false, true, true, true, false)),
                   EmptyString))))))))))))))))))))))))))))))))))))))))))))))))))))))))))))))))))))))))))))))))))))))))))))
         | None ->
           Pan (String ((Ascii (true, false, true, false, true, true, true,
             false)), (String ((Ascii (false, true, true, true, false, true,
             true, false)), (String ((Ascii (false, true, false, false, true,
             true, true, false)), (String ((Ascii (true, false, true, false,
             false, true, true, false)), (String ((Ascii (true, false, false,
             false, false, true, true, false)), (String ((Ascii (true, true,
             false, false, false, true, true, false)), (String ((Ascii
             (false, false, false, true, false, true, true, false)), (String
             ((Ascii (true, false, false, false, false, true, true, false)),
             (String ((Ascii (false, true, false, false, false, true, true,
             false)), (String ((Ascii (false, false, true, true, false, true,
             true, false)), (String ((Ascii (true, false, true, false, false,
             true, true, false)), (String ((Ascii (false, true, false, true,
             true, true, false, false)), (String ((Ascii (false, false,
             false, false, false, true, false, false)), (String ((Ascii
             (true, false, true, false, false, true, true, false)), (String
             ((Ascii (false, false, true, true, false, true, true, false)),
             (String ((Ascii (true, false, true, false, false, true, true,
             false)), (String ((Ascii (true, false, true, true, false, true,
             true, false)), (String ((Ascii (true, false, true, false, false,
             true, true, false)), (String ((Ascii (false, true, true, true,
             false, true, true, false)), (String ((Ascii (false, false, true,
             false, true, true, true, false)), (String ((Ascii (false, false,
             false, false, false, true, false, false)), (String ((Ascii
             (true, true, false, false, false, true, true, false)), (String
             ((Ascii (true, true, true, true, false, true, true, false)),
             (String ((Ascii (false, true, true, true, false, true, true,
             false)), (String ((Ascii (false, false, true, false, true, true,
             true, false)), (String ((Ascii (true, false, false, false,
             false, true, true, false)), (String ((Ascii (true, false, false,
             true, false, true, true, false)), (String ((Ascii (false, true,
             true, true, false, true, true, false)), (String ((Ascii (true,
             false, true, false, false, true, true, false)), (String ((Ascii
             (false, true, false, false, true, true, true, false)), (String
             ((Ascii (false, false, false, false, false, true, false,
             false)), (String ((Ascii (true, false, false, true, false, true,
             true, false)), (String ((Ascii (true, true, false, false, true,
             true, true, false)), (String ((Ascii (false, false, false,
             false, false, true, false, false)), (String ((Ascii (false,
             true, true, true, false, true, true, false)), (String ((Ascii
             (true, true, true, true, false, true, true, false)), (String
             ((Ascii (false, false, true, false, true, true, true, false)),
             (String ((Ascii (false, false, false, false, false, true, false,
             false)), (String ((Ascii (true, false, false, false, false,
             true, true, false)), (String ((Ascii (false, false, false,
             false, false, true, false, false)), (String ((Ascii (true, true,
             true, false, false, true, true, false)), (String ((Ascii (false,
             true, false, false, true, true, true, false)), (String ((Ascii
             (true, true, true, true, false, true, true, false)), (String
             ((Ascii (true, false, true, false, true, true, true, false)),
             (String ((Ascii (false, false, false, false, true, true, true,
             false)),
             EmptyString)))))))))))))))))))))))))))))))))))))))))))))))))))))))))))))))))))))))))))))))))))))))))))

(** val common_group : tables -> n -> n list -> n list -> n res **)

let rec common_group t result a b =
  match a with
  | [] -> Val result
  | x :: a' ->
    (match b with
     | [] -> Val result
     | y :: b' ->
       if N.eqb x y
       then bind (sub_slice t result) (fun x0 ->
              let (p, _) = x0 in
              let (start, stop) = p in
              if N.leb (N.sub stop start) x
              then Pan (String ((Ascii (true, true, true, false, false, true,
                     true, false)), (String ((Ascii (true, false, true,
                     false, false, true, true, false)), (String ((Ascii
                     (false, false, true, false, true, true, true, false)),
                     (String ((Ascii (true, true, true, true, true, false,
                     true, false)), (String ((Ascii (true, true, false,
                     false, true, true, true, false)), (String ((Ascii (true,
                     false, true, false, true, true, true, false)), (String
                     ((Ascii (false, true, false, false, false, true, true,
                     false)), (String ((Ascii (true, true, true, true, true,
                     false, true, false)), (String ((Ascii (true, false,
                     true, false, false, true, true, false)), (String ((Ascii
                     (false, false, true, true, false, true, true, false)),
                     (String ((Ascii (true, false, true, false, false, true,
                     true, false)), (String ((Ascii (true, false, true, true,
                     false, true, true, false)), (String ((Ascii (true,
                     false, true, false, false, true, true, false)), (String
                     ((Ascii (false, true, true, true, false, true, true,
                     false)), (String ((Ascii (false, false, true, false,
                     true, true, true, false)), (String ((Ascii (true, true,
                     false, false, true, true, true, false)), (String ((Ascii
                     (false, false, false, true, false, true, false, false)),
                     (String ((Ascii (false, true, false, false, true, true,
                     true, false)), (String ((Ascii (true, false, true,
                     false, false, true, true, false)), (String ((Ascii
                     (true, true, false, false, true, true, true, false)),
                     (String ((Ascii (true, false, true, false, true, true,
                     true, false)), (String ((Ascii (false, false, true,
                     true, false, true, true, false)), (String ((Ascii
                     (false, false, true, false, true, true, true, false)),
                     (String ((Ascii (true, false, false, true, false, true,
                     false, false)), (String ((Ascii (true, true, false,
                     true, true, false, true, false)), (String ((Ascii (true,
                     false, false, true, false, true, true, false)), (String
                     ((Ascii (true, false, true, true, true, false, true,
                     false)),
                     EmptyString))))))))))))))))))))))))))))))))))))))))))))))))))))))
              else bind (subel t (N.add start x)) (fun x1 ->
                     let (kind, idx) = x1 in
                     if N.eqb kind N0
                     then Val result
                     else common_group t idx a' b'))
       else Val result)

(** val find_common_group : tables -> etype -> n list -> n list -> n res **)

let find_common_group t t0 a b =
  common_group t (snd t0) a b

(** val content_mode : tables -> etype -> n res **)

let content_mode t t0 =
  bind (dt t (snd t0)) (fun d -> Val d.dt_mode)

(** val chardata_spec : tables -> etype -> cdspec option res **)

let chardata_spec t t0 =
  bind (dt t (snd t0)) (fun d ->
    if N.eqb d.dt_cdata N0
    then Val None
    else bind
           (unwrap (String ((Ascii (true, true, false, false, false, false,
             true, false)), (String ((Ascii (false, false, false, true,
             false, false, true, false)), (String ((Ascii (true, false,
             false, false, false, false, true, false)), (String ((Ascii
             (false, true, false, false, true, false, true, false)), (String
             ((Ascii (true, false, false, false, false, false, true, false)),
             (String ((Ascii (true, true, false, false, false, false, true,
             false)), (String ((Ascii (false, false, true, false, true,
             false, true, false)), (String ((Ascii (true, false, true, false,
             false, false, true, false)), (String ((Ascii (false, true,
             false, false, true, false, true, false)), (String ((Ascii (true,
             true, true, true, true, false, true, false)), (String ((Ascii
             (false, false, true, false, false, false, true, false)), (String
             ((Ascii (true, false, false, false, false, false, true, false)),
             (String ((Ascii (false, false, true, false, true, false, true,
             false)), (String ((Ascii (true, false, false, false, false,
             false, true, false)), (String ((Ascii (true, true, false, true,
             true, false, true, false)), (String ((Ascii (true, false, false,
             true, false, true, true, false)), (String ((Ascii (true, false,
             true, true, true, false, true, false)),
             EmptyString))))))))))))))))))))))))))))))))))
             (t.t_cdata (N.sub d.dt_cdata (Npos XH)))) (fun c -> Val (Some c)))

type id = n

type cdata =
| DEnum of n
| DString of n list
| DUInt of n
| DFloat of n

type pref =
| PNone
| PModel of n
| PElem of id

type citem =
| CElem of id
| CData of cdata

type node = { n_parent : pref; n_name : n; n_type : (n * n);
              n_content : citem list; n_attrs : (n * cdata) list;
              n_files : n list; n_comment : n list option }

type file = { f_model : n; f_name : n list; f_version : n;
              f_standalone : bool option }

type model = { m_root : id; m_files : n list; m_idents : (n list * id) list;
               m_origins : (n list * id list) list }

type world = { w_nodes : (id -> node option); w_next : id;
               w_files : file list; w_models : model list }

type err =
| ItemDeleted
| ParentElementLocked
| ElementNotIdentifiable
| ItemNameRequired
| IncorrectContentType
| ElementInsertionConflict
| InvalidSubElement
| ElementNotFound
| ShortNameRemovalForbidden
| NotReferenceElement
| InvalidReference
| DuplicateItemName
| ForbiddenMoveToSubElement
| ForbiddenCopyOfParent
| InvalidPosition
| VersionMismatch
| VersionIncompatibleData
| InvalidAttribute
| InvalidAttributeValue
| NoFilesInModel
| InvalidFile
| FilesetModificationForbidden
| DuplicateFilenameError
| EmptyFile
| InvalidFileMerge
| OverlappingDataError
| LoadError

type 'a out =
| OK of 'a
| ER of err

type 'a w = world -> ('a out * world) res

(** val wret : 'a1 -> 'a1 w **)

let wret a w0 =
  Val ((OK a), w0)

(** val wfail : err -> 'a1 w **)

let wfail e w0 =
  Val ((ER e), w0)

(** val wpanic : string -> 'a1 w **)

let wpanic s _ =
  Pan s

(** val wfuel : 'a1 w **)

let wfuel _ =
  Fuel

(** val wbind : 'a1 w -> ('a1 -> 'a2 w) -> 'a2 w **)

let wbind m f w0 =
  match m w0 with
  | Val a0 ->
    let (o, w') = a0 in
    (match o with
     | OK a -> f a w'
     | ER e -> Val ((ER e), w'))
  | Pan s -> Pan s
  | Fuel -> Fuel

(** val wtry : 'a1 w -> 'a1 option w **)

let wtry m w0 =
  match m w0 with
  | Val a0 ->
    let (o, w') = a0 in
    (match o with
     | OK a -> Val ((OK (Some a)), w')
     | ER _ -> Val ((OK None), w'))
  | Pan s -> Pan s
  | Fuel -> Fuel

(** val wcatch : 'a1 w -> 'a1 out w **)

let wcatch m w0 =
  match m w0 with
  | Val a -> let (r, w') = a in Val ((OK r), w')
  | Pan s -> Pan s
  | Fuel -> Fuel

(** val wget : world w **)

let wget w0 =
  Val ((OK w0), w0)

(** val wlift : 'a1 res -> 'a1 w **)

let wlift r w0 =
  match r with
  | Val a -> Val ((OK a), w0)
  | Pan s -> Pan s
  | Fuel -> Fuel

(** val upd : (id -> node option) -> id -> node -> id -> node option **)

let upd f i n0 x =
  if N.eqb x i then Some n0 else f x

(** val get_node : id -> node w **)

let get_node i w0 =
  match w0.w_nodes i with
  | Some n0 -> Val ((OK n0), w0)
  | None ->
    Pan (String ((Ascii (false, false, true, false, false, true, true,
      false)), (String ((Ascii (true, false, false, false, false, true, true,
      false)), (String ((Ascii (false, true, true, true, false, true, true,
      false)), (String ((Ascii (true, true, true, false, false, true, true,
      false)), (String ((Ascii (false, false, true, true, false, true, true,
      false)), (String ((Ascii (true, false, false, true, false, true, true,
      false)), (String ((Ascii (false, true, true, true, false, true, true,
      false)), (String ((Ascii (true, true, true, false, false, true, true,
      false)), (String ((Ascii (false, false, false, false, false, true,
      false, false)), (String ((Ascii (false, true, true, true, false, true,
      true, false)), (String ((Ascii (true, true, true, true, false, true,
      true, false)), (String ((Ascii (false, false, true, false, false, true,
      true, false)), (String ((Ascii (true, false, true, false, false, true,
      true, false)), (String ((Ascii (false, false, false, false, false,
      true, false, false)), (String ((Ascii (true, false, false, true, false,
      true, true, false)), (String ((Ascii (false, false, true, false, false,
      true, true, false)), EmptyString))))))))))))))))))))))))))))))))

(** val set_node : id -> node -> unit w **)

let set_node i n0 w0 =
  Val ((OK ()), { w_nodes = (upd w0.w_nodes i n0); w_next = w0.w_next;
    w_files = w0.w_files; w_models = w0.w_models })

(** val alloc : node -> id w **)

let alloc n0 w0 =
  Val ((OK w0.w_next), { w_nodes = (upd w0.w_nodes w0.w_next n0); w_next =
    (N.add w0.w_next (Npos XH)); w_files = w0.w_files; w_models =
    w0.w_models })

(** val set_content : node -> citem list -> node **)

let set_content n0 c =
  { n_parent = n0.n_parent; n_name = n0.n_name; n_type = n0.n_type;
    n_content = c; n_attrs = n0.n_attrs; n_files = n0.n_files; n_comment =
    n0.n_comment }

(** val get_model : n -> model w **)

let get_model m w0 =
  match nth_opt w0.w_models (N.to_nat m) with
  | Some x -> Val ((OK x), w0)
  | None ->
    Pan (String ((Ascii (false, false, true, false, false, true, true,
      false)), (String ((Ascii (true, false, false, false, false, true, true,
      false)), (String ((Ascii (false, true, true, true, false, true, true,
      false)), (String ((Ascii (true, true, true, false, false, true, true,
      false)), (String ((Ascii (false, false, true, true, false, true, true,
      false)), (String ((Ascii (true, false, false, true, false, true, true,
      false)), (String ((Ascii (false, true, true, true, false, true, true,
      false)), (String ((Ascii (true, true, true, false, false, true, true,
      false)), (String ((Ascii (false, false, false, false, false, true,
      false, false)), (String ((Ascii (true, false, true, true, false, true,
      true, false)), (String ((Ascii (true, true, true, true, false, true,
      true, false)), (String ((Ascii (false, false, true, false, false, true,
      true, false)), (String ((Ascii (true, false, true, false, false, true,
      true, false)), (String ((Ascii (false, false, true, true, false, true,
      true, false)), (String ((Ascii (false, false, false, false, false,
      true, false, false)), (String ((Ascii (true, false, false, true, false,
      true, true, false)), (String ((Ascii (false, false, true, false, false,
      true, true, false)), EmptyString))))))))))))))))))))))))))))))))))

(** val list_set : 'a1 list -> nat -> 'a1 -> 'a1 list **)

let rec list_set l k x =
  match l with
  | [] -> []
  | y :: l' -> (match k with
                | O -> x :: l'
                | S k' -> y :: (list_set l' k' x))

(** val set_model : n -> model -> unit w **)

let set_model m x w0 =
  Val ((OK ()), { w_nodes = w0.w_nodes; w_next = w0.w_next; w_files =
    w0.w_files; w_models = (list_set w0.w_models (N.to_nat m) x) })

(** val modify_model : n -> (model -> model) -> unit w **)

let modify_model m f =
  wbind (get_model m) (fun x -> set_model m (f x))

(** val set_idents : model -> (n list * id) list -> model **)

let set_idents m i =
  { m_root = m.m_root; m_files = m.m_files; m_idents = i; m_origins =
    m.m_origins }

(** val insert_at : 'a1 list -> nat -> 'a1 -> 'a1 list **)

let rec insert_at l k x =
  match k with
  | O -> x :: l
  | S k' -> (match l with
             | [] -> x :: []
             | y :: l' -> y :: (insert_at l' k' x))

(** val is_empty : 'a1 list -> bool **)

let is_empty = function
| [] -> true
| _ :: _ -> false

(** val assoc_get : n list -> (n list * 'a1) list -> 'a1 option **)

let rec assoc_get k = function
| [] -> None
| p :: l' ->
  let (k', a) = p in if bytes_eqb k' k then Some a else assoc_get k l'

(** val assoc_insert :
    n list -> 'a1 -> (n list * 'a1) list -> (n list * 'a1) list **)

let rec assoc_insert k a = function
| [] -> (k, a) :: []
| p :: l' ->
  let (k', a') = p in
  if bytes_eqb k' k then (k', a) :: l' else (k', a') :: (assoc_insert k a l')

(** val sHORT : tables -> n **)

let sHORT t =
  t.name_short_name

(** val wl : 'a1 res -> 'a1 w **)

let wl =
  wlift

(** val fuel_of : world -> nat **)

let fuel_of w0 =
  S (N.to_nat w0.w_next)

(** val opt_le : n option -> nat -> bool **)

let opt_le maxlen len =
  match maxlen with
  | Some m -> N.leb (N.of_nat len) m
  | None -> true

(** val check_value :
    (n -> n list -> bool res) -> cdata -> cdspec -> n -> bool res **)

let check_value check_fn v spec version =
  match spec with
  | CEnum items ->
    (match v with
     | DEnum e ->
       Val
         (match find (fun it -> N.eqb (fst it) e) items with
          | Some p ->
            let (_, mask0) = p in negb (N.eqb (N.coq_land mask0 version) N0)
          | None -> false)
     | _ -> Val false)
  | CPattern (fn, maxlen) ->
    (match v with
     | DString s ->
       if opt_le maxlen (length s) then check_fn fn s else Val false
     | _ -> Val false)
  | CString (_, maxlen) ->
    (match v with
     | DString s -> Val (opt_le maxlen (length s))
     | _ -> Val false)
  | CUInt -> (match v with
              | DUInt _ -> Val true
              | _ -> Val false)
  | CFloat -> (match v with
               | DFloat _ -> Val true
               | _ -> Val false)

(** val character_data : tables -> node -> cdata option res **)

let character_data t n0 =
  match n0.n_content with
  | [] -> Val None
  | c :: l ->
    (match c with
     | CElem _ -> Val None
     | CData d ->
       (match l with
        | [] ->
          bind (content_mode t n0.n_type) (fun mode -> Val
            (if (||) (N.eqb mode mCharacters) (N.eqb mode mMixed)
             then Some d
             else None))
        | _ :: _ -> Val None))

(** val item_name : tables -> node -> n list option w **)

let item_name t n0 =
  wbind (wl (is_named t n0.n_type)) (fun named ->
    if negb named
    then wret None
    else (match n0.n_content with
          | [] -> wret None
          | c :: _ ->
            (match c with
             | CElem s ->
               wbind (get_node s) (fun sn ->
                 if N.eqb sn.n_name (sHORT t)
                 then wbind (wl (character_data t sn)) (fun cd ->
                        wret
                          (match cd with
                           | Some c0 ->
                             (match c0 with
                              | DString nm -> Some nm
                              | _ -> None)
                           | None -> None))
                 else wret None)
             | CData _ -> wret None)))

(** val parent_of : node -> id option w **)

let parent_of n0 =
  match n0.n_parent with
  | PNone -> wfail ItemDeleted
  | PModel _ -> wret None
  | PElem p -> wret (Some p)

(** val up_names : tables -> nat -> pref -> n list list -> n list list w **)

let rec up_names t fuel p acc =
  match fuel with
  | O -> wfuel
  | S f ->
    (match p with
     | PNone -> wfail ItemDeleted
     | PModel _ -> wret acc
     | PElem i ->
       wbind (get_node i) (fun n0 ->
         wbind (item_name t n0) (fun nm ->
           up_names t f n0.n_parent
             (match nm with
              | Some x -> x :: acc
              | None -> acc))))

(** val join_path : n list list -> n list **)

let join_path names =
  concat (map (fun nm -> (Npos (XI (XI (XI (XI (XO XH)))))) :: nm) names)

(** val path_unchecked : tables -> node -> n list w **)

let path_unchecked t n0 =
  wbind (item_name t n0) (fun own ->
    wbind wget (fun w0 ->
      wbind
        (up_names t (fuel_of w0) n0.n_parent
          (match own with
           | Some x -> x :: []
           | None -> [])) (fun names -> wret (join_path names))))

(** val model_walk : nat -> id -> n w **)

let rec model_walk fuel i =
  match fuel with
  | O -> wfuel
  | S f ->
    wbind (get_node i) (fun n0 ->
      match n0.n_parent with
      | PNone -> wfail ItemDeleted
      | PModel m -> wret m
      | PElem p -> model_walk f p)

(** val model_of : id -> n w **)

let model_of i =
  wbind wget (fun w0 -> model_walk (fuel_of w0) i)

(** val fm_walk : nat -> id -> id -> (bool * n list) w **)

let rec fm_walk fuel self cur =
  match fuel with
  | O -> wfuel
  | S f ->
    wbind (get_node cur) (fun n0 ->
      if negb (is_empty n0.n_files)
      then wret ((N.eqb cur self), n0.n_files)
      else wbind (parent_of n0) (fun p ->
             match p with
             | Some pi -> fm_walk f self pi
             | None -> wfail NoFilesInModel))

(** val file_membership : id -> (bool * n list) w **)

let file_membership i =
  wbind wget (fun w0 -> fm_walk (fuel_of w0) i i)

(** val min_version : n -> id -> n w **)

let min_version lATEST i =
  wbind (file_membership i) (fun x ->
    let (_, files) = x in
    wbind wget (fun w0 ->
      wret
        (fold_left (fun ver f ->
          match nth_opt w0.w_files (N.to_nat f) with
          | Some x0 -> if N.ltb x0.f_version ver then x0.f_version else ver
          | None -> ver) files lATEST)))

(** val get_element_by_path : n -> n list -> id option w **)

let get_element_by_path m path =
  wbind (get_model m) (fun x -> wret (assoc_get path x.m_idents))

(** val add_identifiable : n -> n list -> id -> unit w **)

let add_identifiable m path e =
  modify_model m (fun x -> set_idents x (assoc_insert path e x.m_idents))

(** val lex_cmp : n list -> n list -> comparison **)

let rec lex_cmp a b =
  match a with
  | [] -> (match b with
           | [] -> Eq
           | _ :: _ -> Lt)
  | x :: a' ->
    (match b with
     | [] -> Gt
     | y :: b' -> (match N.compare x y with
                   | Eq -> lex_cmp a' b'
                   | x0 -> x0))

(** val list_eqbN : n list -> n list -> bool **)

let rec list_eqbN a b =
  match a with
  | [] -> (match b with
           | [] -> true
           | _ :: _ -> false)
  | x :: a' ->
    (match b with
     | [] -> false
     | y :: b' -> (&&) (N.eqb x y) (list_eqbN a' b'))

(** val repeat_conflict : tables -> (n * n) -> n list -> bool res **)

let repeat_conflict t ty idx =
  bind (get_sub_element_multiplicity t ty idx) (fun m -> Val
    (match m with
     | Some mu -> negb (N.eqb mu (Npos (XO XH)))
     | None -> false))

(** val range_loop :
    tables -> (n * n) -> n -> n list -> citem list -> n -> n -> n -> (n * n) w **)

let rec range_loop t ty version new_idx items idx start_pos end_pos =
  match items with
  | [] -> wret (start_pos, end_pos)
  | c0 :: rest ->
    (match c0 with
     | CElem c ->
       wbind (get_node c) (fun cn ->
         wbind (wl (find_sub_element t ty cn.n_name version)) (fun ex0 ->
           wbind
             (match ex0 with
              | Some x -> wret (Some x)
              | None ->
                wl
                  (find_sub_element t ty cn.n_name (Npos (XI (XI (XI (XI (XI
                    (XI (XI (XI (XI (XI (XI (XI (XI (XI (XI (XI (XI (XI (XI
                    (XI (XI (XI (XI (XI (XI (XI (XI (XI (XI (XI (XI
                    XH)))))))))))))))))))))))))))))))))) (fun ex ->
             match ex with
             | Some p ->
               let (_, ex_idx) = p in
               wbind (wl (find_common_group t ty new_idx ex_idx)) (fun g ->
                 wbind (wl (dt t g)) (fun gd ->
                   let mode = gd.dt_mode in
                   if N.eqb mode mSequence
                   then (match lex_cmp new_idx ex_idx with
                         | Eq ->
                           wbind (wl (repeat_conflict t ty new_idx))
                             (fun c1 ->
                             if c1
                             then wfail ElementInsertionConflict
                             else range_loop t ty version new_idx rest
                                    (N.add idx (Npos XH)) start_pos
                                    (N.add idx (Npos XH)))
                         | Lt -> wret (start_pos, end_pos)
                         | Gt ->
                           range_loop t ty version new_idx rest
                             (N.add idx (Npos XH)) (N.add idx (Npos XH))
                             (N.add idx (Npos XH)))
                   else if N.eqb mode mChoice
                        then if list_eqbN new_idx ex_idx
                             then wbind (wl (repeat_conflict t ty new_idx))
                                    (fun c1 ->
                                    if c1
                                    then wfail ElementInsertionConflict
                                    else range_loop t ty version new_idx rest
                                           (N.add idx (Npos XH)) start_pos
                                           (N.add idx (Npos XH)))
                             else wfail ElementInsertionConflict
                        else if (||) (N.eqb mode mBag) (N.eqb mode mMixed)
                             then range_loop t ty version new_idx rest
                                    (N.add idx (Npos XH)) start_pos
                                    (N.add idx (Npos XH))
                             else wpanic (String ((Ascii (true, false, true,
                                    false, false, true, true, false)),
                                    (String ((Ascii (false, false, true,
                                    true, false, true, true, false)), (String
                                    ((Ascii (true, false, true, false, false,
                                    true, true, false)), (String ((Ascii
                                    (true, false, true, true, false, true,
                                    true, false)), (String ((Ascii (true,
                                    false, true, false, false, true, true,
                                    false)), (String ((Ascii (false, true,
                                    true, true, false, true, true, false)),
                                    (String ((Ascii (false, false, true,
                                    false, true, true, true, false)), (String
                                    ((Ascii (false, true, false, false, true,
                                    true, true, false)), (String ((Ascii
                                    (true, false, false, false, false, true,
                                    true, false)), (String ((Ascii (true,
                                    true, true, false, true, true, true,
                                    false)), (String ((Ascii (false, true,
                                    true, true, false, true, false, false)),
                                    (String ((Ascii (false, true, false,
                                    false, true, true, true, false)), (String
                                    ((Ascii (true, true, false, false, true,
                                    true, true, false)), (String ((Ascii
                                    (false, false, false, false, false, true,
                                    false, false)), (String ((Ascii (true,
                                    true, false, false, false, true, true,
                                    false)), (String ((Ascii (true, false,
                                    false, false, false, true, true, false)),
                                    (String ((Ascii (false, false, true,
                                    true, false, true, true, false)), (String
                                    ((Ascii (true, true, false, false, false,
                                    true, true, false)), (String ((Ascii
                                    (true, true, true, true, true, false,
                                    true, false)), (String ((Ascii (true,
                                    false, true, false, false, true, true,
                                    false)), (String ((Ascii (false, false,
                                    true, true, false, true, true, false)),
                                    (String ((Ascii (true, false, true,
                                    false, false, true, true, false)),
                                    (String ((Ascii (true, false, true, true,
                                    false, true, true, false)), (String
                                    ((Ascii (true, false, true, false, false,
                                    true, true, false)), (String ((Ascii
                                    (false, true, true, true, false, true,
                                    true, false)), (String ((Ascii (false,
                                    false, true, false, true, true, true,
                                    false)), (String ((Ascii (true, true,
                                    true, true, true, false, true, false)),
                                    (String ((Ascii (true, false, false,
                                    true, false, true, true, false)), (String
                                    ((Ascii (false, true, true, true, false,
                                    true, true, false)), (String ((Ascii
                                    (true, true, false, false, true, true,
                                    true, false)), (String ((Ascii (true,
                                    false, true, false, false, true, true,
                                    false)), (String ((Ascii (false, true,
                                    false, false, true, true, true, false)),
                                    (String ((Ascii (false, false, true,
                                    false, true, true, true, false)), (String
                                    ((Ascii (true, true, true, true, true,
                                    false, true, false)), (String ((Ascii
                                    (false, true, false, false, true, true,
                                    true, false)), (String ((Ascii (true,
                                    false, false, false, false, true, true,
                                    false)), (String ((Ascii (false, true,
                                    true, true, false, true, true, false)),
                                    (String ((Ascii (true, true, true, false,
                                    false, true, true, false)), (String
                                    ((Ascii (true, false, true, false, false,
                                    true, true, false)), (String ((Ascii
                                    (false, true, false, true, true, true,
                                    false, false)), (String ((Ascii (false,
                                    false, false, false, false, true, false,
                                    false)), (String ((Ascii (true, false,
                                    true, false, true, true, true, false)),
                                    (String ((Ascii (false, true, true, true,
                                    false, true, true, false)), (String
                                    ((Ascii (false, true, false, false, true,
                                    true, true, false)), (String ((Ascii
                                    (true, false, true, false, false, true,
                                    true, false)), (String ((Ascii (true,
                                    false, false, false, false, true, true,
                                    false)), (String ((Ascii (true, true,
                                    false, false, false, true, true, false)),
                                    (String ((Ascii (false, false, false,
                                    true, false, true, true, false)), (String
                                    ((Ascii (true, false, false, false,
                                    false, true, true, false)), (String
                                    ((Ascii (false, true, false, false,
                                    false, true, true, false)), (String
                                    ((Ascii (false, false, true, true, false,
                                    true, true, false)), (String ((Ascii
                                    (true, false, true, false, false, true,
                                    true, false)), (String ((Ascii (true,
                                    false, false, false, false, true, false,
                                    false)), (String ((Ascii (false, false,
                                    false, true, false, true, false, false)),
                                    (String ((Ascii (true, false, false,
                                    true, false, true, false, false)),
                                    EmptyString))))))))))))))))))))))))))))))))))))))))))))))))))))))))))))))))))))))))))))))))))))))))))))))))))))))))))))))))
             | None ->
               range_loop t ty version new_idx rest (N.add idx (Npos XH))
                 start_pos end_pos)))
     | CData _ ->
       range_loop t ty version new_idx rest (N.add idx (Npos XH)) start_pos
         (N.add idx (Npos XH)))

(** val calc_element_insert_range : tables -> node -> n -> n -> (n * n) w **)

let calc_element_insert_range t n0 name version =
  wbind (wl (content_mode t n0.n_type)) (fun mode ->
    if N.eqb mode mCharacters
    then wfail IncorrectContentType
    else wbind (wl (find_sub_element t n0.n_type name version)) (fun f ->
           match f with
           | Some p ->
             let (_, new_idx) = p in
             if (||) (N.eqb mode mBag) (N.eqb mode mMixed)
             then wret (N0, (N.of_nat (length n0.n_content)))
             else range_loop t n0.n_type version new_idx n0.n_content N0 N0 N0
           | None -> wfail InvalidSubElement))

(** val content_insert : id -> n -> citem -> unit w **)

let content_insert self pos it =
  wbind (get_node self) (fun n0 ->
    if N.ltb (N.of_nat (length n0.n_content)) pos
    then wpanic (String ((Ascii (false, true, true, false, true, false, true,
           false)), (String ((Ascii (true, false, true, false, false, true,
           true, false)), (String ((Ascii (true, true, false, false, false,
           true, true, false)), (String ((Ascii (false, true, false, true,
           true, true, false, false)), (String ((Ascii (false, true, false,
           true, true, true, false, false)), (String ((Ascii (true, false,
           false, true, false, true, true, false)), (String ((Ascii (false,
           true, true, true, false, true, true, false)), (String ((Ascii
           (true, true, false, false, true, true, true, false)), (String
           ((Ascii (true, false, true, false, false, true, true, false)),
           (String ((Ascii (false, true, false, false, true, true, true,
           false)), (String ((Ascii (false, false, true, false, true, true,
           true, false)), (String ((Ascii (false, true, false, true, true,
           true, false, false)), (String ((Ascii (false, false, false, false,
           false, true, false, false)), (String ((Ascii (true, false, false,
           true, false, true, true, false)), (String ((Ascii (false, true,
           true, true, false, true, true, false)), (String ((Ascii (false,
           false, true, false, false, true, true, false)), (String ((Ascii
           (true, false, true, false, false, true, true, false)), (String
           ((Ascii (false, false, false, true, true, true, true, false)),
           (String ((Ascii (false, false, false, false, false, true, false,
           false)), (String ((Ascii (false, true, true, true, true, true,
           false, false)), (String ((Ascii (false, false, false, false,
           false, true, false, false)), (String ((Ascii (false, false, true,
           true, false, true, true, false)), (String ((Ascii (true, false,
           true, false, false, true, true, false)), (String ((Ascii (false,
           true, true, true, false, true, true, false)),
           EmptyString))))))))))))))))))))))))))))))))))))))))))))))))
    else set_node self
           (set_content n0 (insert_at n0.n_content (N.to_nat pos) it)))

(** val new_node : pref -> n -> (n * n) -> node **)

let new_node parent name ty =
  { n_parent = parent; n_name = name; n_type = ty; n_content = []; n_attrs =
    []; n_files = []; n_comment = None }

(** val create_sub_element_inner : tables -> id -> n -> n -> n -> id w **)

let create_sub_element_inner t self name pos version =
  wbind (get_node self) (fun n0 ->
    wbind (wl (find_sub_element t n0.n_type name version)) (fun f ->
      match f with
      | Some p ->
        let (et, _) = p in
        wbind (wl (is_named_in_version t et version)) (fun nv ->
          if nv
          then wfail ItemNameRequired
          else wbind (alloc (new_node (PElem self) name et)) (fun c ->
                 wbind (content_insert self pos (CElem c)) (fun _ -> wret c)))
      | None -> wfail InvalidSubElement))

(** val raw_create_sub_element : tables -> id -> n -> n -> id w **)

let raw_create_sub_element t self name version =
  wbind (get_node self) (fun n0 ->
    wbind (calc_element_insert_range t n0 name version) (fun x ->
      let (_, e) = x in create_sub_element_inner t self name e version))

(** val raw_create_sub_element_at : tables -> id -> n -> n -> n -> id w **)

let raw_create_sub_element_at t self name pos version =
  wbind (get_node self) (fun n0 ->
    wbind (calc_element_insert_range t n0 name version) (fun x ->
      let (s, e) = x in
      if (&&) (N.leb s pos) (N.leb pos e)
      then create_sub_element_inner t self name pos version
      else wfail InvalidPosition))

(** val raw_set_character_data :
    tables -> (n -> n list -> bool res) -> id -> cdata -> n -> unit w **)

let raw_set_character_data t check_fn i v version =
  wbind (get_node i) (fun n0 ->
    wbind (wl (content_mode t n0.n_type)) (fun mode ->
      if (||) (N.eqb mode mCharacters)
           ((&&) (N.eqb mode mMixed) (leb (length n0.n_content) (S O)))
      then wbind (wl (chardata_spec t n0.n_type)) (fun spec ->
             match spec with
             | Some cs ->
               wbind (wl (check_value check_fn v cs version)) (fun ok ->
                 if ok
                 then set_node i
                        (set_content n0
                          (match n0.n_content with
                           | [] -> (CData v) :: []
                           | _ :: r -> (CData v) :: r))
                 else wfail IncorrectContentType)
             | None -> wfail IncorrectContentType)
      else wfail IncorrectContentType))

(** val create_named_sub_element_inner :
    tables -> (n -> n list -> bool res) -> id -> n -> n list -> n -> n -> n
    -> id w **)

let create_named_sub_element_inner t check_fn self name item pos m version =
  if is_empty item
  then wfail ItemNameRequired
  else wbind (get_node self) (fun n0 ->
         wbind (wl (find_sub_element t n0.n_type name version)) (fun f ->
           match f with
           | Some p ->
             let (et, _) = p in
             wbind (wl (is_named_in_version t et version)) (fun nv ->
               if negb nv
               then wfail ElementNotIdentifiable
               else wbind (wl (find_sub_element t et (sHORT t) version))
                      (fun sn ->
                      wbind
                        (match sn with
                         | Some p0 ->
                           let (se_type, _) = p0 in
                           wbind (wl (chardata_spec t se_type)) (fun cs ->
                             match cs with
                             | Some spec ->
                               wl
                                 (check_value check_fn (DString item) spec
                                   version)
                             | None -> wret false)
                         | None -> wret false) (fun valid ->
                        if negb valid
                        then wfail IncorrectContentType
                        else wbind (path_unchecked t n0) (fun parent_path ->
                               let path =
                                 app parent_path
                                   (app ((Npos (XI (XI (XI (XI (XO
                                     XH)))))) :: []) item)
                               in
                               wbind (get_element_by_path m path) (fun ex ->
                                 match ex with
                                 | Some _ -> wfail DuplicateItemName
                                 | None ->
                                   wbind
                                     (alloc (new_node (PElem self) name et))
                                     (fun c ->
                                     wbind
                                       (content_insert self pos (CElem c))
                                       (fun _ ->
                                       wbind
                                         (raw_create_sub_element t c
                                           (sHORT t) version) (fun s ->
                                         wbind
                                           (wtry
                                             (raw_set_character_data t
                                               check_fn s (DString item)
                                               version)) (fun _ ->
                                           wbind (add_identifiable m path c)
                                             (fun _ -> wret c))))))))))
           | None -> wfail InvalidSubElement))

(** val raw_create_named_sub_element :
    tables -> (n -> n list -> bool res) -> id -> n -> n list -> n -> n -> id w **)

let raw_create_named_sub_element t check_fn self name item m version =
  wbind (get_node self) (fun n0 ->
    wbind (calc_element_insert_range t n0 name version) (fun x ->
      let (_, e) = x in
      create_named_sub_element_inner t check_fn self name item e m version))

(** val raw_create_named_sub_element_at :
    tables -> (n -> n list -> bool res) -> id -> n -> n list -> n -> n -> n
    -> id w **)

let raw_create_named_sub_element_at t check_fn self name item pos m version =
  wbind (get_node self) (fun n0 ->
    wbind (calc_element_insert_range t n0 name version) (fun x ->
      let (s, e) = x in
      if (&&) (N.leb s pos) (N.leb pos e)
      then create_named_sub_element_inner t check_fn self name item pos m
             version
      else wfail InvalidPosition))

(** val e_create_sub_element : tables -> n -> n -> n -> id w **)

let e_create_sub_element t lATEST h name =
  wbind (min_version lATEST h) (fun v -> raw_create_sub_element t h name v)

(** val e_create_sub_element_at : tables -> n -> n -> n -> n -> id w **)

let e_create_sub_element_at t lATEST h name pos =
  wbind (min_version lATEST h) (fun v ->
    raw_create_sub_element_at t h name pos v)

(** val e_create_named_sub_element :
    tables -> (n -> n list -> bool res) -> n -> n -> n -> n list -> id w **)

let e_create_named_sub_element t check_fn lATEST h name item =
  wbind (model_of h) (fun m ->
    wbind (min_version lATEST h) (fun v ->
      raw_create_named_sub_element t check_fn h name item m v))

(** val e_create_named_sub_element_at :
    tables -> (n -> n list -> bool res) -> n -> n -> n -> n list -> n -> id w **)

let e_create_named_sub_element_at t check_fn lATEST h name item pos =
  wbind (model_of h) (fun m ->
    wbind (min_version lATEST h) (fun v ->
      raw_create_named_sub_element_at t check_fn h name item pos m v))

(** val q_min_version : n -> id -> n w **)

let q_min_version =
  min_version

(** val q_insert_range : tables -> id -> n -> n -> (n * n) w **)

let q_insert_range t i name version =
  wbind (get_node i) (fun n0 -> calc_element_insert_range t n0 name version)

(** val in_range : n -> (n * n) -> bool **)

let in_range c r =
  (&&) (N.leb (fst r) c) (N.leb c (snd r))

(** val class_mem : (n * n) list -> n -> bool **)

let class_mem rs c =
  existsb (in_range c) rs

(** val dfa_go : n list list -> n list -> n -> n list -> bool option **)

let rec dfa_go tbl acc q = function
| [] -> Some (existsb (N.eqb q) acc)
| c :: s' ->
  (match nth_opt tbl (N.to_nat q) with
   | Some row ->
     (match nth_opt row (N.to_nat c) with
      | Some q' ->
        if N.eqb q' (Npos (XI (XI (XI (XI (XI (XI (XI XH))))))))
        then Some false
        else dfa_go tbl acc q' s'
      | None -> None)
   | None -> None)

(** val dfa_run : n list list -> n list -> n list -> bool option **)

let dfa_run tbl acc s =
  dfa_go tbl acc N0 s

type vexpr =
| VLenGe of nat
| VLenEq of nat
| VLenLe of nat
| VNonEmpty
| VStarts of n list
| VEq of n list
| VAll of (n * n) list
| VAt of nat * (n * n) list
| VSkip of nat * vexpr
| VAnd of vexpr * vexpr
| VOr of vexpr * vexpr
| VStripOpt of (n * n) list * vexpr
| VSplitAll of n * vexpr
| VSplitCount of n * nat

(** val prefixb : n list -> n list -> bool **)

let rec prefixb lit s =
  match lit with
  | [] -> true
  | c :: lit' ->
    (match s with
     | [] -> false
     | d :: s' -> if N.eqb c d then prefixb lit' s' else false)

(** val split : n -> n list -> n list list **)

let rec split sep = function
| [] -> [] :: []
| c :: s' ->
  if N.eqb c sep
  then [] :: (split sep s')
  else (match split sep s' with
        | [] -> (c :: []) :: []
        | p :: ps -> (c :: p) :: ps)

(** val all_opt : (n list -> bool option) -> n list list -> bool option **)

let rec all_opt f = function
| [] -> Some true
| p :: ps' ->
  (match f p with
   | Some b -> if b then all_opt f ps' else Some false
   | None -> None)

(** val veval : vexpr -> n list -> bool option **)

let rec veval e s =
  match e with
  | VLenGe k -> Some (Nat.leb k (length s))
  | VLenEq k -> Some (Nat.eqb (length s) k)
  | VLenLe k -> Some (Nat.leb (length s) k)
  | VNonEmpty -> Some (match s with
                       | [] -> false
                       | _ :: _ -> true)
  | VStarts lit -> Some (prefixb lit s)
  | VEq lit -> Some (bytes_eqb s lit)
  | VAll cls -> Some (forallb (class_mem cls) s)
  | VAt (k, cls) ->
    (match nth_opt s k with
     | Some c -> Some (class_mem cls c)
     | None -> None)
  | VSkip (k, e') ->
    if Nat.leb k (length s) then veval e' (skipn k s) else None
  | VAnd (a, b) ->
    (match veval a s with
     | Some b0 -> if b0 then veval b s else Some false
     | None -> None)
  | VOr (a, b) ->
    (match veval a s with
     | Some b0 -> if b0 then Some true else veval b s
     | None -> None)
  | VStripOpt (cls, e') ->
    (match s with
     | [] -> veval e' s
     | c :: t -> if class_mem cls c then veval e' t else veval e' s)
  | VSplitAll (sep, e') -> all_opt (veval e') (split sep s)
  | VSplitCount (sep, k) -> Some (Nat.eqb (length (split sep s)) k)

(** val sub_range : n -> n -> (n * n) -> (n * n) list **)

let sub_range lo hi r =
  app
    (if N.ltb (fst r) lo
     then ((fst r), (N.min (snd r) (N.sub lo (Npos XH)))) :: []
     else [])
    (if N.ltb hi (snd r)
     then ((N.max (fst r) (N.add hi (Npos XH))), (snd r)) :: []
     else [])

(** val complement : (n * n) list -> (n * n) list **)

let complement cls =
  fold_left (fun acc r -> flat_map (sub_range (fst r) (snd r)) acc) cls ((N0,
    (Npos (XI (XI (XI (XI (XI (XI (XI XH))))))))) :: [])

(** val v_1 : vexpr **)

let v_1 =
  VAnd ((VAnd ((VLenGe (S (S (S O)))), (VOr ((VStarts
    (bS (String ((Ascii (false, false, false, false, true, true, false,
      false)), (String ((Ascii (false, false, false, true, true, true, true,
      false)), EmptyString)))))), (VStarts
    (bS (String ((Ascii (false, false, false, false, true, true, false,
      false)), (String ((Ascii (false, false, false, true, true, false, true,
      false)), EmptyString)))))))))), (VSkip ((S (S O)), (VAll (((Npos (XO
    (XO (XO (XO (XI XH)))))), (Npos (XI (XO (XO (XI (XI XH))))))) :: (((Npos
    (XI (XO (XO (XO (XO (XI XH))))))), (Npos (XO (XI (XI (XO (XO (XI
    XH)))))))) :: (((Npos (XI (XO (XO (XO (XO (XO XH))))))), (Npos (XO (XI
    (XI (XO (XO (XO XH)))))))) :: [])))))))

(** val v_4 : vexpr **)

let v_4 =
  VOr ((VAnd (VNonEmpty, (VAll (((Npos (XO (XO (XO (XO (XI XH)))))), (Npos
    (XI (XO (XO (XI (XI XH))))))) :: [])))), (VEq
    (bS (String ((Ascii (true, false, false, false, false, false, true,
      false)), (String ((Ascii (false, true, true, true, false, false, true,
      false)), (String ((Ascii (true, false, false, true, true, false, true,
      false)), EmptyString)))))))))

(** val v_5 : vexpr **)

let v_5 =
  VOr ((VOr ((VAnd (VNonEmpty, (VAll (((Npos (XO (XO (XO (XO (XI XH)))))),
    (Npos (XI (XO (XO (XI (XI XH))))))) :: [])))), (VEq
    (bS (String ((Ascii (true, true, false, false, true, false, true,
      false)), (String ((Ascii (false, false, true, false, true, false, true,
      false)), (String ((Ascii (false, true, false, false, true, false, true,
      false)), (String ((Ascii (true, false, false, true, false, false, true,
      false)), (String ((Ascii (false, true, true, true, false, false, true,
      false)), (String ((Ascii (true, true, true, false, false, false, true,
      false)), EmptyString)))))))))))))))), (VEq
    (bS (String ((Ascii (true, false, false, false, false, false, true,
      false)), (String ((Ascii (false, true, false, false, true, false, true,
      false)), (String ((Ascii (false, true, false, false, true, false, true,
      false)), (String ((Ascii (true, false, false, false, false, false,
      true, false)), (String ((Ascii (true, false, false, true, true, false,
      true, false)), EmptyString)))))))))))))

(** val v_6 : vexpr **)

let v_6 =
  VOr ((VOr ((VOr ((VEq
    (bS (String ((Ascii (false, false, false, false, true, true, false,
      false)), EmptyString)))), (VEq
    (bS (String ((Ascii (true, false, false, false, true, true, false,
      false)), EmptyString)))))), (VEq
    (bS (String ((Ascii (false, false, true, false, true, true, true,
      false)), (String ((Ascii (false, true, false, false, true, true, true,
      false)), (String ((Ascii (true, false, true, false, true, true, true,
      false)), (String ((Ascii (true, false, true, false, false, true, true,
      false)), EmptyString)))))))))))), (VEq
    (bS (String ((Ascii (false, true, true, false, false, true, true,
      false)), (String ((Ascii (true, false, false, false, false, true, true,
      false)), (String ((Ascii (false, false, true, true, false, true, true,
      false)), (String ((Ascii (true, true, false, false, true, true, true,
      false)), (String ((Ascii (true, false, true, false, false, true, true,
      false)), EmptyString)))))))))))))

(** val v_7 : vexpr **)

let v_7 =
  VAnd ((VAnd (VNonEmpty, (VOr ((VAt (O, (((Npos (XI (XO (XO (XO (XO (XO
    XH))))))), (Npos (XO (XI (XO (XI (XI (XO XH)))))))) :: (((Npos (XI (XO
    (XO (XO (XO (XI XH))))))), (Npos (XO (XI (XO (XI (XI (XI
    XH)))))))) :: [])))), (VAt (O, (((Npos (XI (XI (XI (XI (XI (XO XH))))))),
    (Npos (XI (XI (XI (XI (XI (XO XH)))))))) :: []))))))), (VAll
    (app (((Npos (XO (XO (XO (XO (XI XH)))))), (Npos (XI (XO (XO (XI (XI
      XH))))))) :: (((Npos (XI (XO (XO (XO (XO (XO XH))))))), (Npos (XO (XI
      (XO (XI (XI (XO XH)))))))) :: (((Npos (XI (XO (XO (XO (XO (XI
      XH))))))), (Npos (XO (XI (XO (XI (XI (XI XH)))))))) :: []))) (((Npos
      (XI (XI (XI (XI (XI (XO XH))))))), (Npos (XI (XI (XI (XI (XI (XO
      XH)))))))) :: []))))

(** val v_8 : vexpr **)

let v_8 =
  VAnd ((VAnd (VNonEmpty, (VAt (O, (((Npos (XI (XO (XO (XO (XO (XO XH))))))),
    (Npos (XO (XI (XO (XI (XI (XO XH)))))))) :: (((Npos (XI (XO (XO (XO (XO
    (XI XH))))))), (Npos (XO (XI (XO (XI (XI (XI XH)))))))) :: [])))))),
    (VAll
    (app (((Npos (XO (XO (XO (XO (XI XH)))))), (Npos (XI (XO (XO (XI (XI
      XH))))))) :: (((Npos (XI (XO (XO (XO (XO (XO XH))))))), (Npos (XO (XI
      (XO (XI (XI (XO XH)))))))) :: (((Npos (XI (XO (XO (XO (XO (XI
      XH))))))), (Npos (XO (XI (XO (XI (XI (XI XH)))))))) :: []))) (((Npos
      (XI (XI (XI (XI (XI (XO XH))))))), (Npos (XI (XI (XI (XI (XI (XO
      XH)))))))) :: []))))

(** val v_10 : vexpr **)

let v_10 =
  VAnd ((VAnd (VNonEmpty, (VAt (O, (((Npos (XI (XO (XO (XO (XO (XO XH))))))),
    (Npos (XO (XI (XO (XI (XI (XO XH)))))))) :: (((Npos (XI (XO (XO (XO (XO
    (XI XH))))))), (Npos (XO (XI (XO (XI (XI (XI XH)))))))) :: [])))))),
    (VAll
    (app (((Npos (XO (XO (XO (XO (XI XH)))))), (Npos (XI (XO (XO (XI (XI
      XH))))))) :: (((Npos (XI (XO (XO (XO (XO (XO XH))))))), (Npos (XO (XI
      (XO (XI (XI (XO XH)))))))) :: (((Npos (XI (XO (XO (XO (XO (XI
      XH))))))), (Npos (XO (XI (XO (XI (XI (XI XH)))))))) :: []))) (((Npos
      (XI (XO (XI (XI (XO XH)))))), (Npos (XI (XO (XI (XI (XO
      XH))))))) :: []))))

(** val v_11 : vexpr **)

let v_11 =
  VAnd (VNonEmpty, (VAll
    (app (((Npos (XO (XO (XO (XO (XI XH)))))), (Npos (XI (XO (XO (XI (XI
      XH))))))) :: (((Npos (XI (XO (XO (XO (XO (XO XH))))))), (Npos (XO (XI
      (XO (XI (XI (XO XH)))))))) :: (((Npos (XI (XO (XO (XO (XO (XI
      XH))))))), (Npos (XO (XI (XO (XI (XI (XI XH)))))))) :: []))) (((Npos
      (XI (XI (XI (XI (XI (XO XH))))))), (Npos (XI (XI (XI (XI (XI (XO
      XH)))))))) :: (((Npos (XI (XO (XI (XI (XO XH)))))), (Npos (XI (XO (XI
      (XI (XO XH))))))) :: [])))))

(** val v_15 : vexpr **)

let v_15 =
  VOr ((VEq
    (bS (String ((Ascii (true, false, false, false, false, false, true,
      false)), (String ((Ascii (false, true, true, true, false, false, true,
      false)), (String ((Ascii (true, false, false, true, true, false, true,
      false)), EmptyString)))))))), (VAnd ((VSplitCount ((Npos (XO (XI (XO
    (XI (XI XH)))))), (S (S (S (S (S (S (S (S O)))))))))), (VSplitAll ((Npos
    (XO (XI (XO (XI (XI XH)))))), (VAnd ((VAnd (VNonEmpty, (VLenLe (S (S (S
    (S O))))))), (VAll (((Npos (XO (XO (XO (XO (XI XH)))))), (Npos (XI (XO
    (XO (XI (XI XH))))))) :: (((Npos (XI (XO (XO (XO (XO (XI XH))))))), (Npos
    (XO (XI (XI (XO (XO (XI XH)))))))) :: (((Npos (XI (XO (XO (XO (XO (XO
    XH))))))), (Npos (XO (XI (XI (XO (XO (XO XH)))))))) :: [])))))))))))

(** val v_17 : vexpr **)

let v_17 =
  VAnd ((VLenEq (S (S (S (S (S (S (S (S (S (S (S (S (S (S (S (S (S
    O)))))))))))))))))), (VSplitAll ((Npos (XO (XI (XO (XI (XI XH)))))),
    (VAnd ((VAnd ((VLenEq (S (S O))), (VAt (O, (((Npos (XO (XO (XO (XO (XI
    XH)))))), (Npos (XI (XO (XO (XI (XI XH))))))) :: (((Npos (XI (XO (XO (XO
    (XO (XI XH))))))), (Npos (XO (XI (XI (XO (XO (XI XH)))))))) :: (((Npos
    (XI (XO (XO (XO (XO (XO XH))))))), (Npos (XO (XI (XI (XO (XO (XO
    XH)))))))) :: []))))))), (VAt ((S O), (((Npos (XO (XO (XO (XO (XI
    XH)))))), (Npos (XI (XO (XO (XI (XI XH))))))) :: (((Npos (XI (XO (XO (XO
    (XO (XI XH))))))), (Npos (XO (XI (XI (XO (XO (XI XH)))))))) :: (((Npos
    (XI (XO (XO (XO (XO (XO XH))))))), (Npos (XO (XI (XI (XO (XO (XO
    XH)))))))) :: []))))))))))

(** val v_19 : vexpr **)

let v_19 =
  VAnd ((VAnd (VNonEmpty, (VAt (O, (((Npos (XI (XO (XO (XO (XO (XO XH))))))),
    (Npos (XO (XI (XO (XI (XI (XO XH)))))))) :: []))))), (VAll
    (app (((Npos (XO (XO (XO (XO (XI XH)))))), (Npos (XI (XO (XO (XI (XI
      XH))))))) :: (((Npos (XI (XO (XO (XO (XO (XO XH))))))), (Npos (XO (XI
      (XO (XI (XI (XO XH)))))))) :: (((Npos (XI (XO (XO (XO (XO (XI
      XH))))))), (Npos (XO (XI (XO (XI (XI (XI XH)))))))) :: []))) (((Npos
      (XI (XI (XI (XI (XI (XO XH))))))), (Npos (XI (XI (XI (XI (XI (XO
      XH)))))))) :: []))))

(** val v_20 : vexpr **)

let v_20 =
  VAnd ((VAnd (VNonEmpty, (VAt (O,
    (complement (((Npos (XO (XO (XO (XO (XI XH)))))), (Npos (XO (XO (XO (XO
      (XI XH))))))) :: [])))))), (VAll (((Npos (XO (XO (XO (XO (XI XH)))))),
    (Npos (XI (XO (XO (XI (XI XH))))))) :: [])))

(** val v_23 : vexpr **)

let v_23 =
  VStripOpt ((((Npos (XI (XO (XI (XI (XO XH)))))), (Npos (XI (XO (XI (XI (XO
    XH))))))) :: []), (VAnd (VNonEmpty, (VOr ((VOr ((VAll (((Npos (XO (XO (XO
    (XO (XI XH)))))), (Npos (XI (XO (XO (XI (XI XH))))))) :: [])), (VEq
    (bS (String ((Ascii (true, false, true, true, false, false, true,
      false)), (String ((Ascii (true, false, false, false, false, false,
      true, false)), (String ((Ascii (false, false, false, true, true, false,
      true, false)), (String ((Ascii (true, false, true, true, false, true,
      false, false)), (String ((Ascii (false, false, true, false, true,
      false, true, false)), (String ((Ascii (true, false, true, false, false,
      false, true, false)), (String ((Ascii (false, false, false, true, true,
      false, true, false)), (String ((Ascii (false, false, true, false, true,
      false, true, false)), (String ((Ascii (true, false, true, true, false,
      true, false, false)), (String ((Ascii (true, true, false, false, true,
      false, true, false)), (String ((Ascii (true, false, false, true, false,
      false, true, false)), (String ((Ascii (false, true, false, true, true,
      false, true, false)), (String ((Ascii (true, false, true, false, false,
      false, true, false)), EmptyString)))))))))))))))))))))))))))))), (VEq
    (bS (String ((Ascii (true, false, false, false, false, false, true,
      false)), (String ((Ascii (false, true, false, false, true, false, true,
      false)), (String ((Ascii (false, true, false, false, true, false, true,
      false)), (String ((Ascii (true, false, false, false, false, false,
      true, false)), (String ((Ascii (true, false, false, true, true, false,
      true, false)), (String ((Ascii (true, false, true, true, false, true,
      false, false)), (String ((Ascii (true, true, false, false, true, false,
      true, false)), (String ((Ascii (true, false, false, true, false, false,
      true, false)), (String ((Ascii (false, true, false, true, true, false,
      true, false)), (String ((Ascii (true, false, true, false, false, false,
      true, false)), EmptyString)))))))))))))))))))))))))))

(** val v_24 : vexpr **)

let v_24 =
  VAnd (VNonEmpty, (VStripOpt ((((Npos (XI (XI (XI (XI (XO XH)))))), (Npos
    (XI (XI (XI (XI (XO XH))))))) :: []), (VSplitAll ((Npos (XI (XI (XI (XI
    (XO XH)))))), (VAnd ((VLenLe (S (S (S (S (S (S (S (S (S (S (S (S (S (S (S
    (S (S (S (S (S (S (S (S (S (S (S (S (S (S (S (S (S (S (S (S (S (S (S (S
    (S (S (S (S (S (S (S (S (S (S (S (S (S (S (S (S (S (S (S (S (S (S (S (S
    (S (S (S (S (S (S (S (S (S (S (S (S (S (S (S (S (S (S (S (S (S (S (S (S
    (S (S (S (S (S (S (S (S (S (S (S (S (S (S (S (S (S (S (S (S (S (S (S (S
    (S (S (S (S (S (S (S (S (S (S (S (S (S (S (S (S (S
    O))))))))))))))))))))))))))))))))))))))))))))))))))))))))))))))))))))))))))))))))))))))))))))))))))))))))))))))))))))))))))))))))),
    (VAnd ((VAnd (VNonEmpty, (VAt (O, (((Npos (XI (XO (XO (XO (XO (XO
    XH))))))), (Npos (XO (XI (XO (XI (XI (XO XH)))))))) :: (((Npos (XI (XO
    (XO (XO (XO (XI XH))))))), (Npos (XO (XI (XO (XI (XI (XI
    XH)))))))) :: [])))))), (VAll
    (app (((Npos (XO (XO (XO (XO (XI XH)))))), (Npos (XI (XO (XO (XI (XI
      XH))))))) :: (((Npos (XI (XO (XO (XO (XO (XO XH))))))), (Npos (XO (XI
      (XO (XI (XI (XO XH)))))))) :: (((Npos (XI (XO (XO (XO (XO (XI
      XH))))))), (Npos (XO (XI (XO (XI (XI (XI XH)))))))) :: []))) (((Npos
      (XI (XI (XI (XI (XI (XO XH))))))), (Npos (XI (XI (XI (XI (XI (XO
      XH)))))))) :: []))))))))))))

(** val v_27 : vexpr **)

let v_27 =
  VAnd ((VLenEq (S O)), (VOr ((VAt (O, (((Npos (XO (XO (XO (XO (XI XH)))))),
    (Npos (XO (XO (XO (XO (XI XH))))))) :: []))), (VAt (O, (((Npos (XI (XO
    (XO (XO (XI XH)))))), (Npos (XI (XO (XO (XO (XI XH))))))) :: []))))))

(** val xml_vexpr : n -> vexpr option **)

let xml_vexpr = function
| N0 -> None
| Npos p ->
  (match p with
   | XI p0 ->
     (match p0 with
      | XI p1 ->
        (match p1 with
         | XI p2 ->
           (match p2 with
            | XI _ -> None
            | XO p3 -> (match p3 with
                        | XH -> Some v_23
                        | _ -> None)
            | XH -> Some v_15)
         | XO p2 ->
           (match p2 with
            | XI p3 -> (match p3 with
                        | XH -> Some v_27
                        | _ -> None)
            | XO p3 -> (match p3 with
                        | XH -> Some v_19
                        | _ -> None)
            | XH -> Some v_11)
         | XH -> Some v_7)
      | XO p1 ->
        (match p1 with
         | XI _ -> None
         | XO p2 ->
           (match p2 with
            | XO p3 -> (match p3 with
                        | XH -> Some v_17
                        | _ -> None)
            | _ -> None)
         | XH -> Some v_5)
      | XH -> None)
   | XO p0 ->
     (match p0 with
      | XI p1 ->
        (match p1 with
         | XI _ -> None
         | XO p2 -> (match p2 with
                     | XH -> Some v_10
                     | _ -> None)
         | XH -> Some v_6)
      | XO p1 ->
        (match p1 with
         | XI p2 ->
           (match p2 with
            | XO p3 -> (match p3 with
                        | XH -> Some v_20
                        | _ -> None)
            | _ -> None)
         | XO p2 ->
           (match p2 with
            | XI p3 -> (match p3 with
                        | XH -> Some v_24
                        | _ -> None)
            | XO _ -> None
            | XH -> Some v_8)
         | XH -> Some v_4)
      | XH -> None)
   | XH -> Some v_1)

(** val check_fn_model :
    (n -> (n list list * n list) option) -> n -> n list -> bool res **)

let check_fn_model dfas n0 s =
  match xml_vexpr n0 with
  | Some v ->
    (match veval v s with
     | Some b -> Val b
     | None ->
       Pan (String ((Ascii (false, true, false, false, true, true, true,
         false)), (String ((Ascii (true, false, true, false, false, true,
         true, false)), (String ((Ascii (true, true, true, false, false,
         true, true, false)), (String ((Ascii (true, false, true, false,
         false, true, true, false)), (String ((Ascii (false, false, false,
         true, true, true, true, false)), (String ((Ascii (false, true, true,
         true, false, true, false, false)), (String ((Ascii (false, true,
         false, false, true, true, true, false)), (String ((Ascii (true,
         true, false, false, true, true, true, false)), (String ((Ascii
         (false, true, false, true, true, true, false, false)), (String
         ((Ascii (false, false, false, false, false, true, false, false)),
         (String ((Ascii (false, false, false, true, false, true, true,
         false)), (String ((Ascii (true, false, false, false, false, true,
         true, false)), (String ((Ascii (false, true, true, true, false,
         true, true, false)), (String ((Ascii (false, false, true, false,
         false, true, true, false)), (String ((Ascii (true, false, true,
         true, false, true, false, false)), (String ((Ascii (true, true,
         true, false, true, true, true, false)), (String ((Ascii (false,
         true, false, false, true, true, true, false)), (String ((Ascii
         (true, false, false, true, false, true, true, false)), (String
         ((Ascii (false, false, true, false, true, true, true, false)),
         (String ((Ascii (false, false, true, false, true, true, true,
         false)), (String ((Ascii (true, false, true, false, false, true,
         true, false)), (String ((Ascii (false, true, true, true, false,
         true, true, false)), (String ((Ascii (false, false, false, false,
         false, true, false, false)), (String ((Ascii (false, true, true,
         false, true, true, true, false)), (String ((Ascii (true, false,
         false, false, false, true, true, false)), (String ((Ascii (false,
         false, true, true, false, true, true, false)), (String ((Ascii
         (true, false, false, true, false, true, true, false)), (String
         ((Ascii (false, false, true, false, false, true, true, false)),
         (String ((Ascii (true, false, false, false, false, true, true,
         false)), (String ((Ascii (false, false, true, false, true, true,
         true, false)), (String ((Ascii (true, true, true, true, false, true,
         true, false)), (String ((Ascii (false, true, false, false, true,
         true, true, false)), (String ((Ascii (false, false, false, false,
         false, true, false, false)), (String ((Ascii (true, false, false,
         true, false, true, true, false)), (String ((Ascii (false, true,
         true, true, false, true, true, false)), (String ((Ascii (false,
         false, true, false, false, true, true, false)), (String ((Ascii
         (true, false, true, false, false, true, true, false)), (String
         ((Ascii (false, false, false, true, true, true, true, false)),
         EmptyString)))))))))))))))))))))))))))))))))))))))))))))))))))))))))))))))))))))))))))))
  | None ->
    (match dfas n0 with
     | Some p ->
       let (tbl, acc) = p in
       (match dfa_run tbl acc s with
        | Some b -> Val b
        | None ->
          Pan (String ((Ascii (false, true, false, false, true, true, true,
            false)), (String ((Ascii (true, false, true, false, false, true,
            true, false)), (String ((Ascii (true, true, true, false, false,
            true, true, false)), (String ((Ascii (true, false, true, false,
            false, true, true, false)), (String ((Ascii (false, false, false,
            true, true, true, true, false)), (String ((Ascii (false, true,
            true, true, false, true, false, false)), (String ((Ascii (false,
            true, false, false, true, true, true, false)), (String ((Ascii
            (true, true, false, false, true, true, true, false)), (String
            ((Ascii (false, true, false, true, true, true, false, false)),
            (String ((Ascii (false, false, false, false, false, true, false,
            false)), (String ((Ascii (false, true, false, false, true, false,
            true, false)), (String ((Ascii (true, false, true, false, false,
            false, true, false)), (String ((Ascii (true, true, true, false,
            false, false, true, false)), (String ((Ascii (true, false, true,
            false, false, false, true, false)), (String ((Ascii (false,
            false, false, true, true, false, true, false)), (String ((Ascii
            (true, true, true, true, true, false, true, false)), (String
            ((Ascii (false, true, true, true, false, true, true, false)),
            (String ((Ascii (true, true, true, true, true, false, true,
            false)), (String ((Ascii (false, false, true, false, true, false,
            true, false)), (String ((Ascii (true, false, false, false, false,
            false, true, false)), (String ((Ascii (false, true, false, false,
            false, false, true, false)), (String ((Ascii (false, false, true,
            true, false, false, true, false)), (String ((Ascii (true, false,
            true, false, false, false, true, false)), (String ((Ascii (false,
            false, false, false, false, true, false, false)), (String ((Ascii
            (true, false, false, true, false, true, true, false)), (String
            ((Ascii (false, true, true, true, false, true, true, false)),
            (String ((Ascii (false, false, true, false, false, true, true,
            false)), (String ((Ascii (true, false, true, false, false, true,
            true, false)), (String ((Ascii (false, false, false, true, true,
            true, true, false)),
            EmptyString)))))))))))))))))))))))))))))))))))))))))))))))))))))))))))
     | None ->
       Pan (String ((Ascii (true, true, false, false, false, true, true,
         false)), (String ((Ascii (false, false, false, true, false, true,
         true, false)), (String ((Ascii (true, false, true, false, false,
         true, true, false)), (String ((Ascii (true, true, false, false,
         false, true, true, false)), (String ((Ascii (true, true, false,
         true, false, true, true, false)), (String ((Ascii (true, true, true,
         true, true, false, true, false)), (String ((Ascii (false, true,
         true, false, false, true, true, false)), (String ((Ascii (false,
         true, true, true, false, true, true, false)), (String ((Ascii
         (false, true, false, true, true, true, false, false)), (String
         ((Ascii (false, false, false, false, false, true, false, false)),
         (String ((Ascii (false, true, true, true, false, true, true,
         false)), (String ((Ascii (true, true, true, true, false, true, true,
         false)), (String ((Ascii (false, false, false, false, false, true,
         false, false)), (String ((Ascii (true, true, false, false, true,
         true, true, false)), (String ((Ascii (true, false, true, false,
         true, true, true, false)), (String ((Ascii (true, true, false,
         false, false, true, true, false)), (String ((Ascii (false, false,
         false, true, false, true, true, false)), (String ((Ascii (false,
         false, false, false, false, true, false, false)), (String ((Ascii
         (false, true, true, false, true, true, true, false)), (String
         ((Ascii (true, false, false, false, false, true, true, false)),
         (String ((Ascii (false, false, true, true, false, true, true,
         false)), (String ((Ascii (true, false, false, true, false, true,
         true, false)), (String ((Ascii (false, false, true, false, false,
         true, true, false)), (String ((Ascii (true, false, false, false,
         false, true, true, false)), (String ((Ascii (false, false, true,
         false, true, true, true, false)), (String ((Ascii (true, true, true,
         true, false, true, true, false)), (String ((Ascii (false, true,
         false, false, true, true, true, false)),
         EmptyString)))))))))))))))))))))))))))))))))))))))))))))))))))))))

(** val ix_cmp : n list -> n list -> comparison **)

let rec ix_cmp a b =
  match a with
  | [] -> (match b with
           | [] -> Eq
           | _ :: _ -> Lt)
  | x :: a' ->
    (match b with
     | [] -> Gt
     | y :: b' -> (match N.compare x y with
                   | Eq -> ix_cmp a' b'
                   | x0 -> x0))

(** val ix_eqb : n list -> n list -> bool **)

let rec ix_eqb a b =
  match a with
  | [] -> (match b with
           | [] -> true
           | _ :: _ -> false)
  | x :: a' ->
    (match b with
     | [] -> false
     | y :: b' -> (&&) (N.eqb x y) (ix_eqb a' b'))

(** val ins : 'a1 list -> nat -> 'a1 -> 'a1 list **)

let rec ins l p x =
  match p with
  | O -> x :: l
  | S p' -> (match l with
             | [] -> x :: []
             | y :: l' -> y :: (ins l' p' x))

(** val idx_of : tables -> etype -> n -> n -> n list option **)

let idx_of t ty v name =
  match find_sub_element t ty name v with
  | Val a ->
    (match a with
     | Some p -> let (_, ix) = p in Some ix
     | None -> None)
  | _ -> None

(** val mult_any : tables -> etype -> n list -> bool **)

let mult_any t ty ix =
  match get_sub_element_multiplicity t ty ix with
  | Val a -> (match a with
              | Some m -> N.eqb m (Npos (XO XH))
              | None -> false)
  | _ -> false

(** val group_mode : tables -> n -> n option **)

let group_mode t g =
  match dt t g with
  | Val d -> Some d.dt_mode
  | _ -> None

(** val pair_ok : tables -> etype -> n list -> n list -> bool **)

let pair_ok t ty a b =
  match find_common_group t ty a b with
  | Val g ->
    (match group_mode t g with
     | Some m ->
       if N.eqb m mSequence
       then (match ix_cmp a b with
             | Eq -> mult_any t ty a
             | Lt -> true
             | Gt -> false)
       else if N.eqb m mChoice
            then (&&) (ix_eqb a b) (mult_any t ty a)
            else (||) (N.eqb m mBag) (N.eqb m mMixed)
     | None -> false)
  | _ -> false

(** val all_pairs_ok : tables -> etype -> n list list -> bool **)

let rec all_pairs_ok t ty = function
| [] -> true
| a :: r -> (&&) (forallb (pair_ok t ty a) r) (all_pairs_ok t ty r)

(** val paths_of :
    tables -> etype -> n -> n option list -> n list list option **)

let rec paths_of t ty v = function
| [] -> Some []
| o :: r ->
  (match o with
   | Some name ->
     (match idx_of t ty v name with
      | Some ix ->
        (match paths_of t ty v r with
         | Some l -> Some (ix :: l)
         | None -> None)
      | None -> None)
   | None -> paths_of t ty v r)

(** val orderedb : tables -> etype -> n -> n option list -> bool **)

let orderedb t ty v items =
  match paths_of t ty v items with
  | Some l -> all_pairs_ok t ty l
  | None -> false

(** val container_seq_or_choice : tables -> etype -> n list -> bool **)

let container_seq_or_choice t ty ix =
  match get_sub_element_container_mode t ty ix with
  | Val m -> (||) (N.eqb m mSequence) (N.eqb m mChoice)
  | _ -> false

(** val choice_conflict : tables -> etype -> n list -> n list -> bool **)

let choice_conflict t ty prev ix =
  match prev with
  | [] -> false
  | _ :: _ ->
    if ix_eqb prev ix
    then false
    else (match find_common_group t ty prev ix with
          | Val g ->
            (match group_mode t g with
             | Some m -> N.eqb m mChoice
             | None -> false)
          | _ -> false)

(** val too_many : tables -> etype -> n list -> n -> n option list -> bool **)

let too_many t ty ix name seen = match seen with
| [] -> false
| _ :: _ ->
  (&&)
    ((&&) (container_seq_or_choice t ty ix)
      (match get_sub_element_multiplicity t ty ix with
       | Val a ->
         (match a with
          | Some m -> negb (N.eqb m (Npos (XO XH)))
          | None -> false)
       | _ -> false))
    (existsb (fun s -> match s with
                       | Some n0 -> N.eqb n0 name
                       | None -> false) seen)

(** val loader_scan :
    tables -> etype -> n -> n list -> n option list -> n option list ->
    (bool * n) list option **)

let rec loader_scan t ty v prev seen = function
| [] -> Some []
| o :: r ->
  (match o with
   | Some name ->
     (match idx_of t ty v name with
      | Some ix ->
        (match loader_scan t ty v ix (app seen ((Some name) :: [])) r with
         | Some rest ->
           Some
             (app
               (if choice_conflict t ty prev ix
                then (true, name) :: []
                else [])
               (app
                 (if too_many t ty ix name seen
                  then (false, name) :: []
                  else []) rest))
         | None -> None)
      | None -> None)
   | None -> loader_scan t ty v prev (app seen (None :: [])) r)

(** val loader_complaints :
    tables -> etype -> n -> n option list -> (bool * n) list option **)

let loader_complaints t ty v items =
  loader_scan t ty v [] [] items

(** val compatible : n -> n -> bool **)

let compatible version mask0 =
  negb (N.eqb (N.coq_land version mask0) N0)

type valid_info = { vi_name : n; vi_named : bool; vi_allowed : bool }

(** val valid_loop :
    tables -> node -> n -> (((n * etype) * n) * n) list -> valid_info list w **)

let rec valid_loop t n0 version = function
| [] -> wret []
| p :: rest ->
  let (p0, named_mask) = p in
  let (p1, mask0) = p0 in
  let (name, _) = p1 in
  if compatible version mask0
  then wbind (wcatch (calc_element_insert_range t n0 name version)) (fun r ->
         wbind (valid_loop t n0 version rest) (fun tl ->
           wret ({ vi_name = name; vi_named =
             (compatible version named_mask); vi_allowed =
             (match r with
              | OK _ -> true
              | ER _ -> false) } :: tl)))
  else valid_loop t n0 version rest

(** val list_valid_sub_elements : tables -> n -> id -> valid_info list w **)

let list_valid_sub_elements t lATEST h =
  wbind (get_node h) (fun n0 ->
    wbind (wtry (min_version lATEST h)) (fun mv ->
      match mv with
      | Some version ->
        wbind (wlift (sub_element_spec_list t n0.n_type)) (fun l ->
          valid_loop t n0 version l)
      | None -> wret []))
