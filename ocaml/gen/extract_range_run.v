(* extraction of the C07 sweep model (insertion range, listing, creation, specification order); run by build_range.sh inside
   ocaml/gen (outside the coq/ tree). ExtrOcamlBasic only. *)
From Coq Require Import Extraction ExtrOcamlBasic.
From AV Require Import Base.Bytes Base.Outcome Hash.HashModel Spec.SpecOps Tree.Heap Tree.Ops Tree.Script Tree.CheckFn
  Tree.Range Tree.ValidSubs.
Extraction Language OCaml.
Extraction "rangemodel.ml"
  SpecOps.et_new SpecOps.elem SpecOps.is_named_in_version
  Ops.e_create_sub_element Ops.e_create_sub_element_at Ops.e_create_named_sub_element Ops.e_create_named_sub_element_at
  Script.q_insert_range Script.q_min_version
  ValidSubs.list_valid_sub_elements Range.orderedb Range.ins Range.loader_complaints
  CheckFn.check_fn_model.
