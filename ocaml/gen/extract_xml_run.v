(* extraction of the XML loader / writer models; run by build_xml.sh inside ocaml/gen (outside the coq/ tree) *)
From Coq Require Import Extraction ExtrOcamlBasic.
From AV Require Import Base.Bytes Base.Outcome Hash.HashModel Spec.SpecOps Xml.Lexer Xml.Parser Xml.Serializer Extract.ExtractXml.
Extraction Language OCaml.
Extraction "xmlmodel.ml"
  HashModel.from_bytes HashModel.to_str SpecOps.content_mode SpecOps.et_new
  Parser.load Parser.check_arxml_header Parser.unescape_string Parser.parse_attribute_text
  Serializer.serialize_file Serializer.escape_text ExtractXml.check_fn_model.
