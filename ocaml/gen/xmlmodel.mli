
val negb : bool -> bool

type nat =
| O
| S of nat

val option_map : ('a1 -> 'a2) -> 'a1 option -> 'a2 option

type ('a, 'b) sum =
| Inl of 'a
| Inr of 'b

val fst : ('a1 * 'a2) -> 'a1

val snd : ('a1 * 'a2) -> 'a2

val length : 'a1 list -> nat

val app : 'a1 list -> 'a1 list -> 'a1 list

type comparison =
| Eq
| Lt
| Gt

val add : nat -> nat -> nat

val sub : nat -> nat -> nat

type byte =
| X00
| X01
| X02
| X03
| X04
| X05
| X06
| X07
| X08
| X09
| X0a
| X0b
| X0c
| X0d
| X0e
| X0f
| X10
| X11
| X12
| X13
| X14
| X15
| X16
| X17
| X18
| X19
| X1a
| X1b
| X1c
| X1d
| X1e
| X1f
| X20
| X21
| X22
| X23
| X24
| X25
| X26
| X27
| X28
| X29
| X2a
| X2b
| X2c
| X2d
| X2e
| X2f
| X30
| X31
| X32
| X33
| X34
| X35
| X36
| X37
| X38
| X39
| X3a
| X3b
| X3c
| X3d
| X3e
| X3f
| X40
| X41
| X42
| X43
| X44
| X45
| X46
| X47
| X48
| X49
| X4a
| X4b
| X4c
| X4d
| X4e
| X4f
| X50
| X51
| X52
| X53
| X54
| X55
| X56
| X57
| X58
| X59
| X5a
| X5b
| X5c
| X5d
| X5e
| X5f
| X60
| X61
| X62
| X63
| X64
| X65
| X66
| X67
| X68
| X69
| X6a
| X6b
| X6c
| X6d
| X6e
| X6f
| X70
| X71
| X72
| X73
| X74
| X75
| X76
| X77
| X78
| X79
| X7a
| X7b
| X7c
| X7d
| X7e
| X7f
| X80
| X81
| X82
| X83
| X84
| X85
| X86
| X87
| X88
| X89
| X8a
| X8b
| X8c
| X8d
| X8e
| X8f
| X90
| X91
| X92
| X93
| X94
| X95
| X96
| X97
| X98
| X99
| X9a
| X9b
| X9c
| X9d
| X9e
| X9f
| Xa0
| Xa1
| Xa2
| Xa3
| Xa4
| Xa5
| Xa6
| Xa7
| Xa8
| Xa9
| Xaa
| Xab
| Xac
| Xad
| Xae
| Xaf
| Xb0
| Xb1
| Xb2
| Xb3
| Xb4
| Xb5
| Xb6
| Xb7
| Xb8
| Xb9
| Xba
| Xbb
| Xbc
| Xbd
| Xbe
| Xbf
| Xc0
| Xc1
| Xc2
| Xc3
| Xc4
| Xc5
| Xc6
| Xc7
| Xc8
| Xc9
| Xca
| Xcb
| Xcc
| Xcd
| Xce
| Xcf
| Xd0
| Xd1
| Xd2
| Xd3
| Xd4
| Xd5
| Xd6
| Xd7
| Xd8
| Xd9
| Xda
| Xdb
| Xdc
| Xdd
| Xde
| Xdf
| Xe0
| Xe1
| Xe2
| Xe3
| Xe4
| Xe5
| Xe6
| Xe7
| Xe8
| Xe9
| Xea
| Xeb
| Xec
| Xed
| Xee
| Xef
| Xf0
| Xf1
| Xf2
| Xf3
| Xf4
| Xf5
| Xf6
| Xf7
| Xf8
| Xf9
| Xfa
| Xfb
| Xfc
| Xfd
| Xfe
| Xff

val of_bits :
  (bool * (bool * (bool * (bool * (bool * (bool * (bool * bool))))))) -> byte

val eqb : bool -> bool -> bool

module Nat :
 sig
  val eqb : nat -> nat -> bool

  val leb : nat -> nat -> bool

  val ltb : nat -> nat -> bool
 end

val hd : 'a1 -> 'a1 list -> 'a1

val tl : 'a1 list -> 'a1 list

val nth : nat -> 'a1 list -> 'a1 -> 'a1

val last : 'a1 list -> 'a1 -> 'a1

val removelast : 'a1 list -> 'a1 list

val rev : 'a1 list -> 'a1 list

val concat : 'a1 list list -> 'a1 list

val map : ('a1 -> 'a2) -> 'a1 list -> 'a2 list

val flat_map : ('a1 -> 'a2 list) -> 'a1 list -> 'a2 list

val fold_left : ('a1 -> 'a2 -> 'a1) -> 'a2 list -> 'a1 -> 'a1

val existsb : ('a1 -> bool) -> 'a1 list -> bool

val forallb : ('a1 -> bool) -> 'a1 list -> bool

val filter : ('a1 -> bool) -> 'a1 list -> 'a1 list

val find : ('a1 -> bool) -> 'a1 list -> 'a1 option

val firstn : nat -> 'a1 list -> 'a1 list

val skipn : nat -> 'a1 list -> 'a1 list

val repeat : 'a1 -> nat -> 'a1 list

type positive =
| XI of positive
| XO of positive
| XH

type n =
| N0
| Npos of positive

module Pos :
 sig
  type mask =
  | IsNul
  | IsPos of positive
  | IsNeg
 end

module Coq_Pos :
 sig
  val succ : positive -> positive

  val add : positive -> positive -> positive

  val add_carry : positive -> positive -> positive

  val pred_double : positive -> positive

  type mask = Pos.mask =
  | IsNul
  | IsPos of positive
  | IsNeg

  val succ_double_mask : mask -> mask

  val double_mask : mask -> mask

  val double_pred_mask : positive -> mask

  val sub_mask : positive -> positive -> mask

  val sub_mask_carry : positive -> positive -> mask

  val mul : positive -> positive -> positive

  val iter : ('a1 -> 'a1) -> 'a1 -> positive -> 'a1

  val pow : positive -> positive -> positive

  val size_nat : positive -> nat

  val compare_cont : comparison -> positive -> positive -> comparison

  val compare : positive -> positive -> comparison

  val eqb : positive -> positive -> bool

  val coq_Nsucc_double : n -> n

  val coq_Ndouble : n -> n

  val coq_lor : positive -> positive -> positive

  val coq_land : positive -> positive -> n

  val coq_lxor : positive -> positive -> n

  val shiftl : positive -> n -> positive

  val iter_op : ('a1 -> 'a1 -> 'a1) -> positive -> 'a1 -> 'a1

  val to_nat : positive -> nat

  val of_succ_nat : nat -> positive
 end

module N :
 sig
  val succ_double : n -> n

  val double : n -> n

  val add : n -> n -> n

  val sub : n -> n -> n

  val mul : n -> n -> n

  val compare : n -> n -> comparison

  val eqb : n -> n -> bool

  val leb : n -> n -> bool

  val ltb : n -> n -> bool

  val min : n -> n -> n

  val max : n -> n -> n

  val div2 : n -> n

  val pow : n -> n -> n

  val size_nat : n -> nat

  val pos_div_eucl : positive -> n -> n * n

  val div_eucl : n -> n -> n * n

  val div : n -> n -> n

  val modulo : n -> n -> n

  val coq_lor : n -> n -> n

  val coq_land : n -> n -> n

  val coq_lxor : n -> n -> n

  val shiftl : n -> n -> n

  val shiftr : n -> n -> n

  val to_nat : n -> nat

  val of_nat : nat -> n
 end

val to_N : byte -> n

type ascii =
| Ascii of bool * bool * bool * bool * bool * bool * bool * bool

val eqb0 : ascii -> ascii -> bool

val byte_of_ascii : ascii -> byte

type string =
| EmptyString
| String of ascii * string

val eqb1 : string -> string -> bool

val list_ascii_of_string : string -> ascii list

val list_byte_of_string : string -> byte list

val bytes_of_string : string -> n list

val bS : string -> n list

val bytes_eqb : n list -> n list -> bool

val nth_opt : 'a1 list -> nat -> 'a1 option

type 'a res =
| Val of 'a
| Pan of string
| Fuel

val bind : 'a1 res -> ('a1 -> 'a2 res) -> 'a2 res

val unwrap : string -> 'a1 option -> 'a1 res

val hASHCONST1 : n

val hASHCONST2 : n

val sEED1 : n

val sEED2 : n

val rOT1 : n

val rOT2 : n

val m32 : n

val rotl32 : n -> n -> n

val mix : n -> n -> n -> n -> n

val hash_loop : n list -> n -> n -> n * n

val hashfunc : n list -> (n * n) * n

type nametab = { nt_strtab : n list list; nt_disp : (n * n) list;
                 nt_mdisp : n; nt_mtab : n }

type 'a outcome =
| Ok of 'a
| Err
| Panic

val from_bytes : nametab -> n list -> n outcome

val to_str : nametab -> n -> n list option

type cdspec =
| CEnum of (n * n) list
| CPattern of n * n option
| CString of bool * n option
| CUInt
| CFloat

type elemdef = { ed_name : n; ed_type : n; ed_mult : n; ed_ordered : 
                 n; ed_split : n; ed_restrict : n }

type dtype = { dt_sub_start : n; dt_sub_end : n; dt_sub_ver : n;
               dt_attr_start : n; dt_attr_end : n; dt_attr_ver : n;
               dt_cdata : n; dt_mode : n; dt_ref_start : n; dt_ref_end : 
               n }

type tables = { t_elements : (n -> elemdef option); n_elements : n;
                t_subelements : (n -> (n * n) option); n_subelements : 
                n; t_attributes : (n -> ((n * n) * n) option);
                n_attributes : n; t_version_info : (n -> n option);
                n_version_info : n; t_datatypes : (n -> dtype option);
                n_datatypes : n; t_ref_items : (n -> n option);
                n_ref_items : n; t_cdata : (n -> cdspec option); n_cdata : 
                n; reference_type_idx : n; autosar_element : n;
                name_short_name : n; attr_dest : n }

val mSequence : n

val mChoice : n

val mCharacters : n

val mMixed : n

type etype = n * n

val elem : tables -> n -> elemdef res

val dt : tables -> n -> dtype res

val vinfo : tables -> n -> n res

val subel : tables -> n -> (n * n) res

val et_new : tables -> n -> etype res

val slice_chk : string -> n -> n -> n -> unit res

val sub_slice : tables -> n -> ((n * n) * dtype) res

val find_sub : tables -> nat -> n -> n -> n -> (etype * n list) option res

val fUEL : nat

val find_sub_element :
  tables -> etype -> n -> n -> (etype * n list) option res

val short_name_version_mask : tables -> n -> n option res

val is_named_in_version : tables -> etype -> n -> bool res

val walk_groups : tables -> n -> n list -> ((n * n) * n) option res

val get_sub_element_spec :
  tables -> etype -> n list -> ((n * n) * n) option res

val get_sub_element_version_mask : tables -> etype -> n list -> n option res

val get_sub_element_multiplicity : tables -> etype -> n list -> n option res

val get_sub_element_container_mode : tables -> etype -> n list -> n res

val common_group : tables -> n -> n list -> n list -> n res

val find_common_group : tables -> etype -> n list -> n list -> n res

val is_ref : tables -> etype -> bool res

val content_mode : tables -> etype -> n res

val chardata_spec : tables -> etype -> cdspec option res

val attr_slice : tables -> n -> ((n * n) * dtype) res

val find_attribute_spec :
  tables -> etype -> n -> (((n * cdspec) * n) * n) option res

val attribute_spec_list : tables -> etype -> (((n * n) * cdspec) * n) list res

val in_rng : n -> n -> n -> bool

val is_cont : n -> bool

val utf8_chunk : n list -> bool * nat

val utf8_valid_fuel : nat -> n list -> bool

val utf8_valid : n list -> bool

val rEPLACEMENT : n list

val utf8_lossy_fuel : nat -> n list -> n list

val utf8_lossy : n list -> n list

val is_char : n -> bool

val utf8_encode : n -> n list

val is_ws : n -> bool

type event =
| EvHeader of bool option
| EvBegin of n list * n list
| EvEnd of n list
| EvChars of n list
| EvComment of n list
| EvEOF

type lexerr =
| IncompleteData
| InvalidElement
| InvalidProcessingInstruction
| InvalidXmlHeader
| InvalidComment

type lstate = { l_rest : n list; l_line : n; l_deferred : n list option }

type lexout =
| LOk of n * event * lstate
| LErr of n * lexerr

val position : (n -> bool) -> n list -> nat option

val count_lines : n list -> n

val starts_with : n list -> n list -> bool

val split_ws_aux : n list -> n list -> n list list

val split_ws : n list -> n list list

val lexer_new : n list -> lstate

val header_attr : n list -> (n list * n list) res

val header_attrs :
  n list list -> n list -> n list -> bool option -> ((n list * n list) * bool
  option) res

val encoding_ok : n list -> bool

val comment_end : nat -> n list -> nat -> nat option

val ends_with : n list -> n list -> bool

val lex_next : nat -> lstate -> lexout res

val lex_fuel : lstate -> nat

val next : lstate -> lexout res

val digit_val : n -> n -> n option

val digits_val : n -> n -> n -> n list -> n option

val from_str_radix_u : n -> n -> n list -> n option

val ver_enum : (string * n) list

val ver_filename : (n * string) list

val ver_from_str : (string * n) list

val ver_from_u64 : (n * n) list

val ver_latest : n

val ver_value : n -> n option

val assocN : n -> (n * 'a1) list -> 'a1 option

val assocS : string -> (string * 'a1) list -> 'a1 option

val filename : n -> string option

val from_u64 : n -> n option

val from_val : n -> n option

val assocB : n list -> (string * 'a1) list -> 'a1 option

val version_of_filename : n list -> n option

val version_of_ident : string -> n option

val version_latest : n option

val filename_of_version : n -> n list option

type cdata =
| DEnum of n
| DString of n list
| DUInt of n
| DFloat of n

type etree =
| ENode of n * (n * n) * (n * cdata) list * (etree, cdata) sum list
   * n list option

val e_name : etree -> n

val e_content : etree -> (etree, cdata) sum list

type pkind =
| InvalidArxmlFileHeader
| UnexpectedXmlFileHeader
| UnknownAutosarVersion
| InvalidAutosarVersion
| IncorrectBeginElement
| InvalidBeginElement
| IncorrectEndElement
| InvalidEndElement
| ElementChoiceConflict
| ElementVersionError
| TooManySubElements
| RequiredSubelementMissing
| AttributeValueError
| UnknownAttributeError
| AttributeVersionError
| RequiredAttributeMissing
| CharacterContentForbidden
| EnumItemVersionError
| UnknownEnumItem
| InvalidEnumItem
| StringValueTooLong
| RegexMatchError
| Utf8Error
| UnexpectedEndOfFile
| InvalidNumber
| AdditionalDataError
| InvalidXmlEntity

type perror =
| ErrLex of n * lexerr
| ErrParse of n * pkind * n * n

type pstate = { p_lex : lstate; p_line : n; p_version : n; p_cur : n;
                p_compat : n; p_warnings : perror list;
                p_standalone : bool option;
                p_idents : (n list * nat list) list;
                p_refs : (n list * nat list) list }

val set_lex : pstate -> lstate -> pstate

val set_line : pstate -> n -> pstate

val set_version : pstate -> n -> pstate

val set_cur : pstate -> n -> pstate

val set_compat : pstate -> n -> pstate

val add_warning : pstate -> perror -> pstate

val set_standalone : pstate -> bool option -> pstate

val add_ident : pstate -> (n list * nat list) -> pstate

val add_ref : pstate -> (n list * nat list) -> pstate

type 'a step =
| Ret of 'a * pstate
| Raise of perror * pstate

type 'a m = pstate -> 'a step res

val ret : 'a1 -> 'a1 m

val mbind : 'a1 m -> ('a1 -> 'a2 m) -> 'a2 m

val get : pstate m

val modify : (pstate -> pstate) -> unit m

val lift : 'a1 res -> 'a1 m

val mpanic : string -> 'a1 m

val mfuel : 'a1 m

val hard : pkind -> n -> n -> 'a1 m

val optional_error : bool -> pkind -> n -> n -> unit m

val check_version : bool -> n -> pkind -> n -> n -> unit m

val pnext : event m

val name_of : nametab -> n list -> n option res

val drop_ws : n list -> n list

val trim_len : n list -> nat

val trim_byte_string : n list -> n list res

val find_byte : n -> n list -> nat option

val unescape_loop : bool -> nat -> n list -> n list -> n list m

val unescape_string : bool -> n list -> n list m

val opt_len_gt : n option -> n list -> bool

val parse_character_data :
  bool -> nametab -> (n -> n list -> bool res) -> (n list -> n option) -> n
  list -> cdspec -> cdata m

val attr_loop :
  bool -> tables -> nametab -> nametab -> (n -> n list -> bool res) -> (n
  list -> n option) -> nat -> etype -> n list -> (n * cdata) list -> (n
  list * (n * cdata) list) m

val req_loop :
  bool -> n -> (n * cdata) list -> (((n * n) * cdspec) * n) list -> unit m

val parse_attribute_text :
  bool -> tables -> nametab -> nametab -> (n -> n list -> bool res) -> (n
  list -> n option) -> etype -> n list -> (n * cdata) list m

val split_on : n -> n list -> n list -> n list list

val ver_or_panic : n option -> n m

val parse_file_version : bool -> n list -> n m

val attr_string : n -> (n * cdata) list -> n list option option

val attr_id : nametab -> n list -> n m

val parse_file_header : bool -> nametab -> (n * cdata) list -> unit m

val find_element_in_spec_checked :
  bool -> tables -> n -> etype -> (etype * n list) m

val list_eqbN : n list -> n list -> bool

val check_element_conflict :
  bool -> tables -> n -> etype -> n list -> n list -> unit m

val check_multiplicity :
  bool -> tables -> n -> etype -> n list -> (etree, cdata) sum list -> unit m

val first_string : etree -> n list option

val pe_loop :
  bool -> tables -> nametab -> nametab -> nametab -> (n -> n list -> bool
  res) -> (n list -> n option) -> (n -> etype -> (n * cdata) list -> n list
  option -> n list -> nat list -> etree m) -> nat -> n -> etype ->
  (n * cdata) list -> n list option -> nat list -> (etree, cdata) sum list ->
  n list -> bool -> n list option -> n list -> etree m

val parse_element :
  bool -> tables -> nametab -> nametab -> nametab -> (n -> n list -> bool
  res) -> (n list -> n option) -> nat -> nat -> n -> etype -> (n * cdata)
  list -> n list option -> n list -> nat list -> etree m

val verify_end_of_input : bool -> unit m

val root_type : tables -> etype m

val autosar_name : tables -> n m

val skip_comments : nat -> n list option -> event -> (n list option * event) m

val parse_arxml :
  bool -> tables -> nametab -> nametab -> nametab -> (n -> n list -> bool
  res) -> (n list -> n option) -> nat -> etree m

val init_pstate : n list -> n -> n -> pstate

val load :
  bool -> tables -> nametab -> nametab -> nametab -> (n -> n list -> bool
  res) -> (n list -> n option) -> n list -> etree step res

val check_arxml_header :
  bool -> tables -> nametab -> nametab -> nametab -> (n -> n list -> bool
  res) -> (n list -> n option) -> n list -> bool res

val escape_byte : n -> n list

val escape_text : n list -> n list

val dec_digits : nat -> n -> n list -> n list

val dec_of_N : n -> n list

val newline_indent : nat -> n list

val ser_cdata : nametab -> (n -> n list) -> cdata -> n list res

val ser_attrs :
  nametab -> nametab -> (n -> n list) -> (n * cdata) list -> n list res

val comment_part : n list option -> nat -> bool -> n list

val ser_elem :
  tables -> nametab -> nametab -> nametab -> (n -> n list) -> etree -> nat ->
  bool -> n list res

val xml_header : bool option -> n list

val check_value_string :
  (n -> n list -> bool res) -> cdspec -> n list -> bool res

val set_attr : n -> cdata -> (n * cdata) list -> (n * cdata) list

val schema_location_value : n -> n list res

val set_version0 :
  tables -> nametab -> (n -> n list -> bool res) -> n -> etree -> etree res

val serialize_file :
  tables -> nametab -> nametab -> nametab -> (n -> n list -> bool res) -> (n
  -> n list) -> n -> bool option -> etree -> n list res

val in_range : n -> (n * n) -> bool

val class_mem : (n * n) list -> n -> bool

val dfa_go : n list list -> n list -> n -> n list -> bool option

val dfa_run : n list list -> n list -> n list -> bool option

type vexpr =
| VLenGe of nat
| VLenEq of nat
| VLenLe of nat
| VNonEmpty
| VStarts of n list
| VEq of n list
| VAll of (n * n) list
| VAt of nat * (n * n) list
| VSkip of nat * vexpr
| VAnd of vexpr * vexpr
| VOr of vexpr * vexpr
| VStripOpt of (n * n) list * vexpr
| VSplitAll of n * vexpr
| VSplitCount of n * nat

val prefixb : n list -> n list -> bool

val split : n -> n list -> n list list

val all_opt : (n list -> bool option) -> n list list -> bool option

val veval : vexpr -> n list -> bool option

val sub_range : n -> n -> (n * n) -> (n * n) list

val complement : (n * n) list -> (n * n) list

val v_1 : vexpr

val v_4 : vexpr

val v_5 : vexpr

val v_6 : vexpr

val v_7 : vexpr

val v_8 : vexpr

val v_10 : vexpr

val v_11 : vexpr

val v_15 : vexpr

val v_17 : vexpr

val v_19 : vexpr

val v_20 : vexpr

val v_23 : vexpr

val v_24 : vexpr

val v_27 : vexpr

val xml_vexpr : n -> vexpr option

val check_fn_model :
  (n -> (n list list * n list) option) -> n -> n list -> bool res
