
(** val negb : bool -> bool **)

let negb = function
| true -> false
| false -> true

type nat =
| O
| S of nat

(** val option_map : ('a1 -> 'a2) -> 'a1 option -> 'a2 option **)

let option_map f = function
| Some a -> Some (f a)
| None -> None

type ('a, 'b) sum =
| Inl of 'a
| Inr of 'b

(** val fst : ('a1 * 'a2) -> 'a1 **)

let fst = function
| (x, _) -> x

(** val snd : ('a1 * 'a2) -> 'a2 **)

let snd = function
| (_, y) -> y

(** val length : 'a1 list -> nat **)

let rec length = function
| [] -> O
| _ :: l' -> S (length l')

(** val app : 'a1 list -> 'a1 list -> 'a1 list **)

let rec app l m0 =
  match l with
  | [] -> m0
  | a :: l1 -> a :: (app l1 m0)

type comparison =
| Eq
| Lt
| Gt

module Coq__1 = struct
 (** val add : nat -> nat -> nat **)
 let rec add n0 m0 =
   match n0 with
   | O -> m0
   | S p -> S (add p m0)
end
include Coq__1

(** val sub : nat -> nat -> nat **)

let rec sub n0 m0 =
  match n0 with
  | O -> n0
  | S k -> (match m0 with
            | O -> n0
            | S l -> sub k l)

type byte =
| X00
| X01
| X02
| X03
| X04
| X05
| X06
| X07
| X08
| X09
| X0a
| X0b
| X0c
| X0d
| X0e
| X0f
| X10
| X11
| X12
| X13
| X14
| X15
| X16
| X17
| X18
| X19
| X1a
| X1b
| X1c
| X1d
| X1e
| X1f
| X20
| X21
| X22
| X23
| X24
| X25
| X26
| X27
| X28
| X29
| X2a
| X2b
| X2c
| X2d
| X2e
| X2f
| X30
| X31
| X32
| X33
| X34
| X35
| X36
| X37
| X38
| X39
| X3a
| X3b
| X3c
| X3d
| X3e
| X3f
| X40
| X41
| X42
| X43
| X44
| X45
| X46
| X47
| X48
| X49
| X4a
| X4b
| X4c
| X4d
| X4e
| X4f
| X50
| X51
| X52
| X53
| X54
| X55
| X56
| X57
| X58
| X59
| X5a
| X5b
| X5c
| X5d
| X5e
| X5f
| X60
| X61
| X62
| X63
| X64
| X65
| X66
| X67
| X68
| X69
| X6a
| X6b
| X6c
| X6d
| X6e
| X6f
| X70
| X71
| X72
| X73
| X74
| X75
| X76
| X77
| X78
| X79
| X7a
| X7b
| X7c
| X7d
| X7e
| X7f
| X80
| X81
| X82
| X83
| X84
| X85
| X86
| X87
| X88
| X89
| X8a
| X8b
| X8c
| X8d
| X8e
| X8f
| X90
| X91
| X92
| X93
| X94
| X95
| X96
| X97
| X98
| X99
| X9a
| X9b
| X9c
| X9d
| X9e
| X9f
| Xa0
| Xa1
| Xa2
| Xa3
| Xa4
| Xa5
| Xa6
| Xa7
| Xa8
| Xa9
| Xaa
| Xab
| Xac
| Xad
| Xae
| Xaf
| Xb0
| Xb1
| Xb2
| Xb3
| Xb4
| Xb5
| Xb6
| Xb7
| Xb8
| Xb9
| Xba
| Xbb
| Xbc
| Xbd
| Xbe
| Xbf
| Xc0
| Xc1
| Xc2
| Xc3
| Xc4
| Xc5
| Xc6
| Xc7
| Xc8
| Xc9
| Xca
| Xcb
| Xcc
| Xcd
| Xce
| Xcf
| Xd0
| Xd1
| Xd2
| Xd3
| Xd4
| Xd5
| Xd6
| Xd7
| Xd8
| Xd9
| Xda
| Xdb
| Xdc
| Xdd
| Xde
| Xdf
| Xe0
| Xe1
| Xe2
| Xe3
| Xe4
| Xe5
| Xe6
| Xe7
| Xe8
| Xe9
| Xea
| Xeb
| Xec
| Xed
| Xee
| Xef
| Xf0
| Xf1
| Xf2
| Xf3
| Xf4
| Xf5
| Xf6
| Xf7
| Xf8
| Xf9
| Xfa
| Xfb
| Xfc
| Xfd
| Xfe
| Xff

(** val of_bits :
    (bool * (bool * (bool * (bool * (bool * (bool * (bool * bool))))))) ->
    byte **)

let of_bits = function
| (b0, p) ->
  if b0
  then let (b1, p0) = p in
       if b1
       then let (b2, p1) = p0 in
            if b2
            then let (b3, p2) = p1 in
                 if b3
                 then let (b4, p3) = p2 in
                      if b4
                      then let (b5, p4) = p3 in
                           if b5
                           then let (b6, b7) = p4 in
                                if b6
                                then if b7 then Xff else X7f
                                else if b7 then Xbf else X3f
                           else let (b6, b7) = p4 in
                                if b6
                                then if b7 then Xdf else X5f
                                else if b7 then X9f else X1f
                      else let (b5, p4) = p3 in
                           if b5
                           then let (b6, b7) = p4 in
                                if b6
                                then if b7 then Xef else X6f
                                else if b7 then Xaf else X2f
                           else let (b6, b7) = p4 in
                                if b6
                                then if b7 then Xcf else X4f
                                else if b7 then X8f else X0f
                 else let (b4, p3) = p2 in
                      if b4
                      then let (b5, p4) = p3 in
                           if b5
                           then let (b6, b7) = p4 in
                                if b6
                                then if b7 then Xf7 else X77
                                else if b7 then Xb7 else X37
                           else let (b6, b7) = p4 in
                                if b6
                                then if b7 then Xd7 else X57
                                else if b7 then X97 else X17
                      else let (b5, p4) = p3 in
                           if b5
                           then let (b6, b7) = p4 in
                                if b6
                                then if b7 then Xe7 else X67
                                else if b7 then Xa7 else X27
                           else let (b6, b7) = p4 in
                                if b6
                                then if b7 then Xc7 else X47
                                else if b7 then X87 else X07
            else let (b3, p2) = p1 in
                 if b3
                 then let (b4, p3) = p2 in
                      if b4
                      then let (b5, p4) = p3 in
                           if b5
                           then let (b6, b7) = p4 in
                                if b6
                                then if b7 then Xfb else X7b
                                else if b7 then Xbb else X3b
                           else let (b6, b7) = p4 in
                                if b6
                                then if b7 then Xdb else X5b
                                else if b7 then X9b else X1b
                      else let (b5, p4) = p3 in
                           if b5
                           then let (b6, b7) = p4 in
                                if b6
                                then if b7 then Xeb else X6b
                                else if b7 then Xab else X2b
                           else let (b6, b7) = p4 in
                                if b6
                                then if b7 then Xcb else X4b
                                else if b7 then X8b else X0b
                 else let (b4, p3) = p2 in
                      if b4
                      then let (b5, p4) = p3 in
                           if b5
                           then let (b6, b7) = p4 in
                                if b6
                                then if b7 then Xf3 else X73
                                else if b7 then Xb3 else X33
                           else let (b6, b7) = p4 in
                                if b6
                                then if b7 then Xd3 else X53
                                else if b7 then X93 else X13
                      else let (b5, p4) = p3 in
                           if b5
                           then let (b6, b7) = p4 in
                                if b6
                                then if b7 then Xe3 else X63
                                else if b7 then Xa3 else X23
                           else let (b6, b7) = p4 in
                                if b6
                                then if b7 then Xc3 else X43
                                else if b7 then X83 else X03
       else let (b2, p1) = p0 in
            if b2
            then let (b3, p2) = p1 in
                 if b3
                 then let (b4, p3) = p2 in
                      if b4
                      then let (b5, p4) = p3 in
                           if b5
                           then let (b6, b7) = p4 in
                                if b6
                                then if b7 then Xfd else X7d
                                else if b7 then Xbd else X3d
                           else let (b6, b7) = p4 in
                                if b6
                                then if b7 then Xdd else X5d
                                else if b7 then X9d else X1d
                      else let (b5, p4) = p3 in
                           if b5
                           then let (b6, b7) = p4 in
                                if b6
                                then if b7 then Xed else X6d
                                else if b7 then Xad else X2d
                           else let (b6, b7) = p4 in
                                if b6
                                then if b7 then Xcd else X4d
                                else if b7 then X8d else X0d
                 else let (b4, p3) = p2 in
                      if b4
                      then let (b5, p4) = p3 in
                           if b5
                           then let (b6, b7) = p4 in
                                if b6
                                then if b7 then Xf5 else X75
                                else if b7 then Xb5 else X35
                           else let (b6, b7) = p4 in
                                if b6
                                then if b7 then Xd5 else X55
                                else if b7 then X95 else X15
                      else let (b5, p4) = p3 in
                           if b5
                           then let (b6, b7) = p4 in
                                if b6
                                then if b7 then Xe5 else X65
                                else if b7 then Xa5 else X25
                           else let (b6, b7) = p4 in
                                if b6
                                then if b7 then Xc5 else X45
                                else if b7 then X85 else X05
            else let (b3, p2) = p1 in
                 if b3
                 then let (b4, p3) = p2 in
                      if b4
                      then let (b5, p4) = p3 in
                           if b5
                           then let (b6, b7) = p4 in
                                if b6
                                then if b7 then Xf9 else X79
                                else if b7 then Xb9 else X39
                           else let (b6, b7) = p4 in
                                if b6
                                then if b7 then Xd9 else X59
                                else if b7 then X99 else X19
                      else let (b5, p4) = p3 in
                           if b5
                           then let (b6, b7) = p4 in
                                if b6
                                then if b7 then Xe9 else X69
                                else if b7 then Xa9 else X29
                           else let (b6, b7) = p4 in
                                if b6
                                then if b7 then Xc9 else X49
                                else if b7 then X89 else X09
                 else let (b4, p3) = p2 in
                      if b4
                      then let (b5, p4) = p3 in
                           if b5
                           then let (b6, b7) = p4 in
                                if b6
                                then if b7 then Xf1 else X71
                                else if b7 then Xb1 else X31
                           else let (b6, b7) = p4 in
                                if b6
                                then if b7 then Xd1 else X51
                                else if b7 then X91 else X11
                      else let (b5, p4) = p3 in
                           if b5
                           then let (b6, b7) = p4 in
                                if b6
                                then if b7 then Xe1 else X61
                                else if b7 then Xa1 else X21
                           else let (b6, b7) = p4 in
                                if b6
                                then if b7 then Xc1 else X41
                                else if b7 then X81 else X01
  else let (b1, p0) = p in
       if b1
       then let (b2, p1) = p0 in
            if b2
            then let (b3, p2) = p1 in
                 if b3
                 then let (b4, p3) = p2 in
                      if b4
                      then let (b5, p4) = p3 in
                           if b5
                           then let (b6, b7) = p4 in
                                if b6
                                then if b7 then Xfe else X7e
                                else if b7 then Xbe else X3e
                           else let (b6, b7) = p4 in
                                if b6
                                then if b7 then Xde else X5e
                                else if b7 then X9e else X1e
                      else let (b5, p4) = p3 in
                           if b5
                           then let (b6, b7) = p4 in
                                if b6
                                then if b7 then Xee else X6e
                                else if b7 then Xae else X2e
                           else let (b6, b7) = p4 in
                                if b6
                                then if b7 then Xce else X4e
                                else if b7 then X8e else X0e
                 else let (b4, p3) = p2 in
                      if b4
                      then let (b5, p4) = p3 in
                           if b5
                           then let (b6, b7) = p4 in
                                if b6
                                then if b7 then Xf6 else X76
                                else if b7 then Xb6 else X36
                           else let (b6, b7) = p4 in
                                if b6
                                then if b7 then Xd6 else X56
                                else if b7 then X96 else X16
                      else let (b5, p4) = p3 in
                           if b5
                           then let (b6, b7) = p4 in
                                if b6
                                then if b7 then Xe6 else X66
                                else if b7 then Xa6 else X26
                           else let (b6, b7) = p4 in
                                if b6
                                then if b7 then Xc6 else X46
                                else if b7 then X86 else X06
            else let (b3, p2) = p1 in
                 if b3
                 then let (b4, p3) = p2 in
                      if b4
                      then let (b5, p4) = p3 in
                           if b5
                           then let (b6, b7) = p4 in
                                if b6
                                then if b7 then Xfa else X7a
                                else if b7 then Xba else X3a
                           else let (b6, b7) = p4 in
                                if b6
                                then if b7 then Xda else X5a
                                else if b7 then X9a else X1a
                      else let (b5, p4) = p3 in
                           if b5
                           then let (b6, b7) = p4 in
                                if b6
                                then if b7 then Xea else X6a
                                else if b7 then Xaa else X2a
                           else let (b6, b7) = p4 in
                                if b6
                                then if b7 then Xca else X4a
                                else if b7 then X8a else X0a
                 else let (b4, p3) = p2 in
                      if b4
                      then let (b5, p4) = p3 in
                           if b5
                           then let (b6, b7) = p4 in
                                if b6
                                then if b7 then Xf2 else X72
                                else if b7 then Xb2 else X32
                           else let (b6, b7) = p4 in
                                if b6
                                then if b7 then Xd2 else X52
                                else if b7 then X92 else X12
                      else let (b5, p4) = p3 in
                           if b5
                           then let (b6, b7) = p4 in
                                if b6
                                then if b7 then Xe2 else X62
                                else if b7 then Xa2 else X22
                           else let (b6, b7) = p4 in
                                if b6
                                then if b7 then Xc2 else X42
                                else if b7 then X82 else X02
       else let (b2, p1) = p0 in
            if b2
            then let (b3, p2) = p1 in
                 if b3
                 then let (b4, p3) = p2 in
                      if b4
                      then let (b5, p4) = p3 in
                           if b5
                           then let (b6, b7) = p4 in
                                if b6
                                then if b7 then Xfc else X7c
                                else if b7 then Xbc else X3c
                           else let (b6, b7) = p4 in
                                if b6
                                then if b7 then Xdc else X5c
                                else if b7 then X9c else X1c
                      else let (b5, p4) = p3 in
                           if b5
                           then let (b6, b7) = p4 in
                                if b6
                                then if b7 then Xec else X6c
                                else if b7 then Xac else X2c
                           else let (b6, b7) = p4 in
                                if b6
                                then if b7 then Xcc else X4c
                                else if b7 then X8c else X0c
                 else let (b4, p3) = p2 in
                      if b4
                      then let (b5, p4) = p3 in
                           if b5
                           then let (b6, b7) = p4 in
                                if b6
                                then if b7 then Xf4 else X74
                                else if b7 then Xb4 else X34
                           else let (b6, b7) = p4 in
                                if b6
                                then if b7 then Xd4 else X54
                                else if b7 then X94 else X14
                      else let (b5, p4) = p3 in
                           if b5
                           then let (b6, b7) = p4 in
                                if b6
                                then if b7 then Xe4 else X64
                                else if b7 then Xa4 else X24
                           else let (b6, b7) = p4 in
                                if b6
                                then if b7 then Xc4 else X44
                                else if b7 then X84 else X04
            else let (b3, p2) = p1 in
                 if b3
                 then let (b4, p3) = p2 in
                      if b4
                      then let (b5, p4) = p3 in
                           if b5
                           then let (b6, b7) = p4 in
                                if b6
                                then if b7 then Xf8 else X78
                                else if b7 then Xb8 else X38
                           else let (b6, b7) = p4 in
                                if b6
                                then if b7 then Xd8 else X58
                                else if b7 then X98 else X18
                      else let (b5, p4) = p3 in
                           if b5
                           then let (b6, b7) = p4 in
                                if b6
                                then if b7 then Xe8 else X68
                                else if b7 then Xa8 else X28
                           else let (b6, b7) = p4 in
                                if b6
                                then if b7 then Xc8 else X48
                                else if b7 then X88 else X08
                 else let (b4, p3) = p2 in
                      if b4
                      then let (b5, p4) = p3 in
                           if b5
                           then let (b6, b7) = p4 in
                                if b6
                                then if b7 then Xf0 else X70
                                else if b7 then Xb0 else X30
                           else let (b6, b7) = p4 in
                                if b6
                                then if b7 then Xd0 else X50
                                else if b7 then X90 else X10
                      else let (b5, p4) = p3 in
                           if b5
                           then let (b6, b7) = p4 in
                                if b6
                                then if b7 then Xe0 else X60
                                else if b7 then Xa0 else X20
                           else let (b6, b7) = p4 in
                                if b6
                                then if b7 then Xc0 else X40
                                else if b7 then X80 else X00

(** val eqb : bool -> bool -> bool **)

let eqb b1 b2 =
  if b1 then b2 else if b2 then false else true

module Nat =
 struct
  (** val eqb : nat -> nat -> bool **)

  let rec eqb n0 m0 =
    match n0 with
    | O -> (match m0 with
            | O -> true
            | S _ -> false)
    | S n' -> (match m0 with
               | O -> false
               | S m' -> eqb n' m')

  (** val leb : nat -> nat -> bool **)

  let rec leb n0 m0 =
    match n0 with
    | O -> true
    | S n' -> (match m0 with
               | O -> false
               | S m' -> leb n' m')

  (** val ltb : nat -> nat -> bool **)

  let ltb n0 m0 =
    leb (S n0) m0
 end

(** val hd : 'a1 -> 'a1 list -> 'a1 **)

let hd default = function
| [] -> default
| x :: _ -> x

(** val tl : 'a1 list -> 'a1 list **)

let tl = function
| [] -> []
| _ :: m0 -> m0

(** val nth : nat -> 'a1 list -> 'a1 -> 'a1 **)

let rec nth n0 l default =
  match n0 with
  | O -> (match l with
          | [] -> default
          | x :: _ -> x)
  | S m0 -> (match l with
             | [] -> default
             | _ :: t -> nth m0 t default)

(** val last : 'a1 list -> 'a1 -> 'a1 **)

let rec last l d =
  match l with
  | [] -> d
  | a :: l0 -> (match l0 with
                | [] -> a
                | _ :: _ -> last l0 d)

(** val removelast : 'a1 list -> 'a1 list **)

let rec removelast = function
| [] -> []
| a :: l0 -> (match l0 with
              | [] -> []
              | _ :: _ -> a :: (removelast l0))

(** val rev : 'a1 list -> 'a1 list **)

let rec rev = function
| [] -> []
| x :: l' -> app (rev l') (x :: [])

(** val concat : 'a1 list list -> 'a1 list **)

let rec concat = function
| [] -> []
| x :: l0 -> app x (concat l0)

(** val map : ('a1 -> 'a2) -> 'a1 list -> 'a2 list **)

let rec map f = function
| [] -> []
| a :: t -> (f a) :: (map f t)

(** val flat_map : ('a1 -> 'a2 list) -> 'a1 list -> 'a2 list **)

let rec flat_map f = function
| [] -> []
| x :: t -> app (f x) (flat_map f t)

(** val fold_left : ('a1 -> 'a2 -> 'a1) -> 'a2 list -> 'a1 -> 'a1 **)

let rec fold_left f l a0 =
  match l with
  | [] -> a0
  | b :: t -> fold_left f t (f a0 b)

(** val existsb : ('a1 -> bool) -> 'a1 list -> bool **)

let rec existsb f = function
| [] -> false
| a :: l0 -> (||) (f a) (existsb f l0)

(** val forallb : ('a1 -> bool) -> 'a1 list -> bool **)

let rec forallb f = function
| [] -> true
| a :: l0 -> (&&) (f a) (forallb f l0)

(** val filter : ('a1 -> bool) -> 'a1 list -> 'a1 list **)

let rec filter f = function
| [] -> []
| x :: l0 -> if f x then x :: (filter f l0) else filter f l0

(** val find : ('a1 -> bool) -> 'a1 list -> 'a1 option **)

let rec find f = function
| [] -> None
| x :: tl0 -> if f x then Some x else find f tl0

(** val firstn : nat -> 'a1 list -> 'a1 list **)

let rec firstn n0 l =
  match n0 with
  | O -> []
  | S n1 -> (match l with
             | [] -> []
             | a :: l0 -> a :: (firstn n1 l0))

(** val skipn : nat -> 'a1 list -> 'a1 list **)

let rec skipn n0 l =
  match n0 with
  | O -> l
  | S n1 -> (match l with
             | [] -> []
             | _ :: l0 -> skipn n1 l0)

(** val repeat : 'a1 -> nat -> 'a1 list **)

let rec repeat x = function
| O -> []
| S k -> x :: (repeat x k)

type positive =
| XI of positive
| XO of positive
| XH

type n =
| N0
| Npos of positive

module Pos =
 struct
  type mask =
  | IsNul
  | IsPos of positive
  | IsNeg
 end

module Coq_Pos =
 struct
  (** val succ : positive -> positive **)

  let rec succ = function
  | XI p -> XO (succ p)
  | XO p -> XI p
  | XH -> XO XH

  (** val add : positive -> positive -> positive **)

  let rec add x y =
    match x with
    | XI p ->
      (match y with
       | XI q -> XO (add_carry p q)
       | XO q -> XI (add p q)
       | XH -> XO (succ p))
    | XO p ->
      (match y with
       | XI q -> XI (add p q)
       | XO q -> XO (add p q)
       | XH -> XI p)
    | XH -> (match y with
             | XI q -> XO (succ q)
             | XO q -> XI q
             | XH -> XO XH)

  (** val add_carry : positive -> positive -> positive **)

  and add_carry x y =
    match x with
    | XI p ->
      (match y with
       | XI q -> XI (add_carry p q)
       | XO q -> XO (add_carry p q)
       | XH -> XI (succ p))
    | XO p ->
      (match y with
       | XI q -> XO (add_carry p q)
       | XO q -> XI (add p q)
       | XH -> XO (succ p))
    | XH ->
      (match y with
       | XI q -> XI (succ q)
       | XO q -> XO (succ q)
       | XH -> XI XH)

  (** val pred_double : positive -> positive **)

  let rec pred_double = function
  | XI p -> XI (XO p)
  | XO p -> XI (pred_double p)
  | XH -> XH

  type mask = Pos.mask =
  | IsNul
  | IsPos of positive
  | IsNeg

  (** val succ_double_mask : mask -> mask **)

  let succ_double_mask = function
  | IsNul -> IsPos XH
  | IsPos p -> IsPos (XI p)
  | IsNeg -> IsNeg

  (** val double_mask : mask -> mask **)

  let double_mask = function
  | IsPos p -> IsPos (XO p)
  | x0 -> x0

  (** val double_pred_mask : positive -> mask **)

  let double_pred_mask = function
  | XI p -> IsPos (XO (XO p))
  | XO p -> IsPos (XO (pred_double p))
  | XH -> IsNul

  (** val sub_mask : positive -> positive -> mask **)

  let rec sub_mask x y =
    match x with
    | XI p ->
      (match y with
       | XI q -> double_mask (sub_mask p q)
       | XO q -> succ_double_mask (sub_mask p q)
       | XH -> IsPos (XO p))
    | XO p ->
      (match y with
       | XI q -> succ_double_mask (sub_mask_carry p q)
       | XO q -> double_mask (sub_mask p q)
       | XH -> IsPos (pred_double p))
    | XH -> (match y with
             | XH -> IsNul
             | _ -> IsNeg)

  (** val sub_mask_carry : positive -> positive -> mask **)

  and sub_mask_carry x y =
    match x with
    | XI p ->
      (match y with
       | XI q -> succ_double_mask (sub_mask_carry p q)
       | XO q -> double_mask (sub_mask p q)
       | XH -> IsPos (pred_double p))
    | XO p ->
      (match y with
       | XI q -> double_mask (sub_mask_carry p q)
       | XO q -> succ_double_mask (sub_mask_carry p q)
       | XH -> double_pred_mask p)
    | XH -> IsNeg

  (** val mul : positive -> positive -> positive **)

  let rec mul x y =
    match x with
    | XI p -> add y (XO (mul p y))
    | XO p -> XO (mul p y)
    | XH -> y

  (** val iter : ('a1 -> 'a1) -> 'a1 -> positive -> 'a1 **)

  let rec iter f x = function
  | XI n' -> f (iter f (iter f x n') n')
  | XO n' -> iter f (iter f x n') n'
  | XH -> f x

  (** val pow : positive -> positive -> positive **)

  let pow x =
    iter (mul x) XH

  (** val size_nat : positive -> nat **)

  let rec size_nat = function
  | XI p0 -> S (size_nat p0)
  | XO p0 -> S (size_nat p0)
  | XH -> S O

  (** val compare_cont : comparison -> positive -> positive -> comparison **)

  let rec compare_cont r x y =
    match x with
    | XI p ->
      (match y with
       | XI q -> compare_cont r p q
       | XO q -> compare_cont Gt p q
       | XH -> Gt)
    | XO p ->
      (match y with
       | XI q -> compare_cont Lt p q
       | XO q -> compare_cont r p q
       | XH -> Gt)
    | XH -> (match y with
             | XH -> r
             | _ -> Lt)

  (** val compare : positive -> positive -> comparison **)

  let compare =
    compare_cont Eq

  (** val eqb : positive -> positive -> bool **)

  let rec eqb p q =
    match p with
    | XI p0 -> (match q with
                | XI q0 -> eqb p0 q0
                | _ -> false)
    | XO p0 -> (match q with
                | XO q0 -> eqb p0 q0
                | _ -> false)
    | XH -> (match q with
             | XH -> true
             | _ -> false)

  (** val coq_Nsucc_double : n -> n **)

  let coq_Nsucc_double = function
  | N0 -> Npos XH
  | Npos p -> Npos (XI p)

  (** val coq_Ndouble : n -> n **)

  let coq_Ndouble = function
  | N0 -> N0
  | Npos p -> Npos (XO p)

  (** val coq_lor : positive -> positive -> positive **)

  let rec coq_lor p q =
    match p with
    | XI p0 ->
      (match q with
       | XI q0 -> XI (coq_lor p0 q0)
       | XO q0 -> XI (coq_lor p0 q0)
       | XH -> p)
    | XO p0 ->
      (match q with
       | XI q0 -> XI (coq_lor p0 q0)
       | XO q0 -> XO (coq_lor p0 q0)
       | XH -> XI p0)
    | XH -> (match q with
             | XO q0 -> XI q0
             | _ -> q)

  (** val coq_land : positive -> positive -> n **)

  let rec coq_land p q =
    match p with
    | XI p0 ->
      (match q with
       | XI q0 -> coq_Nsucc_double (coq_land p0 q0)
       | XO q0 -> coq_Ndouble (coq_land p0 q0)
       | XH -> Npos XH)
    | XO p0 ->
      (match q with
       | XI q0 -> coq_Ndouble (coq_land p0 q0)
       | XO q0 -> coq_Ndouble (coq_land p0 q0)
       | XH -> N0)
    | XH -> (match q with
             | XO _ -> N0
             | _ -> Npos XH)

  (** val coq_lxor : positive -> positive -> n **)

  let rec coq_lxor p q =
    match p with
    | XI p0 ->
      (match q with
       | XI q0 -> coq_Ndouble (coq_lxor p0 q0)
       | XO q0 -> coq_Nsucc_double (coq_lxor p0 q0)
       | XH -> Npos (XO p0))
    | XO p0 ->
      (match q with
       | XI q0 -> coq_Nsucc_double (coq_lxor p0 q0)
       | XO q0 -> coq_Ndouble (coq_lxor p0 q0)
       | XH -> Npos (XI p0))
    | XH ->
      (match q with
       | XI q0 -> Npos (XO q0)
       | XO q0 -> Npos (XI q0)
       | XH -> N0)

  (** val shiftl : positive -> n -> positive **)

  let shiftl p = function
  | N0 -> p
  | Npos n1 -> iter (fun x -> XO x) p n1

  (** val iter_op : ('a1 -> 'a1 -> 'a1) -> positive -> 'a1 -> 'a1 **)

  let rec iter_op op p a =
    match p with
    | XI p0 -> op a (iter_op op p0 (op a a))
    | XO p0 -> iter_op op p0 (op a a)
    | XH -> a

  (** val to_nat : positive -> nat **)

  let to_nat x =
    iter_op Coq__1.add x (S O)

  (** val of_succ_nat : nat -> positive **)

  let rec of_succ_nat = function
  | O -> XH
  | S x -> succ (of_succ_nat x)
 end

module N =
 struct
  (** val succ_double : n -> n **)

  let succ_double = function
  | N0 -> Npos XH
  | Npos p -> Npos (XI p)

  (** val double : n -> n **)

  let double = function
  | N0 -> N0
  | Npos p -> Npos (XO p)

  (** val add : n -> n -> n **)

  let add n0 m0 =
    match n0 with
    | N0 -> m0
    | Npos p -> (match m0 with
                 | N0 -> n0
                 | Npos q -> Npos (Coq_Pos.add p q))

  (** val sub : n -> n -> n **)

  let sub n0 m0 =
    match n0 with
    | N0 -> N0
    | Npos n' ->
      (match m0 with
       | N0 -> n0
       | Npos m' ->
         (match Coq_Pos.sub_mask n' m' with
          | Coq_Pos.IsPos p -> Npos p
          | _ -> N0))

  (** val mul : n -> n -> n **)

  let mul n0 m0 =
    match n0 with
    | N0 -> N0
    | Npos p -> (match m0 with
                 | N0 -> N0
                 | Npos q -> Npos (Coq_Pos.mul p q))

  (** val compare : n -> n -> comparison **)

  let compare n0 m0 =
    match n0 with
    | N0 -> (match m0 with
             | N0 -> Eq
             | Npos _ -> Lt)
    | Npos n' -> (match m0 with
                  | N0 -> Gt
                  | Npos m' -> Coq_Pos.compare n' m')

  (** val eqb : n -> n -> bool **)

  let eqb n0 m0 =
    match n0 with
    | N0 -> (match m0 with
             | N0 -> true
             | Npos _ -> false)
    | Npos p -> (match m0 with
                 | N0 -> false
                 | Npos q -> Coq_Pos.eqb p q)

  (** val leb : n -> n -> bool **)

  let leb x y =
    match compare x y with
    | Gt -> false
    | _ -> true

  (** val ltb : n -> n -> bool **)

  let ltb x y =
    match compare x y with
    | Lt -> true
    | _ -> false

  (** val min : n -> n -> n **)

  let min n0 n' =
    match compare n0 n' with
    | Gt -> n'
    | _ -> n0

  (** val max : n -> n -> n **)

  let max n0 n' =
    match compare n0 n' with
    | Gt -> n0
    | _ -> n'

  (** val div2 : n -> n **)

  let div2 = function
  | N0 -> N0
  | Npos p0 -> (match p0 with
                | XI p -> Npos p
                | XO p -> Npos p
                | XH -> N0)

  (** val pow : n -> n -> n **)

  let pow n0 = function
  | N0 -> Npos XH
  | Npos p0 -> (match n0 with
                | N0 -> N0
                | Npos q -> Npos (Coq_Pos.pow q p0))

  (** val size_nat : n -> nat **)

  let size_nat = function
  | N0 -> O
  | Npos p -> Coq_Pos.size_nat p

  (** val pos_div_eucl : positive -> n -> n * n **)

  let rec pos_div_eucl a b =
    match a with
    | XI a' ->
      let (q, r) = pos_div_eucl a' b in
      let r' = succ_double r in
      if leb b r' then ((succ_double q), (sub r' b)) else ((double q), r')
    | XO a' ->
      let (q, r) = pos_div_eucl a' b in
      let r' = double r in
      if leb b r' then ((succ_double q), (sub r' b)) else ((double q), r')
    | XH ->
      (match b with
       | N0 -> (N0, (Npos XH))
       | Npos p -> (match p with
                    | XH -> ((Npos XH), N0)
                    | _ -> (N0, (Npos XH))))

  (** val div_eucl : n -> n -> n * n **)

  let div_eucl a b =
    match a with
    | N0 -> (N0, N0)
    | Npos na -> (match b with
                  | N0 -> (N0, a)
                  | Npos _ -> pos_div_eucl na b)

  (** val div : n -> n -> n **)

  let div a b =
    fst (div_eucl a b)

  (** val modulo : n -> n -> n **)

  let modulo a b =
    snd (div_eucl a b)

  (** val coq_lor : n -> n -> n **)

  let coq_lor n0 m0 =
    match n0 with
    | N0 -> m0
    | Npos p ->
      (match m0 with
       | N0 -> n0
       | Npos q -> Npos (Coq_Pos.coq_lor p q))

  (** val coq_land : n -> n -> n **)

  let coq_land n0 m0 =
    match n0 with
    | N0 -> N0
    | Npos p -> (match m0 with
                 | N0 -> N0
                 | Npos q -> Coq_Pos.coq_land p q)

  (** val coq_lxor : n -> n -> n **)

  let coq_lxor n0 m0 =
    match n0 with
    | N0 -> m0
    | Npos p -> (match m0 with
                 | N0 -> n0
                 | Npos q -> Coq_Pos.coq_lxor p q)

  (** val shiftl : n -> n -> n **)

  let shiftl a n0 =
    match a with
    | N0 -> N0
    | Npos a0 -> Npos (Coq_Pos.shiftl a0 n0)

  (** val shiftr : n -> n -> n **)

  let shiftr a = function
  | N0 -> a
  | Npos p -> Coq_Pos.iter div2 a p

  (** val to_nat : n -> nat **)

  let to_nat = function
  | N0 -> O
  | Npos p -> Coq_Pos.to_nat p

  (** val of_nat : nat -> n **)

  let of_nat = function
  | O -> N0
  | S n' -> Npos (Coq_Pos.of_succ_nat n')
 end

(** val to_N : byte -> n **)

let to_N = function
| X00 -> N0
| X01 -> Npos XH
| X02 -> Npos (XO XH)
| X03 -> Npos (XI XH)
| X04 -> Npos (XO (XO XH))
| X05 -> Npos (XI (XO XH))
| X06 -> Npos (XO (XI XH))
| X07 -> Npos (XI (XI XH))
| X08 -> Npos (XO (XO (XO XH)))
| X09 -> Npos (XI (XO (XO XH)))
| X0a -> Npos (XO (XI (XO XH)))
| X0b -> Npos (XI (XI (XO XH)))
| X0c -> Npos (XO (XO (XI XH)))
| X0d -> Npos (XI (XO (XI XH)))
| X0e -> Npos (XO (XI (XI XH)))
| X0f -> Npos (XI (XI (XI XH)))
| X10 -> Npos (XO (XO (XO (XO XH))))
| X11 -> Npos (XI (XO (XO (XO XH))))
| X12 -> Npos (XO (XI (XO (XO XH))))
| X13 -> Npos (XI (XI (XO (XO XH))))
| X14 -> Npos (XO (XO (XI (XO XH))))
| X15 -> Npos (XI (XO (XI (XO XH))))
| X16 -> Npos (XO (XI (XI (XO XH))))
| X17 -> Npos (XI (XI (XI (XO XH))))
| X18 -> Npos (XO (XO (XO (XI XH))))
| X19 -> Npos (XI (XO (XO (XI XH))))
| X1a -> Npos (XO (XI (XO (XI XH))))
| X1b -> Npos (XI (XI (XO (XI XH))))
| X1c -> Npos (XO (XO (XI (XI XH))))
| X1d -> Npos (XI (XO (XI (XI XH))))
| X1e -> Npos (XO (XI (XI (XI XH))))
| X1f -> Npos (XI (XI (XI (XI XH))))
| X20 -> Npos (XO (XO (XO (XO (XO XH)))))
| X21 -> Npos (XI (XO (XO (XO (XO XH)))))
| X22 -> Npos (XO (XI (XO (XO (XO XH)))))
| X23 -> Npos (XI (XI (XO (XO (XO XH)))))
| X24 -> Npos (XO (XO (XI (XO (XO XH)))))
| X25 -> Npos (XI (XO (XI (XO (XO XH)))))
| X26 -> Npos (XO (XI (XI (XO (XO XH)))))
| X27 -> Npos (XI (XI (XI (XO (XO XH)))))
| X28 -> Npos (XO (XO (XO (XI (XO XH)))))
| X29 -> Npos (XI (XO (XO (XI (XO XH)))))
| X2a -> Npos (XO (XI (XO (XI (XO XH)))))
| X2b -> Npos (XI (XI (XO (XI (XO XH)))))
| X2c -> Npos (XO (XO (XI (XI (XO XH)))))
| X2d -> Npos (XI (XO (XI (XI (XO XH)))))
| X2e -> Npos (XO (XI (XI (XI (XO XH)))))
| X2f -> Npos (XI (XI (XI (XI (XO XH)))))
| X30 -> Npos (XO (XO (XO (XO (XI XH)))))
| X31 -> Npos (XI (XO (XO (XO (XI XH)))))
| X32 -> Npos (XO (XI (XO (XO (XI XH)))))
| X33 -> Npos (XI (XI (XO (XO (XI XH)))))
| X34 -> Npos (XO (XO (XI (XO (XI XH)))))
| X35 -> Npos (XI (XO (XI (XO (XI XH)))))
| X36 -> Npos (XO (XI (XI (XO (XI XH)))))
| X37 -> Npos (XI (XI (XI (XO (XI XH)))))
| X38 -> Npos (XO (XO (XO (XI (XI XH)))))
| X39 -> Npos (XI (XO (XO (XI (XI XH)))))
| X3a -> Npos (XO (XI (XO (XI (XI XH)))))
| X3b -> Npos (XI (XI (XO (XI (XI XH)))))
| X3c -> Npos (XO (XO (XI (XI (XI XH)))))
| X3d -> Npos (XI (XO (XI (XI (XI XH)))))
| X3e -> Npos (XO (XI (XI (XI (XI XH)))))
| X3f -> Npos (XI (XI (XI (XI (XI XH)))))
| X40 -> Npos (XO (XO (XO (XO (XO (XO XH))))))
| X41 -> Npos (XI (XO (XO (XO (XO (XO XH))))))
| X42 -> Npos (XO (XI (XO (XO (XO (XO XH))))))
| X43 -> Npos (XI (XI (XO (XO (XO (XO XH))))))
| X44 -> Npos (XO (XO (XI (XO (XO (XO XH))))))
| X45 -> Npos (XI (XO (XI (XO (XO (XO XH))))))
| X46 -> Npos (XO (XI (XI (XO (XO (XO XH))))))
| X47 -> Npos (XI (XI (XI (XO (XO (XO XH))))))
| X48 -> Npos (XO (XO (XO (XI (XO (XO XH))))))
| X49 -> Npos (XI (XO (XO (XI (XO (XO XH))))))
| X4a -> Npos (XO (XI (XO (XI (XO (XO XH))))))
| X4b -> Npos (XI (XI (XO (XI (XO (XO XH))))))
| X4c -> Npos (XO (XO (XI (XI (XO (XO XH))))))
| X4d -> Npos (XI (XO (XI (XI (XO (XO XH))))))
| X4e -> Npos (XO (XI (XI (XI (XO (XO XH))))))
| X4f -> Npos (XI (XI (XI (XI (XO (XO XH))))))
| X50 -> Npos (XO (XO (XO (XO (XI (XO XH))))))
| X51 -> Npos (XI (XO (XO (XO (XI (XO XH))))))
| X52 -> Npos (XO (XI (XO (XO (XI (XO XH))))))
| X53 -> Npos (XI (XI (XO (XO (XI (XO XH))))))
| X54 -> Npos (XO (XO (XI (XO (XI (XO XH))))))
| X55 -> Npos (XI (XO (XI (XO (XI (XO XH))))))
| X56 -> Npos (XO (XI (XI (XO (XI (XO XH))))))
| X57 -> Npos (XI (XI (XI (XO (XI (XO XH))))))
| X58 -> Npos (XO (XO (XO (XI (XI (XO XH))))))
| X59 -> Npos (XI (XO (XO (XI (XI (XO XH))))))
| X5a -> Npos (XO (XI (XO (XI (XI (XO XH))))))
| X5b -> Npos (XI (XI (XO (XI (XI (XO XH))))))
| X5c -> Npos (XO (XO (XI (XI (XI (XO XH))))))
| X5d -> Npos (XI (XO (XI (XI (XI (XO XH))))))
| X5e -> Npos (XO (XI (XI (XI (XI (XO XH))))))
| X5f -> Npos (XI (XI (XI (XI (XI (XO XH))))))
| X60 -> Npos (XO (XO (XO (XO (XO (XI XH))))))
| X61 -> Npos (XI (XO (XO (XO (XO (XI XH))))))
| X62 -> Npos (XO (XI (XO (XO (XO (XI XH))))))
| X63 -> Npos (XI (XI (XO (XO (XO (XI XH))))))
| X64 -> Npos (XO (XO (XI (XO (XO (XI XH))))))
| X65 -> Npos (XI (XO (XI (XO (XO (XI XH))))))
| X66 -> Npos (XO (XI (XI (XO (XO (XI XH))))))
| X67 -> Npos (XI (XI (XI (XO (XO (XI XH))))))
| X68 -> Npos (XO (XO (XO (XI (XO (XI XH))))))
| X69 -> Npos (XI (XO (XO (XI (XO (XI XH))))))
| X6a -> Npos (XO (XI (XO (XI (XO (XI XH))))))
| X6b -> Npos (XI (XI (XO (XI (XO (XI XH))))))
| X6c -> Npos (XO (XO (XI (XI (XO (XI XH))))))
| X6d -> Npos (XI (XO (XI (XI (XO (XI XH))))))
| X6e -> Npos (XO (XI (XI (XI (XO (XI XH))))))
| X6f -> Npos (XI (XI (XI (XI (XO (XI XH))))))
| X70 -> Npos (XO (XO (XO (XO (XI (XI XH))))))
| X71 -> Npos (XI (XO (XO (XO (XI (XI XH))))))
| X72 -> Npos (XO (XI (XO (XO (XI (XI XH))))))
| X73 -> Npos (XI (XI (XO (XO (XI (XI XH))))))
| X74 -> Npos (XO (XO (XI (XO (XI (XI XH))))))
| X75 -> Npos (XI (XO (XI (XO (XI (XI XH))))))
| X76 -> Npos (XO (XI (XI (XO (XI (XI XH))))))
| X77 -> Npos (XI (XI (XI (XO (XI (XI XH))))))
| X78 -> Npos (XO (XO (XO (XI (XI (XI XH))))))
| X79 -> Npos (XI (XO (XO (XI (XI (XI XH))))))
| X7a -> Npos (XO (XI (XO (XI (XI (XI XH))))))
| X7b -> Npos (XI (XI (XO (XI (XI (XI XH))))))
| X7c -> Npos (XO (XO (XI (XI (XI (XI XH))))))
| X7d -> Npos (XI (XO (XI (XI (XI (XI XH))))))
| X7e -> Npos (XO (XI (XI (XI (XI (XI XH))))))
| X7f -> Npos (XI (XI (XI (XI (XI (XI XH))))))
| X80 -> Npos (XO (XO (XO (XO (XO (XO (XO XH)))))))
| X81 -> Npos (XI (XO (XO (XO (XO (XO (XO XH)))))))
| X82 -> Npos (XO (XI (XO (XO (XO (XO (XO XH)))))))
| X83 -> Npos (XI (XI (XO (XO (XO (XO (XO XH)))))))
| X84 -> Npos (XO (XO (XI (XO (XO (XO (XO XH)))))))
| X85 -> Npos (XI (XO (XI (XO (XO (XO (XO XH)))))))
| X86 -> Npos (XO (XI (XI (XO (XO (XO (XO XH)))))))
| X87 -> Npos (XI (XI (XI (XO (XO (XO (XO XH)))))))
| X88 -> Npos (XO (XO (XO (XI (XO (XO (XO XH)))))))
| X89 -> Npos (XI (XO (XO (XI (XO (XO (XO XH)))))))
| X8a -> Npos (XO (XI (XO (XI (XO (XO (XO XH)))))))
| X8b -> Npos (XI (XI (XO (XI (XO (XO (XO XH)))))))
| X8c -> Npos (XO (XO (XI (XI (XO (XO (XO XH)))))))
| X8d -> Npos (XI (XO (XI (XI (XO (XO (XO XH)))))))
| X8e -> Npos (XO (XI (XI (XI (XO (XO (XO XH)))))))
| X8f -> Npos (XI (XI (XI (XI (XO (XO (XO XH)))))))
| X90 -> Npos (XO (XO (XO (XO (XI (XO (XO XH)))))))
| X91 -> Npos (XI (XO (XO (XO (XI (XO (XO XH)))))))
| X92 -> Npos (XO (XI (XO (XO (XI (XO (XO XH)))))))
| X93 -> Npos (XI (XI (XO (XO (XI (XO (XO XH)))))))
| X94 -> Npos (XO (XO (XI (XO (XI (XO (XO XH)))))))
| X95 -> Npos (XI (XO (XI (XO (XI (XO (XO XH)))))))
| X96 -> Npos (XO (XI (XI (XO (XI (XO (XO XH)))))))
| X97 -> Npos (XI (XI (XI (XO (XI (XO (XO XH)))))))
| X98 -> Npos (XO (XO (XO (XI (XI (XO (XO XH)))))))
| X99 -> Npos (XI (XO (XO (XI (XI (XO (XO XH)))))))
| X9a -> Npos (XO (XI (XO (XI (XI (XO (XO XH)))))))
| X9b -> Npos (XI (XI (XO (XI (XI (XO (XO XH)))))))
| X9c -> Npos (XO (XO (XI (XI (XI (XO (XO XH)))))))
| X9d -> Npos (XI (XO (XI (XI (XI (XO (XO XH)))))))
| X9e -> Npos (XO (XI (XI (XI (XI (XO (XO XH)))))))
| X9f -> Npos (XI (XI (XI (XI (XI (XO (XO XH)))))))
| Xa0 -> Npos (XO (XO (XO (XO (XO (XI (XO XH)))))))
| Xa1 -> Npos (XI (XO (XO (XO (XO (XI (XO XH)))))))
| Xa2 -> Npos (XO (XI (XO (XO (XO (XI (XO XH)))))))
| Xa3 -> Npos (XI (XI (XO (XO (XO (XI (XO XH)))))))
| Xa4 -> Npos (XO (XO (XI (XO (XO (XI (XO XH)))))))
| Xa5 -> Npos (XI (XO (XI (XO (XO (XI (XO XH)))))))
| Xa6 -> Npos (XO (XI (XI (XO (XO (XI (XO XH)))))))
| Xa7 -> Npos (XI (XI (XI (XO (XO (XI (XO XH)))))))
| Xa8 -> Npos (XO (XO (XO (XI (XO (XI (XO XH)))))))
| Xa9 -> Npos (XI (XO (XO (XI (XO (XI (XO XH)))))))
| Xaa -> Npos (XO (XI (XO (XI (XO (XI (XO XH)))))))
| Xab -> Npos (XI (XI (XO (XI (XO (XI (XO XH)))))))
| Xac -> Npos (XO (XO (XI (XI (XO (XI (XO XH)))))))
| Xad -> Npos (XI (XO (XI (XI (XO (XI (XO XH)))))))
| Xae -> Npos (XO (XI (XI (XI (XO (XI (XO XH)))))))
| Xaf -> Npos (XI (XI (XI (XI (XO (XI (XO XH)))))))
| Xb0 -> Npos (XO (XO (XO (XO (XI (XI (XO XH)))))))
| Xb1 -> Npos (XI (XO (XO (XO (XI (XI (XO XH)))))))
| Xb2 -> Npos (XO (XI (XO (XO (XI (XI (XO XH)))))))
| Xb3 -> Npos (XI (XI (XO (XO (XI (XI (XO XH)))))))
| Xb4 -> Npos (XO (XO (XI (XO (XI (XI (XO XH)))))))
| Xb5 -> Npos (XI (XO (XI (XO (XI (XI (XO XH)))))))
| Xb6 -> Npos (XO (XI (XI (XO (XI (XI (XO XH)))))))
| Xb7 -> Npos (XI (XI (XI (XO (XI (XI (XO XH)))))))
| Xb8 -> Npos (XO (XO (XO (XI (XI (XI (XO XH)))))))
| Xb9 -> Npos (XI (XO (XO (XI (XI (XI (XO XH)))))))
| Xba -> Npos (XO (XI (XO (XI (XI (XI (XO XH)))))))
| Xbb -> Npos (XI (XI (XO (XI (XI (XI (XO XH)))))))
| Xbc -> Npos (XO (XO (XI (XI (XI (XI (XO XH)))))))
| Xbd -> Npos (XI (XO (XI (XI (XI (XI (XO XH)))))))
| Xbe -> Npos (XO (XI (XI (XI (XI (XI (XO XH)))))))
| Xbf -> Npos (XI (XI (XI (XI (XI (XI (XO XH)))))))
| Xc0 -> Npos (XO (XO (XO (XO (XO (XO (XI XH)))))))
| Xc1 -> Npos (XI (XO (XO (XO (XO (XO (XI XH)))))))
| Xc2 -> Npos (XO (XI (XO (XO (XO (XO (XI XH)))))))
| Xc3 -> Npos (XI (XI (XO (XO (XO (XO (XI XH)))))))
| Xc4 -> Npos (XO (XO (XI (XO (XO (XO (XI XH)))))))
| Xc5 -> Npos (XI (XO (XI (XO (XO (XO (XI XH)))))))
| Xc6 -> Npos (XO (XI (XI (XO (XO (XO (XI XH)))))))
| Xc7 -> Npos (XI (XI (XI (XO (XO (XO (XI XH)))))))
| Xc8 -> Npos (XO (XO (XO (XI (XO (XO (XI XH)))))))
| Xc9 -> Npos (XI (XO (XO (XI (XO (XO (XI XH)))))))
| Xca -> Npos (XO (XI (XO (XI (XO (XO (XI XH)))))))
| Xcb -> Npos (XI (XI (XO (XI (XO (XO (XI XH)))))))
| Xcc -> Npos (XO (XO (XI (XI (XO (XO (XI XH)))))))
| Xcd -> Npos (XI (XO (XI (XI (XO (XO (XI XH)))))))
| Xce -> Npos (XO (XI (XI (XI (XO (XO (XI XH)))))))
| Xcf -> Npos (XI (XI (XI (XI (XO (XO (XI XH)))))))
| Xd0 -> Npos (XO (XO (XO (XO (XI (XO (XI XH)))))))
| Xd1 -> Npos (XI (XO (XO (XO (XI (XO (XI XH)))))))
| Xd2 -> Npos (XO (XI (XO (XO (XI (XO (XI XH)))))))
| Xd3 -> Npos (XI (XI (XO (XO (XI (XO (XI XH)))))))
| Xd4 -> Npos (XO (XO (XI (XO (XI (XO (XI XH)))))))
| Xd5 -> Npos (XI (XO (XI (XO (XI (XO (XI XH)))))))
| Xd6 -> Npos (XO (XI (XI (XO (XI (XO (XI XH)))))))
| Xd7 -> Npos (XI (XI (XI (XO (XI (XO (XI XH)))))))
| Xd8 -> Npos (XO (XO (XO (XI (XI (XO (XI XH)))))))
| Xd9 -> Npos (XI (XO (XO (XI (XI (XO (XI XH)))))))
| Xda -> Npos (XO (XI (XO (XI (XI (XO (XI XH)))))))
| Xdb -> Npos (XI (XI (XO (XI (XI (XO (XI XH)))))))
| Xdc -> Npos (XO (XO (XI (XI (XI (XO (XI XH)))))))
| Xdd -> Npos (XI (XO (XI (XI (XI (XO (XI XH)))))))
| Xde -> Npos (XO (XI (XI (XI (XI (XO (XI XH)))))))
| Xdf -> Npos (XI (XI (XI (XI (XI (XO (XI XH)))))))
| Xe0 -> Npos (XO (XO (XO (XO (XO (XI (XI XH)))))))
| Xe1 -> Npos (XI (XO (XO (XO (XO (XI (XI XH)))))))
| Xe2 -> Npos (XO (XI (XO (XO (XO (XI (XI XH)))))))
| Xe3 -> Npos (XI (XI (XO (XO (XO (XI (XI XH)))))))
| Xe4 -> Npos (XO (XO (XI (XO (XO (XI (XI XH)))))))
| Xe5 -> Npos (XI (XO (XI (XO (XO (XI (XI XH)))))))
| Xe6 -> Npos (XO (XI (XI (XO (XO (XI (XI XH)))))))
| Xe7 -> Npos (XI (XI (XI (XO (XO (XI (XI XH)))))))
| Xe8 -> Npos (XO (XO (XO (XI (XO (XI (XI XH)))))))
| Xe9 -> Npos (XI (XO (XO (XI (XO (XI (XI XH)))))))
| Xea -> Npos (XO (XI (XO (XI (XO (XI (XI XH)))))))
| Xeb -> Npos (XI (XI (XO (XI (XO (XI (XI XH)))))))
| Xec -> Npos (XO (XO (XI (XI (XO (XI (XI XH)))))))
| Xed -> Npos (XI (XO (XI (XI (XO (XI (XI XH)))))))
| Xee -> Npos (XO (XI (XI (XI (XO (XI (XI XH)))))))
| Xef -> Npos (XI (XI (XI (XI (XO (XI (XI XH)))))))
| Xf0 -> Npos (XO (XO (XO (XO (XI (XI (XI XH)))))))
| Xf1 -> Npos (XI (XO (XO (XO (XI (XI (XI XH)))))))
| Xf2 -> Npos (XO (XI (XO (XO (XI (XI (XI XH)))))))
| Xf3 -> Npos (XI (XI (XO (XO (XI (XI (XI XH)))))))
| Xf4 -> Npos (XO (XO (XI (XO (XI (XI (XI XH)))))))
| Xf5 -> Npos (XI (XO (XI (XO (XI (XI (XI XH)))))))
| Xf6 -> Npos (XO (XI (XI (XO (XI (XI (XI XH)))))))
| Xf7 -> Npos (XI (XI (XI (XO (XI (XI (XI XH)))))))
| Xf8 -> Npos (XO (XO (XO (XI (XI (XI (XI XH)))))))
| Xf9 -> Npos (XI (XO (XO (XI (XI (XI (XI XH)))))))
| Xfa -> Npos (XO (XI (XO (XI (XI (XI (XI XH)))))))
| Xfb -> Npos (XI (XI (XO (XI (XI (XI (XI XH)))))))
| Xfc -> Npos (XO (XO (XI (XI (XI (XI (XI XH)))))))
| Xfd -> Npos (XI (XO (XI (XI (XI (XI (XI XH)))))))
| Xfe -> Npos (XO (XI (XI (XI (XI (XI (XI XH)))))))
| Xff -> Npos (XI (XI (XI (XI (XI (XI (XI XH)))))))

type ascii =
| Ascii of bool * bool * bool * bool * bool * bool * bool * bool

(** val eqb0 : ascii -> ascii -> bool **)

let eqb0 a b =
  let Ascii (a0, a1, a2, a3, a4, a5, a6, a7) = a in
  let Ascii (b0, b1, b2, b3, b4, b5, b6, b7) = b in
  if if if if if if if eqb a0 b0 then eqb a1 b1 else false
                 then eqb a2 b2
                 else false
              then eqb a3 b3
              else false
           then eqb a4 b4
           else false
        then eqb a5 b5
        else false
     then eqb a6 b6
     else false
  then eqb a7 b7
  else false

(** val byte_of_ascii : ascii -> byte **)

let byte_of_ascii = function
| Ascii (b0, b1, b2, b3, b4, b5, b6, b7) ->
  of_bits (b0, (b1, (b2, (b3, (b4, (b5, (b6, b7)))))))

type string =
| EmptyString
| String of ascii * string

(** val eqb1 : string -> string -> bool **)

let rec eqb1 s1 s2 =
  match s1 with
  | EmptyString ->
    (match s2 with
     | EmptyString -> true
     | String (_, _) -> false)
  | String (c1, s1') ->
    (match s2 with
     | EmptyString -> false
     | String (c2, s2') -> if eqb0 c1 c2 then eqb1 s1' s2' else false)

(** val list_ascii_of_string : string -> ascii list **)

let rec list_ascii_of_string = function
| EmptyString -> []
| String (ch, s0) -> ch :: (list_ascii_of_string s0)

(** val list_byte_of_string : string -> byte list **)

let list_byte_of_string s =
  map byte_of_ascii (list_ascii_of_string s)

(** val bytes_of_string : string -> n list **)

let bytes_of_string s =
  map to_N (list_byte_of_string s)

(** val bS : string -> n list **)

let bS =
  bytes_of_string

(** val bytes_eqb : n list -> n list -> bool **)

let rec bytes_eqb a b =
  match a with
  | [] -> (match b with
           | [] -> true
           | _ :: _ -> false)
  | x :: a' ->
    (match b with
     | [] -> false
     | y :: b' -> (&&) (N.eqb x y) (bytes_eqb a' b'))

(** val nth_opt : 'a1 list -> nat -> 'a1 option **)

let rec nth_opt l n0 =
  match l with
  | [] -> None
  | x :: l' -> (match n0 with
                | O -> Some x
                | S n' -> nth_opt l' n')

type 'a res =
| Val of 'a
| Pan of string
| Fuel

(** val bind : 'a1 res -> ('a1 -> 'a2 res) -> 'a2 res **)

let bind m0 f =
  match m0 with
  | Val a -> f a
  | Pan s -> Pan s
  | Fuel -> Fuel

(** val unwrap : string -> 'a1 option -> 'a1 res **)

let unwrap site = function
| Some a -> Val a
| None -> Pan site

(** val hASHCONST1 : n **)

let hASHCONST1 =
  Npos (XO (XI (XO (XO (XI (XI (XO (XI (XI (XO (XO (XI (XO (XI (XI (XO (XO
    (XO (XI (XI (XI (XO (XO (XO (XO (XO (XI (XO (XI (XO
    XH))))))))))))))))))))))))))))))

(** val hASHCONST2 : n **)

let hASHCONST2 =
  Npos (XI (XI (XO (XI (XI (XO (XO (XO (XO (XI (XI (XO (XI (XO (XO (XO (XI
    (XI (XI (XO (XI (XO (XO (XO (XI (XI (XO (XI (XI
    XH)))))))))))))))))))))))))))))

(** val sEED1 : n **)

let sEED1 =
  Npos (XI (XI (XO (XO (XO (XI (XI (XO (XO (XO (XI (XI (XI (XI (XO (XO (XO
    (XO (XI (XO (XI (XO (XO (XO (XI (XI (XO (XO (XI
    XH)))))))))))))))))))))))))))))

(** val sEED2 : n **)

let sEED2 =
  Npos (XO (XI (XI (XI (XI (XO (XO (XO (XO (XI (XO (XO (XI (XI (XO (XI (XO
    (XO (XO (XO (XI (XI (XO (XI (XO (XO (XO (XI (XO (XO (XO
    XH)))))))))))))))))))))))))))))))

(** val rOT1 : n **)

let rOT1 =
  Npos (XI (XO XH))

(** val rOT2 : n **)

let rOT2 =
  Npos (XO (XI XH))

(** val m32 : n **)

let m32 =
  Npos (XO (XO (XO (XO (XO (XO (XO (XO (XO (XO (XO (XO (XO (XO (XO (XO (XO
    (XO (XO (XO (XO (XO (XO (XO (XO (XO (XO (XO (XO (XO (XO (XO
    XH))))))))))))))))))))))))))))))))

(** val rotl32 : n -> n -> n **)

let rotl32 x k =
  N.coq_lor (N.modulo (N.shiftl x k) m32)
    (N.shiftr x (N.sub (Npos (XO (XO (XO (XO (XO XH)))))) k))

(** val mix : n -> n -> n -> n -> n **)

let mix f rot val0 c =
  N.modulo (N.mul (N.coq_lxor (rotl32 f rot) val0) c) m32

(** val hash_loop : n list -> n -> n -> n * n **)

let rec hash_loop data f1 f2 =
  match data with
  | [] -> (f1, f2)
  | b :: l ->
    (match l with
     | [] -> ((mix f1 rOT1 b hASHCONST1), (mix f2 rOT2 b hASHCONST2))
     | b1 :: rest ->
       (match rest with
        | [] ->
          let val0 =
            N.add b
              (N.mul (Npos (XO (XO (XO (XO (XO (XO (XO (XO XH))))))))) b1)
          in
          let f3 = mix f1 rOT1 val0 hASHCONST1 in
          let f4 = mix f2 rOT2 val0 hASHCONST2 in
          (match rest with
           | [] -> (f3, f4)
           | b0 :: _ ->
             ((mix f3 rOT1 b0 hASHCONST1), (mix f4 rOT2 b0 hASHCONST2)))
        | b2 :: l0 ->
          (match l0 with
           | [] ->
             let val0 =
               N.add b
                 (N.mul (Npos (XO (XO (XO (XO (XO (XO (XO (XO XH))))))))) b1)
             in
             let f3 = mix f1 rOT1 val0 hASHCONST1 in
             let f4 = mix f2 rOT2 val0 hASHCONST2 in
             (match rest with
              | [] -> (f3, f4)
              | b0 :: _ ->
                ((mix f3 rOT1 b0 hASHCONST1), (mix f4 rOT2 b0 hASHCONST2)))
           | b3 :: rest0 ->
             let val0 =
               N.add
                 (N.add
                   (N.add b
                     (N.mul (Npos (XO (XO (XO (XO (XO (XO (XO (XO XH)))))))))
                       b1))
                   (N.mul (Npos (XO (XO (XO (XO (XO (XO (XO (XO (XO (XO (XO
                     (XO (XO (XO (XO (XO XH))))))))))))))))) b2))
                 (N.mul (Npos (XO (XO (XO (XO (XO (XO (XO (XO (XO (XO (XO (XO
                   (XO (XO (XO (XO (XO (XO (XO (XO (XO (XO (XO (XO
                   XH))))))))))))))))))))))))) b3)
             in
             hash_loop rest0 (mix f1 rOT1 val0 hASHCONST1)
               (mix f2 rOT2 val0 hASHCONST2))))

(** val hashfunc : n list -> (n * n) * n **)

let hashfunc data =
  let (f1, f2) = hash_loop data sEED1 sEED2 in (((N.coq_lxor f1 f2), f1), f2)

type nametab = { nt_strtab : n list list; nt_disp : (n * n) list;
                 nt_mdisp : n; nt_mtab : n }

type 'a outcome =
| Ok of 'a
| Err
| Panic

(** val from_bytes : nametab -> n list -> n outcome **)

let from_bytes t input =
  let (p, f2) = hashfunc input in
  let (g, f1) = p in
  if N.eqb t.nt_mdisp N0
  then Panic
  else (match nth_opt t.nt_disp (N.to_nat (N.modulo g t.nt_mdisp)) with
        | Some p0 ->
          let (d1, d2) = p0 in
          if N.eqb t.nt_mtab N0
          then Panic
          else let item_idx =
                 N.modulo
                   (N.modulo
                     (N.add
                       (N.modulo (N.add d2 (N.modulo (N.mul f1 d1) m32)) m32)
                       f2) m32) t.nt_mtab
               in
               (match nth_opt t.nt_strtab (N.to_nat item_idx) with
                | Some str -> if bytes_eqb str input then Ok item_idx else Err
                | None -> Panic)
        | None -> Panic)

(** val to_str : nametab -> n -> n list option **)

let to_str t d =
  nth_opt t.nt_strtab (N.to_nat d)

type cdspec =
| CEnum of (n * n) list
| CPattern of n * n option
| CString of bool * n option
| CUInt
| CFloat

type elemdef = { ed_name : n; ed_type : n; ed_mult : n; ed_ordered : 
                 n; ed_split : n; ed_restrict : n }

type dtype = { dt_sub_start : n; dt_sub_end : n; dt_sub_ver : n;
               dt_attr_start : n; dt_attr_end : n; dt_attr_ver : n;
               dt_cdata : n; dt_mode : n; dt_ref_start : n; dt_ref_end : 
               n }

type tables = { t_elements : (n -> elemdef option); n_elements : n;
                t_subelements : (n -> (n * n) option); n_subelements : 
                n; t_attributes : (n -> ((n * n) * n) option);
                n_attributes : n; t_version_info : (n -> n option);
                n_version_info : n; t_datatypes : (n -> dtype option);
                n_datatypes : n; t_ref_items : (n -> n option);
                n_ref_items : n; t_cdata : (n -> cdspec option); n_cdata : 
                n; reference_type_idx : n; autosar_element : n;
                name_short_name : n; attr_dest : n }

(** val mSequence : n **)

let mSequence =
  N0

(** val mChoice : n **)

let mChoice =
  Npos XH

(** val mCharacters : n **)

let mCharacters =
  Npos (XI XH)

(** val mMixed : n **)

let mMixed =
  Npos (XO (XO XH))

type etype = n * n

(** val elem : tables -> n -> elemdef res **)

let elem t i =
  unwrap (String ((Ascii (true, false, true, false, false, false, true,
    false)), (String ((Ascii (false, false, true, true, false, false, true,
    false)), (String ((Ascii (true, false, true, false, false, false, true,
    false)), (String ((Ascii (true, false, true, true, false, false, true,
    false)), (String ((Ascii (true, false, true, false, false, false, true,
    false)), (String ((Ascii (false, true, true, true, false, false, true,
    false)), (String ((Ascii (false, false, true, false, true, false, true,
    false)), (String ((Ascii (true, true, false, false, true, false, true,
    false)), (String ((Ascii (true, true, false, true, true, false, true,
    false)), (String ((Ascii (true, false, false, true, false, true, true,
    false)), (String ((Ascii (true, false, true, true, true, false, true,
    false)), EmptyString)))))))))))))))))))))) (t.t_elements i)

(** val dt : tables -> n -> dtype res **)

let dt t i =
  unwrap (String ((Ascii (false, false, true, false, false, false, true,
    false)), (String ((Ascii (true, false, false, false, false, false, true,
    false)), (String ((Ascii (false, false, true, false, true, false, true,
    false)), (String ((Ascii (true, false, false, false, false, false, true,
    false)), (String ((Ascii (false, false, true, false, true, false, true,
    false)), (String ((Ascii (true, false, false, true, true, false, true,
    false)), (String ((Ascii (false, false, false, false, true, false, true,
    false)), (String ((Ascii (true, false, true, false, false, false, true,
    false)), (String ((Ascii (true, true, false, false, true, false, true,
    false)), (String ((Ascii (true, true, false, true, true, false, true,
    false)), (String ((Ascii (true, false, false, true, false, true, true,
    false)), (String ((Ascii (true, false, true, true, true, false, true,
    false)), EmptyString)))))))))))))))))))))))) (t.t_datatypes i)

(** val vinfo : tables -> n -> n res **)

let vinfo t i =
  unwrap (String ((Ascii (false, true, true, false, true, false, true,
    false)), (String ((Ascii (true, false, true, false, false, false, true,
    false)), (String ((Ascii (false, true, false, false, true, false, true,
    false)), (String ((Ascii (true, true, false, false, true, false, true,
    false)), (String ((Ascii (true, false, false, true, false, false, true,
    false)), (String ((Ascii (true, true, true, true, false, false, true,
    false)), (String ((Ascii (false, true, true, true, false, false, true,
    false)), (String ((Ascii (true, true, true, true, true, false, true,
    false)), (String ((Ascii (true, false, false, true, false, false, true,
    false)), (String ((Ascii (false, true, true, true, false, false, true,
    false)), (String ((Ascii (false, true, true, false, false, false, true,
    false)), (String ((Ascii (true, true, true, true, false, false, true,
    false)), (String ((Ascii (true, true, false, true, true, false, true,
    false)), (String ((Ascii (true, false, false, true, false, true, true,
    false)), (String ((Ascii (true, false, true, true, true, false, true,
    false)), EmptyString)))))))))))))))))))))))))))))) (t.t_version_info i)

(** val subel : tables -> n -> (n * n) res **)

let subel t i =
  unwrap (String ((Ascii (true, true, false, false, true, false, true,
    false)), (String ((Ascii (true, false, true, false, true, false, true,
    false)), (String ((Ascii (false, true, false, false, false, false, true,
    false)), (String ((Ascii (true, false, true, false, false, false, true,
    false)), (String ((Ascii (false, false, true, true, false, false, true,
    false)), (String ((Ascii (true, false, true, false, false, false, true,
    false)), (String ((Ascii (true, false, true, true, false, false, true,
    false)), (String ((Ascii (true, false, true, false, false, false, true,
    false)), (String ((Ascii (false, true, true, true, false, false, true,
    false)), (String ((Ascii (false, false, true, false, true, false, true,
    false)), (String ((Ascii (true, true, false, false, true, false, true,
    false)), (String ((Ascii (true, true, false, true, true, false, true,
    false)), (String ((Ascii (true, false, false, true, false, true, true,
    false)), (String ((Ascii (true, false, true, true, true, false, true,
    false)), EmptyString)))))))))))))))))))))))))))) (t.t_subelements i)

(** val et_new : tables -> n -> etype res **)

let et_new t def =
  bind (elem t def) (fun e -> Val (def, e.ed_type))

(** val slice_chk : string -> n -> n -> n -> unit res **)

let slice_chk site start stop len =
  if (||) (N.ltb stop start) (N.ltb len stop) then Pan site else Val ()

(** val sub_slice : tables -> n -> ((n * n) * dtype) res **)

let sub_slice t ty =
  bind (dt t ty) (fun d ->
    bind
      (slice_chk (String ((Ascii (true, true, false, false, true, false,
        true, false)), (String ((Ascii (true, false, true, false, true,
        false, true, false)), (String ((Ascii (false, true, false, false,
        false, false, true, false)), (String ((Ascii (true, false, true,
        false, false, false, true, false)), (String ((Ascii (false, false,
        true, true, false, false, true, false)), (String ((Ascii (true,
        false, true, false, false, false, true, false)), (String ((Ascii
        (true, false, true, true, false, false, true, false)), (String
        ((Ascii (true, false, true, false, false, false, true, false)),
        (String ((Ascii (false, true, true, true, false, false, true,
        false)), (String ((Ascii (false, false, true, false, true, false,
        true, false)), (String ((Ascii (true, true, false, false, true,
        false, true, false)), (String ((Ascii (true, true, false, true, true,
        false, true, false)), (String ((Ascii (true, false, false, false,
        false, true, true, false)), (String ((Ascii (false, true, true, true,
        false, true, false, false)), (String ((Ascii (false, true, true,
        true, false, true, false, false)), (String ((Ascii (false, true,
        false, false, false, true, true, false)), (String ((Ascii (true,
        false, true, true, true, false, true, false)),
        EmptyString)))))))))))))))))))))))))))))))))) d.dt_sub_start
        d.dt_sub_end t.n_subelements) (fun _ -> Val ((d.dt_sub_start,
      d.dt_sub_end), d)))

(** val find_sub :
    tables -> nat -> n -> n -> n -> (etype * n list) option res **)

let rec find_sub t fuel ty target version =
  match fuel with
  | O -> Fuel
  | S fuel' ->
    bind (sub_slice t ty) (fun x ->
      let (p, d) = x in
      let (start, stop) = p in
      let rec loop k pos =
        match k with
        | O -> Val None
        | S k' ->
          bind (subel t (N.add start pos)) (fun x0 ->
            let (kind, idx) = x0 in
            if N.eqb kind N0
            then bind (elem t idx) (fun e ->
                   bind (vinfo t (N.add d.dt_sub_ver pos)) (fun mask0 ->
                     if (&&) (N.eqb e.ed_name target)
                          (negb (N.eqb (N.coq_land version mask0) N0))
                     then bind (et_new t idx) (fun et -> Val (Some (et,
                            (pos :: []))))
                     else loop k' (N.add pos (Npos XH))))
            else (match find_sub t fuel' idx target version with
                  | Val a ->
                    (match a with
                     | Some p0 ->
                       let (et, ixs) = p0 in Val (Some (et, (pos :: ixs)))
                     | None -> loop k' (N.add pos (Npos XH)))
                  | x1 -> x1))
      in loop (N.to_nat (N.sub stop start)) N0)

(** val fUEL : nat **)

let fUEL =
  S (S (S (S (S (S (S (S (S (S (S (S (S (S (S (S (S (S (S (S (S (S (S (S
    O)))))))))))))))))))))))

(** val find_sub_element :
    tables -> etype -> n -> n -> (etype * n list) option res **)

let find_sub_element t t0 target version =
  find_sub t fUEL (snd t0) target version

(** val short_name_version_mask : tables -> n -> n option res **)

let short_name_version_mask t ty =
  bind (sub_slice t ty) (fun x ->
    let (p, d) = x in
    let (start, stop) = p in
    if N.eqb start stop
    then Val None
    else bind (subel t start) (fun x0 ->
           let (kind, idx) = x0 in
           if N.eqb kind N0
           then bind (elem t idx) (fun e ->
                  if N.eqb e.ed_name t.name_short_name
                  then bind (vinfo t d.dt_sub_ver) (fun m0 -> Val (Some m0))
                  else Val None)
           else Val None))

(** val is_named_in_version : tables -> etype -> n -> bool res **)

let is_named_in_version t t0 v =
  bind (short_name_version_mask t (snd t0)) (fun m0 -> Val
    (match m0 with
     | Some mask0 -> negb (N.eqb (N.coq_land mask0 v) N0)
     | None -> false))

(** val walk_groups : tables -> n -> n list -> ((n * n) * n) option res **)

let rec walk_groups t cur_ty = function
| [] -> Val None
| i :: rest ->
  (match rest with
   | [] ->
     bind (sub_slice t cur_ty) (fun x ->
       let (p, d) = x in
       let (start, stop) = p in
       if N.leb (N.sub stop start) i
       then Pan (String ((Ascii (true, true, false, false, false, true, true,
              false)), (String ((Ascii (true, false, true, false, true, true,
              true, false)), (String ((Ascii (false, true, false, false,
              true, true, true, false)), (String ((Ascii (false, true, false,
              false, true, true, true, false)), (String ((Ascii (true, false,
              true, false, false, true, true, false)), (String ((Ascii
              (false, true, true, true, false, true, true, false)), (String
              ((Ascii (false, false, true, false, true, true, true, false)),
              (String ((Ascii (true, true, true, true, true, false, true,
              false)), (String ((Ascii (true, true, false, false, true, true,
              true, false)), (String ((Ascii (false, false, false, false,
              true, true, true, false)), (String ((Ascii (true, false, true,
              false, false, true, true, false)), (String ((Ascii (true, true,
              false, false, false, true, true, false)), (String ((Ascii
              (true, true, false, true, true, false, true, false)), (String
              ((Ascii (false, false, true, true, false, true, true, false)),
              (String ((Ascii (true, false, false, false, false, true, true,
              false)), (String ((Ascii (true, true, false, false, true, true,
              true, false)), (String ((Ascii (false, false, true, false,
              true, true, true, false)), (String ((Ascii (true, true, true,
              true, true, false, true, false)), (String ((Ascii (true, false,
              false, true, false, true, true, false)), (String ((Ascii
              (false, false, true, false, false, true, true, false)), (String
              ((Ascii (false, false, false, true, true, true, true, false)),
              (String ((Ascii (true, false, true, true, true, false, true,
              false)), EmptyString))))))))))))))))))))))))))))))))))))))))))))
       else bind (subel t (N.add start i)) (fun se ->
              bind (vinfo t (N.add d.dt_sub_ver i)) (fun m0 -> Val (Some (se,
                m0)))))
   | _ :: _ ->
     bind (sub_slice t cur_ty) (fun x ->
       let (p, _) = x in
       let (start, stop) = p in
       if N.leb (N.sub stop start) i
       then Pan (String ((Ascii (true, true, false, false, false, true, true,
              false)), (String ((Ascii (true, false, true, false, true, true,
              true, false)), (String ((Ascii (false, true, false, false,
              true, true, true, false)), (String ((Ascii (false, true, false,
              false, true, true, true, false)), (String ((Ascii (true, false,
              true, false, false, true, true, false)), (String ((Ascii
              (false, true, true, true, false, true, true, false)), (String
              ((Ascii (false, false, true, false, true, true, true, false)),
              (String ((Ascii (true, true, true, true, true, false, true,
              false)), (String ((Ascii (true, true, false, false, true, true,
              true, false)), (String ((Ascii (false, false, false, false,
              true, true, true, false)), (String ((Ascii (true, false, true,
              false, false, true, true, false)), (String ((Ascii (true, true,
              false, false, false, true, true, false)), (String ((Ascii
              (true, true, false, true, true, false, true, false)), (String
              ((Ascii (true, false, true, false, false, true, true, false)),
              (String ((Ascii (false, false, true, true, false, true, true,
              false)), (String ((Ascii (true, false, true, false, false,
              true, true, false)), (String ((Ascii (true, false, true, true,
              false, true, true, false)), (String ((Ascii (true, false, true,
              false, false, true, true, false)), (String ((Ascii (false,
              true, true, true, false, true, true, false)), (String ((Ascii
              (false, false, true, false, true, true, true, false)), (String
              ((Ascii (true, true, true, true, true, false, true, false)),
              (String ((Ascii (true, false, false, true, false, true, true,
              false)), (String ((Ascii (false, true, true, true, false, true,
              true, false)), (String ((Ascii (false, false, true, false,
              false, true, true, false)), (String ((Ascii (true, false,
              false, true, false, true, true, false)), (String ((Ascii (true,
              true, false, false, false, true, true, false)), (String ((Ascii
              (true, false, true, false, false, true, true, false)), (String
              ((Ascii (true, true, false, false, true, true, true, false)),
              (String ((Ascii (true, true, false, true, true, false, true,
              false)), (String ((Ascii (true, false, false, true, false,
              true, true, false)), (String ((Ascii (false, false, true,
              false, false, true, true, false)), (String ((Ascii (false,
              false, false, true, true, true, true, false)), (String ((Ascii
              (true, false, true, true, true, false, true, false)), (String
              ((Ascii (true, false, true, true, true, false, true, false)),
              EmptyString))))))))))))))))))))))))))))))))))))))))))))))))))))))))))))))))))))
       else bind (subel t (N.add start i)) (fun x0 ->
              let (kind, idx) = x0 in
              if N.eqb kind N0 then Val None else walk_groups t idx rest)))

(** val get_sub_element_spec :
    tables -> etype -> n list -> ((n * n) * n) option res **)

let get_sub_element_spec t t0 ixs = match ixs with
| [] -> Val None
| _ :: _ -> bind (sub_slice t (snd t0)) (fun _ -> walk_groups t (snd t0) ixs)

(** val get_sub_element_version_mask :
    tables -> etype -> n list -> n option res **)

let get_sub_element_version_mask t t0 ixs =
  bind (get_sub_element_spec t t0 ixs) (fun r -> Val (option_map snd r))

(** val get_sub_element_multiplicity :
    tables -> etype -> n list -> n option res **)

let get_sub_element_multiplicity t t0 ixs =
  bind (get_sub_element_spec t t0 ixs) (fun r ->
    match r with
    | Some p ->
      let (p0, _) = p in
      let (n0, def) = p0 in
      (match n0 with
       | N0 -> bind (elem t def) (fun e -> Val (Some e.ed_mult))
       | Npos _ -> Val None)
    | None -> Val None)

(** val get_sub_element_container_mode :
    tables -> etype -> n list -> n res **)

let get_sub_element_container_mode t t0 ixs =
  if N.ltb (N.of_nat (length ixs)) (Npos (XO XH))
  then bind (dt t (snd t0)) (fun d -> Val d.dt_mode)
  else bind (get_sub_element_spec t t0 (removelast ixs)) (fun r ->
         match r with
         | Some p ->
           let (p0, _) = p in
           let (n0, gid) = p0 in
           (match n0 with
            | N0 ->
              Pan (String ((Ascii (true, false, true, false, true, true,
                true, false)), (String ((Ascii (false, true, true, true,
                false, true, true, false)), (String ((Ascii (false, true,
                false, false, true, true, true, false)), (String ((Ascii
                (true, false, true, false, false, true, true, false)),
                (String ((Ascii (true, false, false, false, false, true,
                true, false)), (String ((Ascii (true, true, false, false,
                false, true, true, false)), (String ((Ascii (false, false,
                false, true, false, true, true, false)), (String ((Ascii
                (true, false, false, false, false, true, true, false)),
                (String ((Ascii (false, true, false, false, false, true,
                true, false)), (String ((Ascii (false, false, true, true,
                false, true, true, false)), (String ((Ascii (true, false,
                true, false, false, true, true, false)), (String ((Ascii
                (false, true, false, true, true, true, false, false)),
                (String ((Ascii (false, false, false, false, false, true,
                false, false)), (String ((Ascii (true, false, true, false,
                false, true, true, false)), (String ((Ascii (false, false,
                true, true, false, true, true, false)), (String ((Ascii
                (true, false, true, false, false, true, true, false)),
                (String ((Ascii (true, false, true, true, false, true, true,
                false)), (String ((Ascii (true, false, true, false, false,
                true, true, false)), (String ((Ascii (false, true, true,
                true, false, true, true, false)), (String ((Ascii (false,
                false, true, false, true, true, true, false)), (String
                ((Ascii (false, false, false, false, false, true, false,
                false)), (String ((Ascii (true, true, false, false, false,
                true, true, false)), (String ((Ascii (true, true, true, true,
                false, true, true, false)), (String ((Ascii (false, true,
                true, true, false, true, true, false)), (String ((Ascii
                (false, false, true, false, true, true, true, false)),
                (String ((Ascii (true, false, false, false, false, true,
                true, false)), (String ((Ascii (true, false, false, true,
                false, true, true, false)), (String ((Ascii (false, true,
                true, true, false, true, true, false)), (String ((Ascii
                (true, false, true, false, false, true, true, false)),
                (String ((Ascii (false, true, false, false, true, true, true,
                false)), (String ((Ascii (false, false, false, false, false,
                true, false, false)), (String ((Ascii (true, false, false,
                true, false, true, true, false)), (String ((Ascii (true,
                true, false, false, true, true, true, false)), (String
                ((Ascii (false, false, false, false, false, true, false,
                false)), (String ((Ascii (false, true, true, true, false,
                true, true, false)), (String ((Ascii (true, true, true, true,
                false, true, true, false)), (String ((Ascii (false, false,
                true, false, true, true, true, false)), (String ((Ascii
                (false, false, false, false, false, true, false, false)),
                (String ((Ascii (true, false, false, false, false, true,
                true, false)), (String ((Ascii (false, false, false, false,
                false, true, false, false)), (String ((Ascii (true, true,
                true, false, false, true, true, false)), (String ((Ascii
                (false, true, false, false, true, true, true, false)),
                (String ((Ascii (true, true, true, true, false, true, true,
                false)), (String ((Ascii (true, false, true, false, true,
                true, true, false)), (String ((Ascii (false, false, false,
                false, true, true, true, false)),
                EmptyString))))))))))))))))))))))))))))))))))))))))))))))))))))))))))))))))))))))))))))))))))))))))))
            | Npos p1 ->
              (match p1 with
               | XH -> bind (dt t gid) (fun d -> Val d.dt_mode)
               | _ ->
                 Pan (String ((Ascii (true, false, true, false, true, true,
                   true, false)), (String ((Ascii (false, true, true, true,
                   false, true, true, false)), (String ((Ascii (false, true,
                   false, false, true, true, true, false)), (String ((Ascii
                   (true, false, true, false, false, true, true, false)),
                   (String ((Ascii (true, false, false, false, false, true,
                   true, false)), (String ((Ascii (true, true, false, false,
                   false, true, true, false)), (String ((Ascii (false, false,
                   false, true, false, true, true, false)), (String ((Ascii
                   (true, false, false, false, false, true, true, false)),
                   (String ((Ascii (false, true, false, false, false, true,
                   true, false)), (String ((Ascii (false, false, true, true,
                   false, true, true, false)), (String ((Ascii (true, false,
                   true, false, false, true, true, false)), (String ((Ascii
                   (false, true, false, true, true, true, false, false)),
                   (String ((Ascii (false, false, false, false, false, true,
                   false, false)), (String ((Ascii (true, false, true, false,
                   false, true, true, false)), (String ((Ascii (false, false,
                   true, true, false, true, true, false)), (String ((Ascii
                   (true, false, true, false, false, true, true, false)),
                   (String ((Ascii (true, false, true, true, false, true,
                   true, false)), (String ((Ascii (true, false, true, false,
                   false, true, true, false)), (String ((Ascii (false, true,
                   true, true, false, true, true, false)), (String ((Ascii
                   (false, false, true, false, true, true, true, false)),
                   (String ((Ascii (false, false, false, false, false, true,
                   false, false)), (String ((Ascii (true, true, false, false,
                   false, true, true, false)), (String ((Ascii (true, true,
                   true, true, false, true, true, false)), (String ((Ascii
                   (false, true, true, true, false, true, true, false)),
                   (String ((Ascii (false, false, true, false, true, true,
                   true, false)), (String ((Ascii (true, false, false, false,
                   false, true, true, false)), (String ((Ascii (true, false,
                   false, true, false, true, true, false)), (String ((Ascii
                   (false, true, true, true, false, true, true, false)),
                   (String ((Ascii (true, false, true, false, false, true,
                   true, false)), (String ((Ascii (false, true, false, false,
                   true, true, true, false)), (String ((Ascii (false, false,
                   false, false, false, true, false, false)), (String ((Ascii
                   (true, false, false, true, false, true, true, false)),
                   (String ((Ascii (true, true, false, false, true, true,
                   true, false)), (String ((Ascii (false, false, false,
                   false, false, true, false, false)), (String ((Ascii
                   (false, true, true, true, false, true, true, false)),
                   (String ((Ascii (true, true, true, true, false, true,
                   true, false)), (String ((Ascii (false, false, true, false,
                   true, true, true, false)), (String ((Ascii (false, false,
                   false, false, false, true, false, false)), (String ((Ascii
                   (true, false, false, false, false, true, true, false)),
                   (String ((Ascii (false, false, false, false, false, true,
                   false, false)), (String ((Ascii (true, true, true, false,
                   false, true, true, false)), (String ((Ascii (false, true,
                   false, false, true, true, true, false)), (String ((Ascii
                   (true, true, true, true, false, true, true, false)),
                   (String ((Ascii (true, false, true, false, true, true,
                   true, false)), (String ((Ascii (false, false, false,
                   false, true, true, true, false)),
                   EmptyString))))))))))))))))))))))))))))))))))))))))))))))))))))))))))))))))))))))))))))))))))))))))))))
         | None ->
           Pan (String ((Ascii (true, false, true, false, true, true, true,
             false)), (String ((Ascii (false, true, true, true, false, true,
             true, false)), (String ((Ascii (false, true, false, false, true,
             true, true, false)), (String ((Ascii (true, false, true, false,
             false, true, true, false)), (String ((Ascii (true, false, false,
             false, false, true, true, false)), (String ((Ascii (true, true,
             false, false, false, true, true, false)), (String ((Ascii
             (false, false, false, true, false, true, true, false)), (String
             ((Ascii (true, false, false, false, false, true, true, false)),
             (String ((Ascii (false, true, false, false, false, true, true,
             false)), (String ((Ascii (false, false, true, true, false, true,
             true, false)), (String ((Ascii (true, false, true, false, false,
             true, true, false)), (String ((Ascii (false, true, false, true,
             true, true, false, false)), (String ((Ascii (false, false,
             false, false, false, true, false, false)), (String ((Ascii
             (true, false, true, false, false, true, true, false)), (String
             ((Ascii (false, false, true, true, false, true, true, false)),
             (String ((Ascii (true, false, true, false, false, true, true,
             false)), (String ((Ascii (true, false, true, true, false, true,
             true, false)), (String ((Ascii (true, false, true, false, false,
             true, true, false)), (String ((Ascii (false, true, true, true,
             false, true, true, false)), (String ((Ascii (false, false, true,
             false, true, true, true, false)), (String ((Ascii (false, false,
             false, false, false, true, false, false)), (String ((Ascii
             (true, true, false, false, false, true, true, false)), (String
             ((Ascii (true, true, true, true, false, true, true, false)),
             (String ((Ascii (false, true, true, true, false, true, true,
             false)), (String ((Ascii (false, false, true, false, true, true,
             true, false)), (String ((Ascii (true, false, false, false,
             false, true, true, false)), (String ((Ascii (true, false, false,
             true, false, true, true, false)), (String ((Ascii (false, true,
             true, true, false, true, true, false)), (String ((Ascii (true,
             false, true, false, false, true, true, false)), (String ((Ascii
             (false, true, false, false, true, true, true, false)), (String
             ((Ascii (false, false, false, false, false, true, false,
             false)), (String ((Ascii (true, false, false, true, false, true,
             true, false)), (String ((Ascii (true, true, false, false, true,
             true, true, false)), (String ((Ascii (false, false, false,
             false, false, true, false, false)), (String ((Ascii (false,
             true, true, true, false, true, true, false)), (String ((Ascii
             (true, true, true, true, false, true, true, false)), (String
             ((Ascii (false, false, true, false, true, true, true, false)),
             (String ((Ascii (false, false, false, false, false, true, false,
             false)), (String ((Ascii (true, false, false, false, false,
             true, true, false)), (String ((Ascii (false, false, false,
             false, false, true, false, false)), (String ((Ascii (true, true,
             true, false, false, true, true, false)), (String ((Ascii (false,
             true, false, false, true, true, true, false)), (String ((Ascii
             (true, true, true, true, false, true, true, false)), (String
             ((Ascii (true, false, true, false, true, true, true, false)),
             (String ((Ascii (false, false, false, false, true, true, true,
             false)),
             EmptyString)))))))))))))))))))))))))))))))))))))))))))))))))))))))))))))))))))))))))))))))))))))))))))

(** val common_group : tables -> n -> n list -> n list -> n res **)

let rec common_group t result a b =
  match a with
  | [] -> Val result
  | x :: a' ->
    (match b with
     | [] -> Val result
     | y :: b' ->
       if N.eqb x y
       then bind (sub_slice t result) (fun x0 ->
              let (p, _) = x0 in
              let (start, stop) = p in
              if N.leb (N.sub stop start) x
              then Pan (String ((Ascii (true, true, true, false, false, true,
                     true, false)), (String ((Ascii (true, false, true,
                     false, false, true, true, false)), (String ((Ascii
                     (false, false, true, false, true, true, true, false)),
                     (String ((Ascii (true, true, true, true, true, false,
                     true, false)), (String ((Ascii (true, true, false,
                     false, true, true, true, false)), (String ((Ascii (true,
                     false, true, false, true, true, true, false)), (String
                     ((Ascii (false, true, false, false, false, true, true,
                     false)), (String ((Ascii (true, true, true, true, true,
                     false, true, false)), (String ((Ascii (true, false,
                     true, false, false, true, true, false)), (String ((Ascii
                     (false, false, true, true, false, true, true, false)),
                     (String ((Ascii (true, false, true, false, false, true,
                     true, false)), (String ((Ascii (true, false, true, true,
                     false, true, true, false)), (String ((Ascii (true,
                     false, true, false, false, true, true, false)), (String
                     ((Ascii (false, true, true, true, false, true, true,
                     false)), (String ((Ascii (false, false, true, false,
                     true, true, true, false)), (String ((Ascii (true, true,
                     false, false, true, true, true, false)), (String ((Ascii
                     (false, false, false, true, false, true, false, false)),
                     (String ((Ascii (false, true, false, false, true, true,
                     true, false)), (String ((Ascii (true, false, true,
                     false, false, true, true, false)), (String ((Ascii
                     (true, true, false, false, true, true, true, false)),
                     (String ((Ascii (true, false, true, false, true, true,
                     true, false)), (String ((Ascii (false, false, true,
                     true, false, true, true, false)), (String ((Ascii
                     (false, false, true, false, true, true, true, false)),
                     (String ((Ascii (true, false, false, true, false, true,
                     false, false)), (String ((Ascii (true, true, false,
                     true, true, false, true, false)), (String ((Ascii (true,
                     false, false, true, false, true, true, false)), (String
                     ((Ascii (true, false, true, true, true, false, true,
                     false)),
                     EmptyString))))))))))))))))))))))))))))))))))))))))))))))))))))))
              else bind (subel t (N.add start x)) (fun x1 ->
                     let (kind, idx) = x1 in
                     if N.eqb kind N0
                     then Val result
                     else common_group t idx a' b'))
       else Val result)

(** val find_common_group : tables -> etype -> n list -> n list -> n res **)

let find_common_group t t0 a b =
  common_group t (snd t0) a b

(** val is_ref : tables -> etype -> bool res **)

let is_ref t t0 =
  bind (dt t (snd t0)) (fun d -> Val
    (if N.eqb d.dt_cdata N0
     then false
     else N.eqb (N.sub d.dt_cdata (Npos XH)) t.reference_type_idx))

(** val content_mode : tables -> etype -> n res **)

let content_mode t t0 =
  bind (dt t (snd t0)) (fun d -> Val d.dt_mode)

(** val chardata_spec : tables -> etype -> cdspec option res **)

let chardata_spec t t0 =
  bind (dt t (snd t0)) (fun d ->
    if N.eqb d.dt_cdata N0
    then Val None
    else bind
           (unwrap (String ((Ascii (true, true, false, false, false, false,
             true, false)), (String ((Ascii (false, false, false, true,
             false, false, true, false)), (String ((Ascii (true, false,
             false, false, false, false, true, false)), (String ((Ascii
             (false, true, false, false, true, false, true, false)), (String
             ((Ascii (true, false, false, false, false, false, true, false)),
             (String ((Ascii (true, true, false, false, false, false, true,
             false)), (String ((Ascii (false, false, true, false, true,
             false, true, false)), (String ((Ascii (true, false, true, false,
             false, false, true, false)), (String ((Ascii (false, true,
             false, false, true, false, true, false)), (String ((Ascii (true,
             true, true, true, true, false, true, false)), (String ((Ascii
             (false, false, true, false, false, false, true, false)), (String
             ((Ascii (true, false, false, false, false, false, true, false)),
             (String ((Ascii (false, false, true, false, true, false, true,
             false)), (String ((Ascii (true, false, false, false, false,
             false, true, false)), (String ((Ascii (true, true, false, true,
             true, false, true, false)), (String ((Ascii (true, false, false,
             true, false, true, true, false)), (String ((Ascii (true, false,
             true, true, true, false, true, false)),
             EmptyString))))))))))))))))))))))))))))))))))
             (t.t_cdata (N.sub d.dt_cdata (Npos XH)))) (fun c -> Val (Some c)))

(** val attr_slice : tables -> n -> ((n * n) * dtype) res **)

let attr_slice t ty =
  bind (dt t ty) (fun d -> Val ((d.dt_attr_start, d.dt_attr_end), d))

(** val find_attribute_spec :
    tables -> etype -> n -> (((n * cdspec) * n) * n) option res **)

let find_attribute_spec t t0 attrname =
  bind (attr_slice t (snd t0)) (fun x ->
    let (p, d) = x in
    let (start, stop) = p in
    bind
      (slice_chk (String ((Ascii (true, false, false, false, false, false,
        true, false)), (String ((Ascii (false, false, true, false, true,
        false, true, false)), (String ((Ascii (false, false, true, false,
        true, false, true, false)), (String ((Ascii (false, true, false,
        false, true, false, true, false)), (String ((Ascii (true, false,
        false, true, false, false, true, false)), (String ((Ascii (false,
        true, false, false, false, false, true, false)), (String ((Ascii
        (true, false, true, false, true, false, true, false)), (String
        ((Ascii (false, false, true, false, true, false, true, false)),
        (String ((Ascii (true, false, true, false, false, false, true,
        false)), (String ((Ascii (true, true, false, false, true, false,
        true, false)), (String ((Ascii (true, true, false, true, true, false,
        true, false)), (String ((Ascii (true, false, false, false, false,
        true, true, false)), (String ((Ascii (false, true, true, true, false,
        true, false, false)), (String ((Ascii (false, true, true, true,
        false, true, false, false)), (String ((Ascii (false, true, false,
        false, false, true, true, false)), (String ((Ascii (true, false,
        true, true, true, false, true, false)),
        EmptyString)))))))))))))))))))))))))))))))) start stop t.n_attributes)
      (fun _ ->
      let rec loop k pos =
        match k with
        | O -> Val None
        | S k' ->
          bind
            (unwrap (String ((Ascii (true, false, false, false, false, false,
              true, false)), (String ((Ascii (false, false, true, false,
              true, false, true, false)), (String ((Ascii (false, false,
              true, false, true, false, true, false)), (String ((Ascii
              (false, true, false, false, true, false, true, false)), (String
              ((Ascii (true, false, false, true, false, false, true, false)),
              (String ((Ascii (false, true, false, false, false, false, true,
              false)), (String ((Ascii (true, false, true, false, true,
              false, true, false)), (String ((Ascii (false, false, true,
              false, true, false, true, false)), (String ((Ascii (true,
              false, true, false, false, false, true, false)), (String
              ((Ascii (true, true, false, false, true, false, true, false)),
              (String ((Ascii (true, true, false, true, true, false, true,
              false)), (String ((Ascii (true, false, false, true, false,
              true, true, false)), (String ((Ascii (true, false, true, true,
              true, false, true, false)),
              EmptyString))))))))))))))))))))))))))
              (t.t_attributes (N.add start pos))) (fun x0 ->
            let (p0, req) = x0 in
            let (name, cdid) = p0 in
            if N.eqb name attrname
            then bind (vinfo t (N.add d.dt_attr_ver pos)) (fun ver ->
                   bind
                     (unwrap (String ((Ascii (true, true, false, false,
                       false, false, true, false)), (String ((Ascii (false,
                       false, false, true, false, false, true, false)),
                       (String ((Ascii (true, false, false, false, false,
                       false, true, false)), (String ((Ascii (false, true,
                       false, false, true, false, true, false)), (String
                       ((Ascii (true, false, false, false, false, false,
                       true, false)), (String ((Ascii (true, true, false,
                       false, false, false, true, false)), (String ((Ascii
                       (false, false, true, false, true, false, true,
                       false)), (String ((Ascii (true, false, true, false,
                       false, false, true, false)), (String ((Ascii (false,
                       true, false, false, true, false, true, false)),
                       (String ((Ascii (true, true, true, true, true, false,
                       true, false)), (String ((Ascii (false, false, true,
                       false, false, false, true, false)), (String ((Ascii
                       (true, false, false, false, false, false, true,
                       false)), (String ((Ascii (false, false, true, false,
                       true, false, true, false)), (String ((Ascii (true,
                       false, false, false, false, false, true, false)),
                       (String ((Ascii (true, true, false, true, true, false,
                       true, false)), (String ((Ascii (true, false, false,
                       true, false, true, true, false)), (String ((Ascii
                       (true, false, true, true, true, false, true, false)),
                       EmptyString))))))))))))))))))))))))))))))))))
                       (t.t_cdata cdid)) (fun c -> Val (Some (((cdid, c),
                     req), ver))))
            else loop k' (N.add pos (Npos XH)))
      in loop (N.to_nat (N.sub stop start)) N0))

(** val attribute_spec_list :
    tables -> etype -> (((n * n) * cdspec) * n) list res **)

let attribute_spec_list t t0 =
  bind (attr_slice t (snd t0)) (fun x ->
    let (p, _) = x in
    let (start, stop) = p in
    let rec loop k pos =
      match k with
      | O -> Val []
      | S k' ->
        bind
          (unwrap (String ((Ascii (true, false, false, false, false, false,
            true, false)), (String ((Ascii (false, false, true, false, true,
            false, true, false)), (String ((Ascii (false, false, true, false,
            true, false, true, false)), (String ((Ascii (false, true, false,
            false, true, false, true, false)), (String ((Ascii (true, false,
            false, true, false, false, true, false)), (String ((Ascii (false,
            true, false, false, false, false, true, false)), (String ((Ascii
            (true, false, true, false, true, false, true, false)), (String
            ((Ascii (false, false, true, false, true, false, true, false)),
            (String ((Ascii (true, false, true, false, false, false, true,
            false)), (String ((Ascii (true, true, false, false, true, false,
            true, false)), (String ((Ascii (true, true, false, true, true,
            false, true, false)), (String ((Ascii (true, false, false, true,
            false, true, true, false)), (String ((Ascii (true, false, true,
            true, true, false, true, false)),
            EmptyString))))))))))))))))))))))))))
            (t.t_attributes (N.add start pos))) (fun x0 ->
          let (p0, req) = x0 in
          let (name, cdid) = p0 in
          bind
            (unwrap (String ((Ascii (true, true, false, false, false, false,
              true, false)), (String ((Ascii (false, false, false, true,
              false, false, true, false)), (String ((Ascii (true, false,
              false, false, false, false, true, false)), (String ((Ascii
              (false, true, false, false, true, false, true, false)), (String
              ((Ascii (true, false, false, false, false, false, true,
              false)), (String ((Ascii (true, true, false, false, false,
              false, true, false)), (String ((Ascii (false, false, true,
              false, true, false, true, false)), (String ((Ascii (true,
              false, true, false, false, false, true, false)), (String
              ((Ascii (false, true, false, false, true, false, true, false)),
              (String ((Ascii (true, true, true, true, true, false, true,
              false)), (String ((Ascii (false, false, true, false, false,
              false, true, false)), (String ((Ascii (true, false, false,
              false, false, false, true, false)), (String ((Ascii (false,
              false, true, false, true, false, true, false)), (String ((Ascii
              (true, false, false, false, false, false, true, false)),
              (String ((Ascii (true, true, false, true, true, false, true,
              false)), (String ((Ascii (true, false, false, true, false,
              true, true, false)), (String ((Ascii (true, false, true, true,
              true, false, true, false)),
              EmptyString)))))))))))))))))))))))))))))))))) (t.t_cdata cdid))
            (fun c ->
            bind (loop k' (N.add pos (Npos XH))) (fun rest -> Val ((((name,
              cdid), c), req) :: rest))))
    in loop (N.to_nat (N.sub stop start)) N0)

(** val in_rng : n -> n -> n -> bool **)

let in_rng lo hi c =
  (&&) (N.leb lo c) (N.leb c hi)

(** val is_cont : n -> bool **)

let is_cont c =
  in_rng (Npos (XO (XO (XO (XO (XO (XO (XO XH)))))))) (Npos (XI (XI (XI (XI
    (XI (XI (XO XH)))))))) c

(** val utf8_chunk : n list -> bool * nat **)

let utf8_chunk = function
| [] -> (true, O)
| b0 :: r ->
  if N.ltb b0 (Npos (XO (XO (XO (XO (XO (XO (XO XH))))))))
  then (true, (S O))
  else if in_rng (Npos (XO (XI (XO (XO (XO (XO (XI XH)))))))) (Npos (XI (XI
            (XI (XI (XI (XO (XI XH)))))))) b0
       then (match r with
             | [] -> (false, (S O))
             | b1 :: _ ->
               if is_cont b1 then (true, (S (S O))) else (false, (S O)))
       else if in_rng (Npos (XO (XO (XO (XO (XO (XI (XI XH)))))))) (Npos (XI
                 (XI (XI (XI (XO (XI (XI XH)))))))) b0
            then let lo =
                   if N.eqb b0 (Npos (XO (XO (XO (XO (XO (XI (XI XH))))))))
                   then Npos (XO (XO (XO (XO (XO (XI (XO XH)))))))
                   else Npos (XO (XO (XO (XO (XO (XO (XO XH)))))))
                 in
                 let hi =
                   if N.eqb b0 (Npos (XI (XO (XI (XI (XO (XI (XI XH))))))))
                   then Npos (XI (XI (XI (XI (XI (XO (XO XH)))))))
                   else Npos (XI (XI (XI (XI (XI (XI (XO XH)))))))
                 in
                 (match r with
                  | [] -> (false, (S O))
                  | b1 :: r1 ->
                    if in_rng lo hi b1
                    then (match r1 with
                          | [] -> (false, (S (S O)))
                          | b2 :: _ ->
                            if is_cont b2
                            then (true, (S (S (S O))))
                            else (false, (S (S O))))
                    else (false, (S O)))
            else if in_rng (Npos (XO (XO (XO (XO (XI (XI (XI XH)))))))) (Npos
                      (XO (XO (XI (XO (XI (XI (XI XH)))))))) b0
                 then let lo =
                        if N.eqb b0 (Npos (XO (XO (XO (XO (XI (XI (XI
                             XH))))))))
                        then Npos (XO (XO (XO (XO (XI (XO (XO XH)))))))
                        else Npos (XO (XO (XO (XO (XO (XO (XO XH)))))))
                      in
                      let hi =
                        if N.eqb b0 (Npos (XO (XO (XI (XO (XI (XI (XI
                             XH))))))))
                        then Npos (XI (XI (XI (XI (XO (XO (XO XH)))))))
                        else Npos (XI (XI (XI (XI (XI (XI (XO XH)))))))
                      in
                      (match r with
                       | [] -> (false, (S O))
                       | b1 :: r1 ->
                         if in_rng lo hi b1
                         then (match r1 with
                               | [] -> (false, (S (S O)))
                               | b2 :: r2 ->
                                 if is_cont b2
                                 then (match r2 with
                                       | [] -> (false, (S (S (S O))))
                                       | b3 :: _ ->
                                         if is_cont b3
                                         then (true, (S (S (S (S O)))))
                                         else (false, (S (S (S O)))))
                                 else (false, (S (S O))))
                         else (false, (S O)))
                 else (false, (S O))

(** val utf8_valid_fuel : nat -> n list -> bool **)

let rec utf8_valid_fuel fuel s =
  match fuel with
  | O -> true
  | S f ->
    (match s with
     | [] -> true
     | _ :: _ ->
       let (ok, n0) = utf8_chunk s in
       if ok then utf8_valid_fuel f (skipn n0 s) else false)

(** val utf8_valid : n list -> bool **)

let utf8_valid s =
  utf8_valid_fuel (S (length s)) s

(** val rEPLACEMENT : n list **)

let rEPLACEMENT =
  (Npos (XI (XI (XI (XI (XO (XI (XI XH)))))))) :: ((Npos (XI (XI (XI (XI (XI
    (XI (XO XH)))))))) :: ((Npos (XI (XO (XI (XI (XI (XI (XO
    XH)))))))) :: []))

(** val utf8_lossy_fuel : nat -> n list -> n list **)

let rec utf8_lossy_fuel fuel s =
  match fuel with
  | O -> []
  | S f ->
    (match s with
     | [] -> []
     | _ :: _ ->
       let (ok, n0) = utf8_chunk s in
       app (if ok then firstn n0 s else rEPLACEMENT)
         (utf8_lossy_fuel f (skipn n0 s)))

(** val utf8_lossy : n list -> n list **)

let utf8_lossy s =
  utf8_lossy_fuel (S (length s)) s

(** val is_char : n -> bool **)

let is_char v =
  (&&)
    (N.leb v (Npos (XI (XI (XI (XI (XI (XI (XI (XI (XI (XI (XI (XI (XI (XI
      (XI (XI (XO (XO (XO (XO XH))))))))))))))))))))))
    (negb
      (in_rng (Npos (XO (XO (XO (XO (XO (XO (XO (XO (XO (XO (XO (XI (XI (XO
        (XI XH)))))))))))))))) (Npos (XI (XI (XI (XI (XI (XI (XI (XI (XI (XI
        (XI (XI (XI (XO (XI XH)))))))))))))))) v))

(** val utf8_encode : n -> n list **)

let utf8_encode v =
  if N.ltb v (Npos (XO (XO (XO (XO (XO (XO (XO XH))))))))
  then v :: []
  else if N.ltb v (Npos (XO (XO (XO (XO (XO (XO (XO (XO (XO (XO (XO
            XH))))))))))))
       then (N.add (Npos (XO (XO (XO (XO (XO (XO (XI XH))))))))
              (N.div v (Npos (XO (XO (XO (XO (XO (XO XH))))))))) :: (
              (N.add (Npos (XO (XO (XO (XO (XO (XO (XO XH))))))))
                (N.modulo v (Npos (XO (XO (XO (XO (XO (XO XH))))))))) :: [])
       else if N.ltb v (Npos (XO (XO (XO (XO (XO (XO (XO (XO (XO (XO (XO (XO
                 (XO (XO (XO (XO XH)))))))))))))))))
            then (N.add (Npos (XO (XO (XO (XO (XO (XI (XI XH))))))))
                   (N.div v (Npos (XO (XO (XO (XO (XO (XO (XO (XO (XO (XO (XO
                     (XO XH))))))))))))))) :: ((N.add (Npos (XO (XO (XO (XO
                                                 (XO (XO (XO XH))))))))
                                                 (N.modulo
                                                   (N.div v (Npos (XO (XO (XO
                                                     (XO (XO (XO XH))))))))
                                                   (Npos (XO (XO (XO (XO (XO
                                                   (XO XH))))))))) :: (
                   (N.add (Npos (XO (XO (XO (XO (XO (XO (XO XH))))))))
                     (N.modulo v (Npos (XO (XO (XO (XO (XO (XO XH))))))))) :: []))
            else (N.add (Npos (XO (XO (XO (XO (XI (XI (XI XH))))))))
                   (N.div v (Npos (XO (XO (XO (XO (XO (XO (XO (XO (XO (XO (XO
                     (XO (XO (XO (XO (XO (XO (XO XH))))))))))))))))))))) :: (
                   (N.add (Npos (XO (XO (XO (XO (XO (XO (XO XH))))))))
                     (N.modulo
                       (N.div v (Npos (XO (XO (XO (XO (XO (XO (XO (XO (XO (XO
                         (XO (XO XH)))))))))))))) (Npos (XO (XO (XO (XO (XO
                       (XO XH))))))))) :: ((N.add (Npos (XO (XO (XO (XO (XO
                                             (XO (XO XH))))))))
                                             (N.modulo
                                               (N.div v (Npos (XO (XO (XO (XO
                                                 (XO (XO XH)))))))) (Npos (XO
                                               (XO (XO (XO (XO (XO XH))))))))) :: (
                   (N.add (Npos (XO (XO (XO (XO (XO (XO (XO XH))))))))
                     (N.modulo v (Npos (XO (XO (XO (XO (XO (XO XH))))))))) :: [])))

(** val is_ws : n -> bool **)

let is_ws c =
  (||)
    ((||)
      ((||)
        ((||) (N.eqb c (Npos (XO (XO (XO (XO (XO XH)))))))
          (N.eqb c (Npos (XI (XO (XO XH))))))
        (N.eqb c (Npos (XO (XI (XO XH))))))
      (N.eqb c (Npos (XO (XO (XI XH)))))) (N.eqb c (Npos (XI (XO (XI XH)))))

type event =
| EvHeader of bool option
| EvBegin of n list * n list
| EvEnd of n list
| EvChars of n list
| EvComment of n list
| EvEOF

type lexerr =
| IncompleteData
| InvalidElement
| InvalidProcessingInstruction
| InvalidXmlHeader
| InvalidComment

type lstate = { l_rest : n list; l_line : n; l_deferred : n list option }

type lexout =
| LOk of n * event * lstate
| LErr of n * lexerr

(** val position : (n -> bool) -> n list -> nat option **)

let rec position p = function
| [] -> None
| x :: l' ->
  if p x then Some O else option_map (fun x0 -> S x0) (position p l')

(** val count_lines : n list -> n **)

let count_lines l =
  N.of_nat (length (filter (N.eqb (Npos (XO (XI (XO XH))))) l))

(** val starts_with : n list -> n list -> bool **)

let rec starts_with pre l =
  match pre with
  | [] -> true
  | p :: pre' ->
    (match l with
     | [] -> false
     | x :: l' -> (&&) (N.eqb p x) (starts_with pre' l'))

(** val split_ws_aux : n list -> n list -> n list list **)

let rec split_ws_aux cur = function
| [] -> (rev cur) :: []
| x :: l' ->
  if is_ws x
  then (rev cur) :: (split_ws_aux [] l')
  else split_ws_aux (x :: cur) l'

(** val split_ws : n list -> n list list **)

let split_ws l =
  split_ws_aux [] l

(** val lexer_new : n list -> lstate **)

let lexer_new buffer =
  let rest =
    match buffer with
    | [] -> buffer
    | n0 :: l ->
      (match n0 with
       | N0 -> buffer
       | Npos p ->
         (match p with
          | XI p0 ->
            (match p0 with
             | XI p1 ->
               (match p1 with
                | XI p2 ->
                  (match p2 with
                   | XI p3 ->
                     (match p3 with
                      | XO p4 ->
                        (match p4 with
                         | XI p5 ->
                           (match p5 with
                            | XI p6 ->
                              (match p6 with
                               | XH ->
                                 (match l with
                                  | [] -> buffer
                                  | n1 :: l0 ->
                                    (match n1 with
                                     | N0 -> buffer
                                     | Npos p7 ->
                                       (match p7 with
                                        | XI p8 ->
                                          (match p8 with
                                           | XI p9 ->
                                             (match p9 with
                                              | XO p10 ->
                                                (match p10 with
                                                 | XI p11 ->
                                                   (match p11 with
                                                    | XI p12 ->
                                                      (match p12 with
                                                       | XI p13 ->
                                                         (match p13 with
                                                          | XO p14 ->
                                                            (match p14 with
                                                             | XH ->
                                                               (match l0 with
                                                                | [] -> buffer
                                                                | n2 :: r ->
                                                                  (match n2 with
                                                                   | N0 ->
                                                                    buffer
                                                                   | Npos p15 ->
                                                                    (match p15 with
                                                                    | XI p16 ->
                                                                    (match p16 with
                                                                    | XI p17 ->
                                                                    (match p17 with
                                                                    | XI p18 ->
                                                                    (match p18 with
                                                                    | XI p19 ->
                                                                    (match p19 with
                                                                    | XI p20 ->
                                                                    (match p20 with
                                                                    | XI p21 ->
                                                                    (match p21 with
                                                                    | XO p22 ->
                                                                    (match p22 with
                                                                    | XH ->
                                                                    (match r with
                                                                    | [] ->
                                                                    buffer
                                                                    | _ :: _ ->
                                                                    r)
                                                                    | _ ->
                                                                    buffer)
                                                                    | _ ->
                                                                    buffer)
                                                                    | _ ->
                                                                    buffer)
                                                                    | _ ->
                                                                    buffer)
                                                                    | _ ->
                                                                    buffer)
                                                                    | _ ->
                                                                    buffer)
                                                                    | _ ->
                                                                    buffer)
                                                                    | _ ->
                                                                    buffer)))
                                                             | _ -> buffer)
                                                          | _ -> buffer)
                                                       | _ -> buffer)
                                                    | _ -> buffer)
                                                 | _ -> buffer)
                                              | _ -> buffer)
                                           | _ -> buffer)
                                        | _ -> buffer)))
                               | _ -> buffer)
                            | _ -> buffer)
                         | _ -> buffer)
                      | _ -> buffer)
                   | _ -> buffer)
                | _ -> buffer)
             | _ -> buffer)
          | _ -> buffer))
  in
  { l_rest = rest; l_line = (Npos XH); l_deferred = None }

(** val header_attr : n list -> (n list * n list) res **)

let header_attr attr_text =
  match position (N.eqb (Npos (XI (XO (XI (XI (XI XH))))))) attr_text with
  | Some pos ->
    let len = length attr_text in
    if Nat.eqb len O
    then Pan (String ((Ascii (false, false, true, true, false, true, true,
           false)), (String ((Ascii (true, false, true, false, false, true,
           true, false)), (String ((Ascii (false, false, false, true, true,
           true, true, false)), (String ((Ascii (true, false, true, false,
           false, true, true, false)), (String ((Ascii (false, true, false,
           false, true, true, true, false)), (String ((Ascii (false, true,
           true, true, false, true, false, false)), (String ((Ascii (false,
           true, false, false, true, true, true, false)), (String ((Ascii
           (true, true, false, false, true, true, true, false)), (String
           ((Ascii (false, true, false, true, true, true, false, false)),
           (String ((Ascii (false, false, false, false, false, true, false,
           false)), (String ((Ascii (true, false, false, false, false, true,
           true, false)), (String ((Ascii (false, false, true, false, true,
           true, true, false)), (String ((Ascii (false, false, true, false,
           true, true, true, false)), (String ((Ascii (false, true, false,
           false, true, true, true, false)), (String ((Ascii (true, true,
           true, true, true, false, true, false)), (String ((Ascii (false,
           false, true, false, true, true, true, false)), (String ((Ascii
           (true, false, true, false, false, true, true, false)), (String
           ((Ascii (false, false, false, true, true, true, true, false)),
           (String ((Ascii (false, false, true, false, true, true, true,
           false)), (String ((Ascii (false, true, true, true, false, true,
           false, false)), (String ((Ascii (false, false, true, true, false,
           true, true, false)), (String ((Ascii (true, false, true, false,
           false, true, true, false)), (String ((Ascii (false, true, true,
           true, false, true, true, false)), (String ((Ascii (false, false,
           false, true, false, true, false, false)), (String ((Ascii (true,
           false, false, true, false, true, false, false)), (String ((Ascii
           (false, false, false, false, false, true, false, false)), (String
           ((Ascii (true, false, true, true, false, true, false, false)),
           (String ((Ascii (false, false, false, false, false, true, false,
           false)), (String ((Ascii (true, false, false, false, true, true,
           false, false)),
           EmptyString))))))))))))))))))))))))))))))))))))))))))))))))))))))))))
    else let value =
           if Nat.ltb (sub len (S O)) (add pos (S (S O)))
           then []
           else firstn (sub (sub len (S O)) (add pos (S (S O))))
                  (skipn (add pos (S (S O))) attr_text)
         in
         Val ((firstn pos attr_text), value)
  | None -> Val (attr_text, [])

(** val header_attrs :
    n list list -> n list -> n list -> bool option -> ((n list * n
    list) * bool option) res **)

let rec header_attrs pieces ver enc sa =
  match pieces with
  | [] -> Val ((ver, enc), sa)
  | a :: rest ->
    (match header_attr a with
     | Val a0 ->
       let (nme, val0) = a0 in
       if bytes_eqb nme
            (bS (String ((Ascii (false, true, true, false, true, true, true,
              false)), (String ((Ascii (true, false, true, false, false,
              true, true, false)), (String ((Ascii (false, true, false,
              false, true, true, true, false)), (String ((Ascii (true, true,
              false, false, true, true, true, false)), (String ((Ascii (true,
              false, false, true, false, true, true, false)), (String ((Ascii
              (true, true, true, true, false, true, true, false)), (String
              ((Ascii (false, true, true, true, false, true, true, false)),
              EmptyString)))))))))))))))
       then header_attrs rest val0 enc sa
       else if bytes_eqb nme
                 (bS (String ((Ascii (true, false, true, false, false, true,
                   true, false)), (String ((Ascii (false, true, true, true,
                   false, true, true, false)), (String ((Ascii (true, true,
                   false, false, false, true, true, false)), (String ((Ascii
                   (true, true, true, true, false, true, true, false)),
                   (String ((Ascii (false, false, true, false, false, true,
                   true, false)), (String ((Ascii (true, false, false, true,
                   false, true, true, false)), (String ((Ascii (false, true,
                   true, true, false, true, true, false)), (String ((Ascii
                   (true, true, true, false, false, true, true, false)),
                   EmptyString)))))))))))))))))
            then header_attrs rest ver val0 sa
            else if bytes_eqb nme
                      (bS (String ((Ascii (true, true, false, false, true,
                        true, true, false)), (String ((Ascii (false, false,
                        true, false, true, true, true, false)), (String
                        ((Ascii (true, false, false, false, false, true,
                        true, false)), (String ((Ascii (false, true, true,
                        true, false, true, true, false)), (String ((Ascii
                        (false, false, true, false, false, true, true,
                        false)), (String ((Ascii (true, false, false, false,
                        false, true, true, false)), (String ((Ascii (false,
                        false, true, true, false, true, true, false)),
                        (String ((Ascii (true, true, true, true, false, true,
                        true, false)), (String ((Ascii (false, true, true,
                        true, false, true, true, false)), (String ((Ascii
                        (true, false, true, false, false, true, true,
                        false)), EmptyString)))))))))))))))))))))
                 then header_attrs rest ver enc (Some
                        (bytes_eqb val0
                          (bS (String ((Ascii (true, false, false, true,
                            true, true, true, false)), (String ((Ascii (true,
                            false, true, false, false, true, true, false)),
                            (String ((Ascii (true, true, false, false, true,
                            true, true, false)), EmptyString)))))))))
                 else header_attrs rest ver enc sa
     | Pan s -> Pan s
     | Fuel -> Fuel)

(** val encoding_ok : n list -> bool **)

let encoding_ok e =
  (||)
    ((||)
      ((||)
        (bytes_eqb e
          (bS (String ((Ascii (true, false, true, false, true, true, true,
            false)), (String ((Ascii (false, false, true, false, true, true,
            true, false)), (String ((Ascii (false, true, true, false, false,
            true, true, false)), (String ((Ascii (true, false, true, true,
            false, true, false, false)), (String ((Ascii (false, false,
            false, true, true, true, false, false)), EmptyString))))))))))))
        (bytes_eqb e
          (bS (String ((Ascii (true, false, true, false, true, false, true,
            false)), (String ((Ascii (false, false, true, false, true, false,
            true, false)), (String ((Ascii (false, true, true, false, false,
            false, true, false)), (String ((Ascii (true, false, true, true,
            false, true, false, false)), (String ((Ascii (false, false,
            false, true, true, true, false, false)), EmptyString)))))))))))))
      (bytes_eqb e
        (bS (String ((Ascii (true, false, true, false, true, true, true,
          false)), (String ((Ascii (false, false, true, false, true, true,
          true, false)), (String ((Ascii (false, true, true, false, false,
          true, true, false)), (String ((Ascii (false, false, false, true,
          true, true, false, false)), EmptyString)))))))))))
    (bytes_eqb e
      (bS (String ((Ascii (true, false, true, false, true, false, true,
        false)), (String ((Ascii (false, false, true, false, true, false,
        true, false)), (String ((Ascii (false, true, true, false, false,
        false, true, false)), (String ((Ascii (false, false, false, true,
        true, true, false, false)), EmptyString))))))))))

(** val comment_end : nat -> n list -> nat -> nat option **)

let rec comment_end fuel rest k =
  match fuel with
  | O -> None
  | S f ->
    if Nat.ltb k (length rest)
    then if starts_with ((Npos (XI (XO (XI (XI (XO XH)))))) :: ((Npos (XI (XO
              (XI (XI (XO XH)))))) :: ((Npos (XO (XI (XI (XI (XI
              XH)))))) :: []))) (skipn (sub k (S (S O))) rest)
         then Some k
         else comment_end f rest (S k)
    else None

(** val ends_with : n list -> n list -> bool **)

let ends_with suf l =
  starts_with (rev suf) (rev l)

(** val lex_next : nat -> lstate -> lexout res **)

let rec lex_next fuel st =
  match st.l_deferred with
  | Some name ->
    Val (LOk (st.l_line, (EvEnd name), { l_rest = st.l_rest; l_line =
      st.l_line; l_deferred = None }))
  | None ->
    (match fuel with
     | O -> Fuel
     | S fuel' ->
       (match st.l_rest with
        | [] -> Val (LOk (st.l_line, EvEOF, st))
        | n0 :: tail ->
          (match n0 with
           | N0 ->
             let n1 =
               match position (N.eqb (Npos (XO (XO (XI (XI (XI XH)))))))
                       st.l_rest with
               | Some n1 -> n1
               | None -> length st.l_rest
             in
             let text = firstn n1 st.l_rest in
             let line' = N.add st.l_line (count_lines text) in
             let st' = { l_rest = (skipn n1 st.l_rest); l_line = line';
               l_deferred = None }
             in
             if forallb is_ws text
             then lex_next fuel' st'
             else Val (LOk (line', (EvChars text), st'))
           | Npos p ->
             (match p with
              | XO p0 ->
                (match p0 with
                 | XO p1 ->
                   (match p1 with
                    | XI p2 ->
                      (match p2 with
                       | XI p3 ->
                         (match p3 with
                          | XI p4 ->
                            (match p4 with
                             | XH ->
                               (match position
                                        (N.eqb (Npos (XO (XI (XI (XI (XI
                                          XH))))))) tail with
                                | Some findpos ->
                                  (match findpos with
                                   | O ->
                                     Val (LErr (st.l_line, InvalidElement))
                                   | S _ ->
                                     let inner = firstn findpos tail in
                                     let after = skipn (S findpos) tail in
                                     (match tail with
                                      | [] ->
                                        let is_end =
                                          N.eqb (last inner N0) (Npos (XI (XI
                                            (XI (XI (XO XH))))))
                                        in
                                        let text =
                                          if is_end
                                          then removelast inner
                                          else inner
                                        in
                                        (match position is_ws text with
                                         | Some sp ->
                                           let elemname = firstn sp text in
                                           let attributes = skipn (S sp) text
                                           in
                                           Val (LOk (st.l_line, (EvBegin
                                           (elemname, attributes)),
                                           { l_rest = after; l_line =
                                           (N.add st.l_line
                                             (count_lines text));
                                           l_deferred =
                                           (if is_end
                                            then Some elemname
                                            else None) }))
                                         | None ->
                                           let attributes = [] in
                                           Val (LOk (st.l_line, (EvBegin
                                           (text, attributes)), { l_rest =
                                           after; l_line =
                                           (N.add st.l_line
                                             (count_lines text));
                                           l_deferred =
                                           (if is_end then Some text else None) })))
                                      | n1 :: _ ->
                                        (match n1 with
                                         | N0 ->
                                           let is_end =
                                             N.eqb (last inner N0) (Npos (XI
                                               (XI (XI (XI (XO XH))))))
                                           in
                                           let text =
                                             if is_end
                                             then removelast inner
                                             else inner
                                           in
                                           (match position is_ws text with
                                            | Some sp ->
                                              let elemname = firstn sp text in
                                              let attributes =
                                                skipn (S sp) text
                                              in
                                              Val (LOk (st.l_line, (EvBegin
                                              (elemname, attributes)),
                                              { l_rest = after; l_line =
                                              (N.add st.l_line
                                                (count_lines text));
                                              l_deferred =
                                              (if is_end
                                               then Some elemname
                                               else None) }))
                                            | None ->
                                              let attributes = [] in
                                              Val (LOk (st.l_line, (EvBegin
                                              (text, attributes)), { l_rest =
                                              after; l_line =
                                              (N.add st.l_line
                                                (count_lines text));
                                              l_deferred =
                                              (if is_end
                                               then Some text
                                               else None) })))
                                         | Npos p5 ->
                                           (match p5 with
                                            | XI p6 ->
                                              (match p6 with
                                               | XI p7 ->
                                                 (match p7 with
                                                  | XI p8 ->
                                                    (match p8 with
                                                     | XI p9 ->
                                                       (match p9 with
                                                        | XI p10 ->
                                                          (match p10 with
                                                           | XH ->
                                                             if (||)
                                                                  (Nat.ltb
                                                                    findpos
                                                                    (S (S O)))
                                                                  (negb
                                                                    (N.eqb
                                                                    (last
                                                                    inner N0)
                                                                    (Npos (XI
                                                                    (XI (XI
                                                                    (XI (XI
                                                                    XH))))))))
                                                             then Val (LErr
                                                                    (st.l_line,
                                                                    InvalidProcessingInstruction))
                                                             else if 
                                                                    Nat.ltb
                                                                    findpos
                                                                    (S (S O))
                                                                  then 
                                                                    Pan
                                                                    (String
                                                                    ((Ascii
                                                                    (false,
                                                                    false,
                                                                    true,
                                                                    true,
                                                                    false,
                                                                    true,
                                                                    true,
                                                                    false)),
                                                                    (String
                                                                    ((Ascii
                                                                    (true,
                                                                    false,
                                                                    true,
                                                                    false,
                                                                    false,
                                                                    true,
                                                                    true,
                                                                    false)),
                                                                    (String
                                                                    ((Ascii
                                                                    (false,
                                                                    false,
                                                                    false,
                                                                    true,
                                                                    true,
                                                                    true,
                                                                    true,
                                                                    false)),
                                                                    (String
                                                                    ((Ascii
                                                                    (true,
                                                                    false,
                                                                    true,
                                                                    false,
                                                                    false,
                                                                    true,
                                                                    true,
                                                                    false)),
                                                                    (String
                                                                    ((Ascii
                                                                    (false,
                                                                    true,
                                                                    false,
                                                                    false,
                                                                    true,
                                                                    true,
                                                                    true,
                                                                    false)),
                                                                    (String
                                                                    ((Ascii
                                                                    (false,
                                                                    true,
                                                                    true,
                                                                    true,
                                                                    false,
                                                                    true,
                                                                    false,
                                                                    false)),
                                                                    (String
                                                                    ((Ascii
                                                                    (false,
                                                                    true,
                                                                    false,
                                                                    false,
                                                                    true,
                                                                    true,
                                                                    true,
                                                                    false)),
                                                                    (String
                                                                    ((Ascii
                                                                    (true,
                                                                    true,
                                                                    false,
                                                                    false,
                                                                    true,
                                                                    true,
                                                                    true,
                                                                    false)),
                                                                    (String
                                                                    ((Ascii
                                                                    (false,
                                                                    true,
                                                                    false,
                                                                    true,
                                                                    true,
                                                                    true,
                                                                    false,
                                                                    false)),
                                                                    (String
                                                                    ((Ascii
                                                                    (false,
                                                                    false,
                                                                    false,
                                                                    false,
                                                                    false,
                                                                    true,
                                                                    false,
                                                                    false)),
                                                                    (String
                                                                    ((Ascii
                                                                    (false,
                                                                    true,
                                                                    false,
                                                                    false,
                                                                    true,
                                                                    true,
                                                                    true,
                                                                    false)),
                                                                    (String
                                                                    ((Ascii
                                                                    (true,
                                                                    false,
                                                                    true,
                                                                    false,
                                                                    false,
                                                                    true,
                                                                    true,
                                                                    false)),
                                                                    (String
                                                                    ((Ascii
                                                                    (true,
                                                                    false,
                                                                    false,
                                                                    false,
                                                                    false,
                                                                    true,
                                                                    true,
                                                                    false)),
                                                                    (String
                                                                    ((Ascii
                                                                    (false,
                                                                    false,
                                                                    true,
                                                                    false,
                                                                    false,
                                                                    true,
                                                                    true,
                                                                    false)),
                                                                    (String
                                                                    ((Ascii
                                                                    (true,
                                                                    true,
                                                                    true,
                                                                    true,
                                                                    true,
                                                                    false,
                                                                    true,
                                                                    false)),
                                                                    (String
                                                                    ((Ascii
                                                                    (false,
                                                                    false,
                                                                    false,
                                                                    true,
                                                                    true,
                                                                    true,
                                                                    true,
                                                                    false)),
                                                                    (String
                                                                    ((Ascii
                                                                    (true,
                                                                    false,
                                                                    true,
                                                                    true,
                                                                    false,
                                                                    true,
                                                                    true,
                                                                    false)),
                                                                    (String
                                                                    ((Ascii
                                                                    (false,
                                                                    false,
                                                                    true,
                                                                    true,
                                                                    false,
                                                                    true,
                                                                    true,
                                                                    false)),
                                                                    (String
                                                                    ((Ascii
                                                                    (true,
                                                                    true,
                                                                    true,
                                                                    true,
                                                                    true,
                                                                    false,
                                                                    true,
                                                                    false)),
                                                                    (String
                                                                    ((Ascii
                                                                    (false,
                                                                    false,
                                                                    false,
                                                                    true,
                                                                    false,
                                                                    true,
                                                                    true,
                                                                    false)),
                                                                    (String
                                                                    ((Ascii
                                                                    (true,
                                                                    false,
                                                                    true,
                                                                    false,
                                                                    false,
                                                                    true,
                                                                    true,
                                                                    false)),
                                                                    (String
                                                                    ((Ascii
                                                                    (true,
                                                                    false,
                                                                    false,
                                                                    false,
                                                                    false,
                                                                    true,
                                                                    true,
                                                                    false)),
                                                                    (String
                                                                    ((Ascii
                                                                    (false,
                                                                    false,
                                                                    true,
                                                                    false,
                                                                    false,
                                                                    true,
                                                                    true,
                                                                    false)),
                                                                    (String
                                                                    ((Ascii
                                                                    (true,
                                                                    false,
                                                                    true,
                                                                    false,
                                                                    false,
                                                                    true,
                                                                    true,
                                                                    false)),
                                                                    (String
                                                                    ((Ascii
                                                                    (false,
                                                                    true,
                                                                    false,
                                                                    false,
                                                                    true,
                                                                    true,
                                                                    true,
                                                                    false)),
                                                                    (String
                                                                    ((Ascii
                                                                    (false,
                                                                    false,
                                                                    false,
                                                                    false,
                                                                    false,
                                                                    true,
                                                                    false,
                                                                    false)),
                                                                    (String
                                                                    ((Ascii
                                                                    (false,
                                                                    true,
                                                                    false,
                                                                    false,
                                                                    false,
                                                                    true,
                                                                    true,
                                                                    false)),
                                                                    (String
                                                                    ((Ascii
                                                                    (true,
                                                                    false,
                                                                    true,
                                                                    false,
                                                                    true,
                                                                    true,
                                                                    true,
                                                                    false)),
                                                                    (String
                                                                    ((Ascii
                                                                    (false,
                                                                    true,
                                                                    true,
                                                                    false,
                                                                    false,
                                                                    true,
                                                                    true,
                                                                    false)),
                                                                    (String
                                                                    ((Ascii
                                                                    (false,
                                                                    true,
                                                                    true,
                                                                    false,
                                                                    false,
                                                                    true,
                                                                    true,
                                                                    false)),
                                                                    (String
                                                                    ((Ascii
                                                                    (true,
                                                                    false,
                                                                    true,
                                                                    false,
                                                                    false,
                                                                    true,
                                                                    true,
                                                                    false)),
                                                                    (String
                                                                    ((Ascii
                                                                    (false,
                                                                    true,
                                                                    false,
                                                                    false,
                                                                    true,
                                                                    true,
                                                                    true,
                                                                    false)),
                                                                    (String
                                                                    ((Ascii
                                                                    (true,
                                                                    true,
                                                                    false,
                                                                    true,
                                                                    true,
                                                                    false,
                                                                    true,
                                                                    false)),
                                                                    (String
                                                                    ((Ascii
                                                                    (false,
                                                                    true,
                                                                    false,
                                                                    false,
                                                                    false,
                                                                    true,
                                                                    true,
                                                                    false)),
                                                                    (String
                                                                    ((Ascii
                                                                    (true,
                                                                    false,
                                                                    true,
                                                                    false,
                                                                    true,
                                                                    true,
                                                                    true,
                                                                    false)),
                                                                    (String
                                                                    ((Ascii
                                                                    (false,
                                                                    true,
                                                                    true,
                                                                    false,
                                                                    false,
                                                                    true,
                                                                    true,
                                                                    false)),
                                                                    (String
                                                                    ((Ascii
                                                                    (false,
                                                                    false,
                                                                    false,
                                                                    false,
                                                                    true,
                                                                    true,
                                                                    true,
                                                                    false)),
                                                                    (String
                                                                    ((Ascii
                                                                    (true,
                                                                    true,
                                                                    true,
                                                                    true,
                                                                    false,
                                                                    true,
                                                                    true,
                                                                    false)),
                                                                    (String
                                                                    ((Ascii
                                                                    (true,
                                                                    true,
                                                                    false,
                                                                    false,
                                                                    true,
                                                                    true,
                                                                    true,
                                                                    false)),
                                                                    (String
                                                                    ((Ascii
                                                                    (true,
                                                                    true,
                                                                    false,
                                                                    true,
                                                                    false,
                                                                    true,
                                                                    false,
                                                                    false)),
                                                                    (String
                                                                    ((Ascii
                                                                    (false,
                                                                    true,
                                                                    false,
                                                                    false,
                                                                    true,
                                                                    true,
                                                                    false,
                                                                    false)),
                                                                    (String
                                                                    ((Ascii
                                                                    (false,
                                                                    true,
                                                                    true,
                                                                    true,
                                                                    false,
                                                                    true,
                                                                    false,
                                                                    false)),
                                                                    (String
                                                                    ((Ascii
                                                                    (false,
                                                                    true,
                                                                    true,
                                                                    true,
                                                                    false,
                                                                    true,
                                                                    false,
                                                                    false)),
                                                                    (String
                                                                    ((Ascii
                                                                    (true,
                                                                    false,
                                                                    true,
                                                                    false,
                                                                    false,
                                                                    true,
                                                                    true,
                                                                    false)),
                                                                    (String
                                                                    ((Ascii
                                                                    (false,
                                                                    true,
                                                                    true,
                                                                    true,
                                                                    false,
                                                                    true,
                                                                    true,
                                                                    false)),
                                                                    (String
                                                                    ((Ascii
                                                                    (false,
                                                                    false,
                                                                    true,
                                                                    false,
                                                                    false,
                                                                    true,
                                                                    true,
                                                                    false)),
                                                                    (String
                                                                    ((Ascii
                                                                    (false,
                                                                    false,
                                                                    false,
                                                                    false,
                                                                    true,
                                                                    true,
                                                                    true,
                                                                    false)),
                                                                    (String
                                                                    ((Ascii
                                                                    (true,
                                                                    true,
                                                                    true,
                                                                    true,
                                                                    false,
                                                                    true,
                                                                    true,
                                                                    false)),
                                                                    (String
                                                                    ((Ascii
                                                                    (true,
                                                                    true,
                                                                    false,
                                                                    false,
                                                                    true,
                                                                    true,
                                                                    true,
                                                                    false)),
                                                                    (String
                                                                    ((Ascii
                                                                    (true,
                                                                    false,
                                                                    true,
                                                                    true,
                                                                    false,
                                                                    true,
                                                                    false,
                                                                    false)),
                                                                    (String
                                                                    ((Ascii
                                                                    (true,
                                                                    false,
                                                                    false,
                                                                    false,
                                                                    true,
                                                                    true,
                                                                    false,
                                                                    false)),
                                                                    (String
                                                                    ((Ascii
                                                                    (true,
                                                                    false,
                                                                    true,
                                                                    true,
                                                                    true,
                                                                    false,
                                                                    true,
                                                                    false)),
                                                                    EmptyString))))))))))))))))))))))))))))))))))))))))))))))))))))))))))))))))))))))))))))))))))))))))))))))))))))))))
                                                                  else 
                                                                    let text =
                                                                    firstn
                                                                    (sub
                                                                    findpos
                                                                    (S (S O)))
                                                                    (skipn (S
                                                                    O) inner)
                                                                    in
                                                                    let pieces =
                                                                    split_ws
                                                                    text
                                                                    in
                                                                    let elemname =
                                                                    hd []
                                                                    pieces
                                                                    in
                                                                    let line' =
                                                                    N.add
                                                                    st.l_line
                                                                    (count_lines
                                                                    text)
                                                                    in
                                                                    if 
                                                                    bytes_eqb
                                                                    elemname
                                                                    (bS
                                                                    (String
                                                                    ((Ascii
                                                                    (false,
                                                                    false,
                                                                    false,
                                                                    true,
                                                                    true,
                                                                    true,
                                                                    true,
                                                                    false)),
                                                                    (String
                                                                    ((Ascii
                                                                    (true,
                                                                    false,
                                                                    true,
                                                                    true,
                                                                    false,
                                                                    true,
                                                                    true,
                                                                    false)),
                                                                    (String
                                                                    ((Ascii
                                                                    (false,
                                                                    false,
                                                                    true,
                                                                    true,
                                                                    false,
                                                                    true,
                                                                    true,
                                                                    false)),
                                                                    EmptyString)))))))
                                                                    then 
                                                                    (match 
                                                                    header_attrs
                                                                    (tl
                                                                    pieces)
                                                                    [] [] None with
                                                                    | Val a ->
                                                                    let (
                                                                    p11, sa) =
                                                                    a
                                                                    in
                                                                    let (
                                                                    ver, enc) =
                                                                    p11
                                                                    in
                                                                    if 
                                                                    (||)
                                                                    (negb
                                                                    (bytes_eqb
                                                                    ver
                                                                    (bS
                                                                    (String
                                                                    ((Ascii
                                                                    (true,
                                                                    false,
                                                                    false,
                                                                    false,
                                                                    true,
                                                                    true,
                                                                    false,
                                                                    false)),
                                                                    (String
                                                                    ((Ascii
                                                                    (false,
                                                                    true,
                                                                    true,
                                                                    true,
                                                                    false,
                                                                    true,
                                                                    false,
                                                                    false)),
                                                                    (String
                                                                    ((Ascii
                                                                    (false,
                                                                    false,
                                                                    false,
                                                                    false,
                                                                    true,
                                                                    true,
                                                                    false,
                                                                    false)),
                                                                    EmptyString)))))))))
                                                                    (negb
                                                                    (encoding_ok
                                                                    enc))
                                                                    then 
                                                                    Val (LErr
                                                                    (st.l_line,
                                                                    InvalidXmlHeader))
                                                                    else 
                                                                    Val (LOk
                                                                    (line',
                                                                    (EvHeader
                                                                    sa),
                                                                    { l_rest =
                                                                    after;
                                                                    l_line =
                                                                    line';
                                                                    l_deferred =
                                                                    None }))
                                                                    | Pan s ->
                                                                    Pan s
                                                                    | Fuel ->
                                                                    Fuel)
                                                                    else 
                                                                    lex_next
                                                                    fuel'
                                                                    { l_rest =
                                                                    after;
                                                                    l_line =
                                                                    line';
                                                                    l_deferred =
                                                                    None }
                                                           | _ ->
                                                             let is_end =
                                                               N.eqb
                                                                 (last inner
                                                                   N0) (Npos
                                                                 (XI (XI (XI
                                                                 (XI (XO
                                                                 XH))))))
                                                             in
                                                             let text =
                                                               if is_end
                                                               then removelast
                                                                    inner
                                                               else inner
                                                             in
                                                             (match position
                                                                    is_ws text with
                                                              | Some sp ->
                                                                let elemname =
                                                                  firstn sp
                                                                    text
                                                                in
                                                                let attributes =
                                                                  skipn (S
                                                                    sp) text
                                                                in
                                                                Val (LOk
                                                                (st.l_line,
                                                                (EvBegin
                                                                (elemname,
                                                                attributes)),
                                                                { l_rest =
                                                                after;
                                                                l_line =
                                                                (N.add
                                                                  st.l_line
                                                                  (count_lines
                                                                    text));
                                                                l_deferred =
                                                                (if is_end
                                                                 then 
                                                                   Some
                                                                    elemname
                                                                 else None) }))
                                                              | None ->
                                                                let attributes =
                                                                  []
                                                                in
                                                                Val (LOk
                                                                (st.l_line,
                                                                (EvBegin
                                                                (text,
                                                                attributes)),
                                                                { l_rest =
                                                                after;
                                                                l_line =
                                                                (N.add
                                                                  st.l_line
                                                                  (count_lines
                                                                    text));
                                                                l_deferred =
                                                                (if is_end
                                                                 then 
                                                                   Some text
                                                                 else None) }))))
                                                        | XO p10 ->
                                                          (match p10 with
                                                           | XH ->
                                                             Val (LOk
                                                               (st.l_line,
                                                               (EvEnd
                                                               (skipn (S O)
                                                                 inner)),
                                                               { l_rest =
                                                               after;
                                                               l_line =
                                                               st.l_line;
                                                               l_deferred =
                                                               None }))
                                                           | _ ->
                                                             let is_end =
                                                               N.eqb
                                                                 (last inner
                                                                   N0) (Npos
                                                                 (XI (XI (XI
                                                                 (XI (XO
                                                                 XH))))))
                                                             in
                                                             let text =
                                                               if is_end
                                                               then removelast
                                                                    inner
                                                               else inner
                                                             in
                                                             (match position
                                                                    is_ws text with
                                                              | Some sp ->
                                                                let elemname =
                                                                  firstn sp
                                                                    text
                                                                in
                                                                let attributes =
                                                                  skipn (S
                                                                    sp) text
                                                                in
                                                                Val (LOk
                                                                (st.l_line,
                                                                (EvBegin
                                                                (elemname,
                                                                attributes)),
                                                                { l_rest =
                                                                after;
                                                                l_line =
                                                                (N.add
                                                                  st.l_line
                                                                  (count_lines
                                                                    text));
                                                                l_deferred =
                                                                (if is_end
                                                                 then 
                                                                   Some
                                                                    elemname
                                                                 else None) }))
                                                              | None ->
                                                                let attributes =
                                                                  []
                                                                in
                                                                Val (LOk
                                                                (st.l_line,
                                                                (EvBegin
                                                                (text,
                                                                attributes)),
                                                                { l_rest =
                                                                after;
                                                                l_line =
                                                                (N.add
                                                                  st.l_line
                                                                  (count_lines
                                                                    text));
                                                                l_deferred =
                                                                (if is_end
                                                                 then 
                                                                   Some text
                                                                 else None) }))))
                                                        | XH ->
                                                          let is_end =
                                                            N.eqb
                                                              (last inner N0)
                                                              (Npos (XI (XI
                                                              (XI (XI (XO
                                                              XH))))))
                                                          in
                                                          let text =
                                                            if is_end
                                                            then removelast
                                                                   inner
                                                            else inner
                                                          in
                                                          (match position
                                                                   is_ws text with
                                                           | Some sp ->
                                                             let elemname =
                                                               firstn sp text
                                                             in
                                                             let attributes =
                                                               skipn (S sp)
                                                                 text
                                                             in
                                                             Val (LOk
                                                             (st.l_line,
                                                             (EvBegin
                                                             (elemname,
                                                             attributes)),
                                                             { l_rest =
                                                             after; l_line =
                                                             (N.add st.l_line
                                                               (count_lines
                                                                 text));
                                                             l_deferred =
                                                             (if is_end
                                                              then Some
                                                                    elemname
                                                              else None) }))
                                                           | None ->
                                                             let attributes =
                                                               []
                                                             in
                                                             Val (LOk
                                                             (st.l_line,
                                                             (EvBegin (text,
                                                             attributes)),
                                                             { l_rest =
                                                             after; l_line =
                                                             (N.add st.l_line
                                                               (count_lines
                                                                 text));
                                                             l_deferred =
                                                             (if is_end
                                                              then Some text
                                                              else None) }))))
                                                     | _ ->
                                                       let is_end =
                                                         N.eqb
                                                           (last inner N0)
                                                           (Npos (XI (XI (XI
                                                           (XI (XO XH))))))
                                                       in
                                                       let text =
                                                         if is_end
                                                         then removelast inner
                                                         else inner
                                                       in
                                                       (match position is_ws
                                                                text with
                                                        | Some sp ->
                                                          let elemname =
                                                            firstn sp text
                                                          in
                                                          let attributes =
                                                            skipn (S sp) text
                                                          in
                                                          Val (LOk
                                                          (st.l_line,
                                                          (EvBegin (elemname,
                                                          attributes)),
                                                          { l_rest = after;
                                                          l_line =
                                                          (N.add st.l_line
                                                            (count_lines text));
                                                          l_deferred =
                                                          (if is_end
                                                           then Some elemname
                                                           else None) }))
                                                        | None ->
                                                          let attributes = []
                                                          in
                                                          Val (LOk
                                                          (st.l_line,
                                                          (EvBegin (text,
                                                          attributes)),
                                                          { l_rest = after;
                                                          l_line =
                                                          (N.add st.l_line
                                                            (count_lines text));
                                                          l_deferred =
                                                          (if is_end
                                                           then Some text
                                                           else None) }))))
                                                  | _ ->
                                                    let is_end =
                                                      N.eqb (last inner N0)
                                                        (Npos (XI (XI (XI (XI
                                                        (XO XH))))))
                                                    in
                                                    let text =
                                                      if is_end
                                                      then removelast inner
                                                      else inner
                                                    in
                                                    (match position is_ws text with
                                                     | Some sp ->
                                                       let elemname =
                                                         firstn sp text
                                                       in
                                                       let attributes =
                                                         skipn (S sp) text
                                                       in
                                                       Val (LOk (st.l_line,
                                                       (EvBegin (elemname,
                                                       attributes)),
                                                       { l_rest = after;
                                                       l_line =
                                                       (N.add st.l_line
                                                         (count_lines text));
                                                       l_deferred =
                                                       (if is_end
                                                        then Some elemname
                                                        else None) }))
                                                     | None ->
                                                       let attributes = [] in
                                                       Val (LOk (st.l_line,
                                                       (EvBegin (text,
                                                       attributes)),
                                                       { l_rest = after;
                                                       l_line =
                                                       (N.add st.l_line
                                                         (count_lines text));
                                                       l_deferred =
                                                       (if is_end
                                                        then Some text
                                                        else None) }))))
                                               | XO p7 ->
                                                 (match p7 with
                                                  | XO p8 ->
                                                    (match p8 with
                                                     | XO p9 ->
                                                       (match p9 with
                                                        | XO p10 ->
                                                          (match p10 with
                                                           | XH ->
                                                             let rest =
                                                               st.l_rest
                                                             in
                                                             (match comment_end
                                                                    (S
                                                                    (length
                                                                    rest))
                                                                    rest (S
                                                                    findpos) with
                                                              | Some k ->
                                                                let text =
                                                                  firstn k
                                                                    rest
                                                                in
                                                                if (||)
                                                                    ((||)
                                                                    (Nat.ltb
                                                                    k (S (S
                                                                    (S (S (S
                                                                    (S
                                                                    O)))))))
                                                                    (negb
                                                                    (starts_with
                                                                    ((Npos
                                                                    (XO (XO
                                                                    (XI (XI
                                                                    (XI
                                                                    XH)))))) :: ((Npos
                                                                    (XI (XO
                                                                    (XO (XO
                                                                    (XO
                                                                    XH)))))) :: ((Npos
                                                                    (XI (XO
                                                                    (XI (XI
                                                                    (XO
                                                                    XH)))))) :: ((Npos
                                                                    (XI (XO
                                                                    (XI (XI
                                                                    (XO
                                                                    XH)))))) :: []))))
                                                                    text)))
                                                                    (negb
                                                                    (ends_with
                                                                    ((Npos
                                                                    (XI (XO
                                                                    (XI (XI
                                                                    (XO
                                                                    XH)))))) :: ((Npos
                                                                    (XI (XO
                                                                    (XI (XI
                                                                    (XO
                                                                    XH)))))) :: []))
                                                                    text))
                                                                then 
                                                                  Val (LErr
                                                                    (st.l_line,
                                                                    InvalidComment))
                                                                else 
                                                                  let line' =
                                                                    N.add
                                                                    st.l_line
                                                                    (count_lines
                                                                    text)
                                                                  in
                                                                  Val (LOk
                                                                  (line',
                                                                  (EvComment
                                                                  (firstn
                                                                    (sub
                                                                    (sub k (S
                                                                    (S O)))
                                                                    (S (S (S
                                                                    (S O)))))
                                                                    (skipn (S
                                                                    (S (S (S
                                                                    O))))
                                                                    rest))),
                                                                  { l_rest =
                                                                  (skipn (S
                                                                    k) rest);
                                                                  l_line =
                                                                  line';
                                                                  l_deferred =
                                                                  None }))
                                                              | None ->
                                                                Val (LErr
                                                                  (st.l_line,
                                                                  InvalidComment)))
                                                           | _ ->
                                                             let is_end =
                                                               N.eqb
                                                                 (last inner
                                                                   N0) (Npos
                                                                 (XI (XI (XI
                                                                 (XI (XO
                                                                 XH))))))
                                                             in
                                                             let text =
                                                               if is_end
                                                               then removelast
                                                                    inner
                                                               else inner
                                                             in
                                                             (match position
                                                                    is_ws text with
                                                              | Some sp ->
                                                                let elemname =
                                                                  firstn sp
                                                                    text
                                                                in
                                                                let attributes =
                                                                  skipn (S
                                                                    sp) text
                                                                in
                                                                Val (LOk
                                                                (st.l_line,
                                                                (EvBegin
                                                                (elemname,
                                                                attributes)),
                                                                { l_rest =
                                                                after;
                                                                l_line =
                                                                (N.add
                                                                  st.l_line
                                                                  (count_lines
                                                                    text));
                                                                l_deferred =
                                                                (if is_end
                                                                 then 
                                                                   Some
                                                                    elemname
                                                                 else None) }))
                                                              | None ->
                                                                let attributes =
                                                                  []
                                                                in
                                                                Val (LOk
                                                                (st.l_line,
                                                                (EvBegin
                                                                (text,
                                                                attributes)),
                                                                { l_rest =
                                                                after;
                                                                l_line =
                                                                (N.add
                                                                  st.l_line
                                                                  (count_lines
                                                                    text));
                                                                l_deferred =
                                                                (if is_end
                                                                 then 
                                                                   Some text
                                                                 else None) }))))
                                                        | _ ->
                                                          let is_end =
                                                            N.eqb
                                                              (last inner N0)
                                                              (Npos (XI (XI
                                                              (XI (XI (XO
                                                              XH))))))
                                                          in
                                                          let text =
                                                            if is_end
                                                            then removelast
                                                                   inner
                                                            else inner
                                                          in
                                                          (match position
                                                                   is_ws text with
                                                           | Some sp ->
                                                             let elemname =
                                                               firstn sp text
                                                             in
                                                             let attributes =
                                                               skipn (S sp)
                                                                 text
                                                             in
                                                             Val (LOk
                                                             (st.l_line,
                                                             (EvBegin
                                                             (elemname,
                                                             attributes)),
                                                             { l_rest =
                                                             after; l_line =
                                                             (N.add st.l_line
                                                               (count_lines
                                                                 text));
                                                             l_deferred =
                                                             (if is_end
                                                              then Some
                                                                    elemname
                                                              else None) }))
                                                           | None ->
                                                             let attributes =
                                                               []
                                                             in
                                                             Val (LOk
                                                             (st.l_line,
                                                             (EvBegin (text,
                                                             attributes)),
                                                             { l_rest =
                                                             after; l_line =
                                                             (N.add st.l_line
                                                               (count_lines
                                                                 text));
                                                             l_deferred =
                                                             (if is_end
                                                              then Some text
                                                              else None) }))))
                                                     | _ ->
                                                       let is_end =
                                                         N.eqb
                                                           (last inner N0)
                                                           (Npos (XI (XI (XI
                                                           (XI (XO XH))))))
                                                       in
                                                       let text =
                                                         if is_end
                                                         then removelast inner
                                                         else inner
                                                       in
                                                       (match position is_ws
                                                                text with
                                                        | Some sp ->
                                                          let elemname =
                                                            firstn sp text
                                                          in
                                                          let attributes =
                                                            skipn (S sp) text
                                                          in
                                                          Val (LOk
                                                          (st.l_line,
                                                          (EvBegin (elemname,
                                                          attributes)),
                                                          { l_rest = after;
                                                          l_line =
                                                          (N.add st.l_line
                                                            (count_lines text));
                                                          l_deferred =
                                                          (if is_end
                                                           then Some elemname
                                                           else None) }))
                                                        | None ->
                                                          let attributes = []
                                                          in
                                                          Val (LOk
                                                          (st.l_line,
                                                          (EvBegin (text,
                                                          attributes)),
                                                          { l_rest = after;
                                                          l_line =
                                                          (N.add st.l_line
                                                            (count_lines text));
                                                          l_deferred =
                                                          (if is_end
                                                           then Some text
                                                           else None) }))))
                                                  | _ ->
                                                    let is_end =
                                                      N.eqb (last inner N0)
                                                        (Npos (XI (XI (XI (XI
                                                        (XO XH))))))
                                                    in
                                                    let text =
                                                      if is_end
                                                      then removelast inner
                                                      else inner
                                                    in
                                                    (match position is_ws text with
                                                     | Some sp ->
                                                       let elemname =
                                                         firstn sp text
                                                       in
                                                       let attributes =
                                                         skipn (S sp) text
                                                       in
                                                       Val (LOk (st.l_line,
                                                       (EvBegin (elemname,
                                                       attributes)),
                                                       { l_rest = after;
                                                       l_line =
                                                       (N.add st.l_line
                                                         (count_lines text));
                                                       l_deferred =
                                                       (if is_end
                                                        then Some elemname
                                                        else None) }))
                                                     | None ->
                                                       let attributes = [] in
                                                       Val (LOk (st.l_line,
                                                       (EvBegin (text,
                                                       attributes)),
                                                       { l_rest = after;
                                                       l_line =
                                                       (N.add st.l_line
                                                         (count_lines text));
                                                       l_deferred =
                                                       (if is_end
                                                        then Some text
                                                        else None) }))))
                                               | XH ->
                                                 let is_end =
                                                   N.eqb (last inner N0)
                                                     (Npos (XI (XI (XI (XI
                                                     (XO XH))))))
                                                 in
                                                 let text =
                                                   if is_end
                                                   then removelast inner
                                                   else inner
                                                 in
                                                 (match position is_ws text with
                                                  | Some sp ->
                                                    let elemname =
                                                      firstn sp text
                                                    in
                                                    let attributes =
                                                      skipn (S sp) text
                                                    in
                                                    Val (LOk (st.l_line,
                                                    (EvBegin (elemname,
                                                    attributes)), { l_rest =
                                                    after; l_line =
                                                    (N.add st.l_line
                                                      (count_lines text));
                                                    l_deferred =
                                                    (if is_end
                                                     then Some elemname
                                                     else None) }))
                                                  | None ->
                                                    let attributes = [] in
                                                    Val (LOk (st.l_line,
                                                    (EvBegin (text,
                                                    attributes)), { l_rest =
                                                    after; l_line =
                                                    (N.add st.l_line
                                                      (count_lines text));
                                                    l_deferred =
                                                    (if is_end
                                                     then Some text
                                                     else None) }))))
                                            | _ ->
                                              let is_end =
                                                N.eqb (last inner N0) (Npos
                                                  (XI (XI (XI (XI (XO XH))))))
                                              in
                                              let text =
                                                if is_end
                                                then removelast inner
                                                else inner
                                              in
                                              (match position is_ws text with
                                               | Some sp ->
                                                 let elemname = firstn sp text
                                                 in
                                                 let attributes =
                                                   skipn (S sp) text
                                                 in
                                                 Val (LOk (st.l_line,
                                                 (EvBegin (elemname,
                                                 attributes)), { l_rest =
                                                 after; l_line =
                                                 (N.add st.l_line
                                                   (count_lines text));
                                                 l_deferred =
                                                 (if is_end
                                                  then Some elemname
                                                  else None) }))
                                               | None ->
                                                 let attributes = [] in
                                                 Val (LOk (st.l_line,
                                                 (EvBegin (text,
                                                 attributes)), { l_rest =
                                                 after; l_line =
                                                 (N.add st.l_line
                                                   (count_lines text));
                                                 l_deferred =
                                                 (if is_end
                                                  then Some text
                                                  else None) })))))))
                                | None ->
                                  Val (LErr (st.l_line, IncompleteData)))
                             | _ ->
                               let n1 =
                                 match position
                                         (N.eqb (Npos (XO (XO (XI (XI (XI
                                           XH))))))) st.l_rest with
                                 | Some n1 -> n1
                                 | None -> length st.l_rest
                               in
                               let text = firstn n1 st.l_rest in
                               let line' = N.add st.l_line (count_lines text)
                               in
                               let st' = { l_rest = (skipn n1 st.l_rest);
                                 l_line = line'; l_deferred = None }
                               in
                               if forallb is_ws text
                               then lex_next fuel' st'
                               else Val (LOk (line', (EvChars text), st')))
                          | _ ->
                            let n1 =
                              match position
                                      (N.eqb (Npos (XO (XO (XI (XI (XI
                                        XH))))))) st.l_rest with
                              | Some n1 -> n1
                              | None -> length st.l_rest
                            in
                            let text = firstn n1 st.l_rest in
                            let line' = N.add st.l_line (count_lines text) in
                            let st' = { l_rest = (skipn n1 st.l_rest);
                              l_line = line'; l_deferred = None }
                            in
                            if forallb is_ws text
                            then lex_next fuel' st'
                            else Val (LOk (line', (EvChars text), st')))
                       | _ ->
                         let n1 =
                           match position
                                   (N.eqb (Npos (XO (XO (XI (XI (XI XH)))))))
                                   st.l_rest with
                           | Some n1 -> n1
                           | None -> length st.l_rest
                         in
                         let text = firstn n1 st.l_rest in
                         let line' = N.add st.l_line (count_lines text) in
                         let st' = { l_rest = (skipn n1 st.l_rest); l_line =
                           line'; l_deferred = None }
                         in
                         if forallb is_ws text
                         then lex_next fuel' st'
                         else Val (LOk (line', (EvChars text), st')))
                    | _ ->
                      let n1 =
                        match position
                                (N.eqb (Npos (XO (XO (XI (XI (XI XH)))))))
                                st.l_rest with
                        | Some n1 -> n1
                        | None -> length st.l_rest
                      in
                      let text = firstn n1 st.l_rest in
                      let line' = N.add st.l_line (count_lines text) in
                      let st' = { l_rest = (skipn n1 st.l_rest); l_line =
                        line'; l_deferred = None }
                      in
                      if forallb is_ws text
                      then lex_next fuel' st'
                      else Val (LOk (line', (EvChars text), st')))
                 | _ ->
                   let n1 =
                     match position
                             (N.eqb (Npos (XO (XO (XI (XI (XI XH)))))))
                             st.l_rest with
                     | Some n1 -> n1
                     | None -> length st.l_rest
                   in
                   let text = firstn n1 st.l_rest in
                   let line' = N.add st.l_line (count_lines text) in
                   let st' = { l_rest = (skipn n1 st.l_rest); l_line = line';
                     l_deferred = None }
                   in
                   if forallb is_ws text
                   then lex_next fuel' st'
                   else Val (LOk (line', (EvChars text), st')))
              | _ ->
                let n1 =
                  match position (N.eqb (Npos (XO (XO (XI (XI (XI XH)))))))
                          st.l_rest with
                  | Some n1 -> n1
                  | None -> length st.l_rest
                in
                let text = firstn n1 st.l_rest in
                let line' = N.add st.l_line (count_lines text) in
                let st' = { l_rest = (skipn n1 st.l_rest); l_line = line';
                  l_deferred = None }
                in
                if forallb is_ws text
                then lex_next fuel' st'
                else Val (LOk (line', (EvChars text), st'))))))

(** val lex_fuel : lstate -> nat **)

let lex_fuel st =
  S (length st.l_rest)

(** val next : lstate -> lexout res **)

let next st =
  lex_next (lex_fuel st) st

(** val digit_val : n -> n -> n option **)

let digit_val radix c =
  let d =
    if (&&) (N.leb (Npos (XO (XO (XO (XO (XI XH)))))) c)
         (N.leb c (Npos (XI (XO (XO (XI (XI XH)))))))
    then Some (N.sub c (Npos (XO (XO (XO (XO (XI XH)))))))
    else if (&&) (N.leb (Npos (XI (XO (XO (XO (XO (XI XH))))))) c)
              (N.leb c (Npos (XO (XI (XO (XI (XI (XI XH))))))))
         then Some
                (N.add (N.sub c (Npos (XI (XO (XO (XO (XO (XI XH))))))))
                  (Npos (XO (XI (XO XH)))))
         else if (&&) (N.leb (Npos (XI (XO (XO (XO (XO (XO XH))))))) c)
                   (N.leb c (Npos (XO (XI (XO (XI (XI (XO XH))))))))
              then Some
                     (N.add (N.sub c (Npos (XI (XO (XO (XO (XO (XO XH))))))))
                       (Npos (XO (XI (XO XH)))))
              else None
  in
  (match d with
   | Some v -> if N.ltb v radix then Some v else None
   | None -> None)

(** val digits_val : n -> n -> n -> n list -> n option **)

let rec digits_val radix limit acc = function
| [] -> Some acc
| c :: s' ->
  (match digit_val radix c with
   | Some d ->
     let acc' = N.add (N.mul acc radix) d in
     if N.ltb limit acc' then None else digits_val radix limit acc' s'
   | None -> None)

(** val from_str_radix_u : n -> n -> n list -> n option **)

let from_str_radix_u bits radix s = match s with
| [] -> None
| n0 :: ds ->
  (match n0 with
   | N0 -> digits_val radix (N.sub (N.pow (Npos (XO XH)) bits) (Npos XH)) N0 s
   | Npos p ->
     (match p with
      | XI p0 ->
        (match p0 with
         | XI p1 ->
           (match p1 with
            | XO p2 ->
              (match p2 with
               | XI p3 ->
                 (match p3 with
                  | XO p4 ->
                    (match p4 with
                     | XH ->
                       (match ds with
                        | [] -> None
                        | _ :: _ ->
                          digits_val radix
                            (N.sub (N.pow (Npos (XO XH)) bits) (Npos XH)) N0
                            ds)
                     | _ ->
                       digits_val radix
                         (N.sub (N.pow (Npos (XO XH)) bits) (Npos XH)) N0 s)
                  | _ ->
                    digits_val radix
                      (N.sub (N.pow (Npos (XO XH)) bits) (Npos XH)) N0 s)
               | _ ->
                 digits_val radix
                   (N.sub (N.pow (Npos (XO XH)) bits) (Npos XH)) N0 s)
            | _ ->
              digits_val radix (N.sub (N.pow (Npos (XO XH)) bits) (Npos XH))
                N0 s)
         | XO p1 ->
           (match p1 with
            | XI p2 ->
              (match p2 with
               | XI p3 ->
                 (match p3 with
                  | XO p4 ->
                    (match p4 with
                     | XH ->
                       (match ds with
                        | [] -> None
                        | _ :: _ ->
                          digits_val radix
                            (N.sub (N.pow (Npos (XO XH)) bits) (Npos XH)) N0 s)
                     | _ ->
                       digits_val radix
                         (N.sub (N.pow (Npos (XO XH)) bits) (Npos XH)) N0 s)
                  | _ ->
                    digits_val radix
                      (N.sub (N.pow (Npos (XO XH)) bits) (Npos XH)) N0 s)
               | _ ->
                 digits_val radix
                   (N.sub (N.pow (Npos (XO XH)) bits) (Npos XH)) N0 s)
            | _ ->
              digits_val radix (N.sub (N.pow (Npos (XO XH)) bits) (Npos XH))
                N0 s)
         | XH ->
           digits_val radix (N.sub (N.pow (Npos (XO XH)) bits) (Npos XH)) N0 s)
      | _ ->
        digits_val radix (N.sub (N.pow (Npos (XO XH)) bits) (Npos XH)) N0 s))

(** val ver_enum : (string * n) list **)

let ver_enum =
  ((String ((Ascii (true, false, false, false, false, false, true, false)),
    (String ((Ascii (true, false, true, false, true, true, true, false)),
    (String ((Ascii (false, false, true, false, true, true, true, false)),
    (String ((Ascii (true, true, true, true, false, true, true, false)),
    (String ((Ascii (true, true, false, false, true, true, true, false)),
    (String ((Ascii (true, false, false, false, false, true, true, false)),
    (String ((Ascii (false, true, false, false, true, true, true, false)),
    (String ((Ascii (true, true, true, true, true, false, true, false)),
    (String ((Ascii (false, false, true, false, true, true, false, false)),
    (String ((Ascii (true, true, true, true, true, false, true, false)),
    (String ((Ascii (false, false, false, false, true, true, false, false)),
    (String ((Ascii (true, true, true, true, true, false, true, false)),
    (String ((Ascii (true, false, false, false, true, true, false, false)),
    EmptyString)))))))))))))))))))))))))), (Npos XH)) :: (((String ((Ascii
    (true, false, false, false, false, false, true, false)), (String ((Ascii
    (true, false, true, false, true, true, true, false)), (String ((Ascii
    (false, false, true, false, true, true, true, false)), (String ((Ascii
    (true, true, true, true, false, true, true, false)), (String ((Ascii
    (true, true, false, false, true, true, true, false)), (String ((Ascii
    (true, false, false, false, false, true, true, false)), (String ((Ascii
    (false, true, false, false, true, true, true, false)), (String ((Ascii
    (true, true, true, true, true, false, true, false)), (String ((Ascii
    (false, false, true, false, true, true, false, false)), (String ((Ascii
    (true, true, true, true, true, false, true, false)), (String ((Ascii
    (false, false, false, false, true, true, false, false)), (String ((Ascii
    (true, true, true, true, true, false, true, false)), (String ((Ascii
    (false, true, false, false, true, true, false, false)),
    EmptyString)))))))))))))))))))))))))), (Npos (XO XH))) :: (((String
    ((Ascii (true, false, false, false, false, false, true, false)), (String
    ((Ascii (true, false, true, false, true, true, true, false)), (String
    ((Ascii (false, false, true, false, true, true, true, false)), (String
    ((Ascii (true, true, true, true, false, true, true, false)), (String
    ((Ascii (true, true, false, false, true, true, true, false)), (String
    ((Ascii (true, false, false, false, false, true, true, false)), (String
    ((Ascii (false, true, false, false, true, true, true, false)), (String
    ((Ascii (true, true, true, true, true, false, true, false)), (String
    ((Ascii (false, false, true, false, true, true, false, false)), (String
    ((Ascii (true, true, true, true, true, false, true, false)), (String
    ((Ascii (false, false, false, false, true, true, false, false)), (String
    ((Ascii (true, true, true, true, true, false, true, false)), (String
    ((Ascii (true, true, false, false, true, true, false, false)),
    EmptyString)))))))))))))))))))))))))), (Npos (XO (XO XH)))) :: (((String
    ((Ascii (true, false, false, false, false, false, true, false)), (String
    ((Ascii (true, false, true, false, true, true, true, false)), (String
    ((Ascii (false, false, true, false, true, true, true, false)), (String
    ((Ascii (true, true, true, true, false, true, true, false)), (String
    ((Ascii (true, true, false, false, true, true, true, false)), (String
    ((Ascii (true, false, false, false, false, true, true, false)), (String
    ((Ascii (false, true, false, false, true, true, true, false)), (String
    ((Ascii (true, true, true, true, true, false, true, false)), (String
    ((Ascii (false, false, true, false, true, true, false, false)), (String
    ((Ascii (true, true, true, true, true, false, true, false)), (String
    ((Ascii (true, false, false, false, true, true, false, false)), (String
    ((Ascii (true, true, true, true, true, false, true, false)), (String
    ((Ascii (true, false, false, false, true, true, false, false)),
    EmptyString)))))))))))))))))))))))))), (Npos (XO (XO (XO
    XH))))) :: (((String ((Ascii (true, false, false, false, false, false,
    true, false)), (String ((Ascii (true, false, true, false, true, true,
    true, false)), (String ((Ascii (false, false, true, false, true, true,
    true, false)), (String ((Ascii (true, true, true, true, false, true,
    true, false)), (String ((Ascii (true, true, false, false, true, true,
    true, false)), (String ((Ascii (true, false, false, false, false, true,
    true, false)), (String ((Ascii (false, true, false, false, true, true,
    true, false)), (String ((Ascii (true, true, true, true, true, false,
    true, false)), (String ((Ascii (false, false, true, false, true, true,
    false, false)), (String ((Ascii (true, true, true, true, true, false,
    true, false)), (String ((Ascii (true, false, false, false, true, true,
    false, false)), (String ((Ascii (true, true, true, true, true, false,
    true, false)), (String ((Ascii (false, true, false, false, true, true,
    false, false)), EmptyString)))))))))))))))))))))))))), (Npos (XO (XO (XO
    (XO XH)))))) :: (((String ((Ascii (true, false, false, false, false,
    false, true, false)), (String ((Ascii (true, false, true, false, true,
    true, true, false)), (String ((Ascii (false, false, true, false, true,
    true, true, false)), (String ((Ascii (true, true, true, true, false,
    true, true, false)), (String ((Ascii (true, true, false, false, true,
    true, true, false)), (String ((Ascii (true, false, false, false, false,
    true, true, false)), (String ((Ascii (false, true, false, false, true,
    true, true, false)), (String ((Ascii (true, true, true, true, true,
    false, true, false)), (String ((Ascii (false, false, true, false, true,
    true, false, false)), (String ((Ascii (true, true, true, true, true,
    false, true, false)), (String ((Ascii (true, false, false, false, true,
    true, false, false)), (String ((Ascii (true, true, true, true, true,
    false, true, false)), (String ((Ascii (true, true, false, false, true,
    true, false, false)), EmptyString)))))))))))))))))))))))))), (Npos (XO
    (XO (XO (XO (XO XH))))))) :: (((String ((Ascii (true, false, false,
    false, false, false, true, false)), (String ((Ascii (true, false, true,
    false, true, true, true, false)), (String ((Ascii (false, false, true,
    false, true, true, true, false)), (String ((Ascii (true, true, true,
    true, false, true, true, false)), (String ((Ascii (true, true, false,
    false, true, true, true, false)), (String ((Ascii (true, false, false,
    false, false, true, true, false)), (String ((Ascii (false, true, false,
    false, true, true, true, false)), (String ((Ascii (true, true, true,
    true, true, false, true, false)), (String ((Ascii (false, false, true,
    false, true, true, false, false)), (String ((Ascii (true, true, true,
    true, true, false, true, false)), (String ((Ascii (false, true, false,
    false, true, true, false, false)), (String ((Ascii (true, true, true,
    true, true, false, true, false)), (String ((Ascii (true, false, false,
    false, true, true, false, false)), EmptyString)))))))))))))))))))))))))),
    (Npos (XO (XO (XO (XO (XO (XO XH)))))))) :: (((String ((Ascii (true,
    false, false, false, false, false, true, false)), (String ((Ascii (true,
    false, true, false, true, true, true, false)), (String ((Ascii (false,
    false, true, false, true, true, true, false)), (String ((Ascii (true,
    true, true, true, false, true, true, false)), (String ((Ascii (true,
    true, false, false, true, true, true, false)), (String ((Ascii (true,
    false, false, false, false, true, true, false)), (String ((Ascii (false,
    true, false, false, true, true, true, false)), (String ((Ascii (true,
    true, true, true, true, false, true, false)), (String ((Ascii (false,
    false, true, false, true, true, false, false)), (String ((Ascii (true,
    true, true, true, true, false, true, false)), (String ((Ascii (false,
    true, false, false, true, true, false, false)), (String ((Ascii (true,
    true, true, true, true, false, true, false)), (String ((Ascii (false,
    true, false, false, true, true, false, false)),
    EmptyString)))))))))))))))))))))))))), (Npos (XO (XO (XO (XO (XO (XO (XO
    XH))))))))) :: (((String ((Ascii (true, false, false, false, false,
    false, true, false)), (String ((Ascii (true, false, true, false, true,
    true, true, false)), (String ((Ascii (false, false, true, false, true,
    true, true, false)), (String ((Ascii (true, true, true, true, false,
    true, true, false)), (String ((Ascii (true, true, false, false, true,
    true, true, false)), (String ((Ascii (true, false, false, false, false,
    true, true, false)), (String ((Ascii (false, true, false, false, true,
    true, true, false)), (String ((Ascii (true, true, true, true, true,
    false, true, false)), (String ((Ascii (false, false, true, false, true,
    true, false, false)), (String ((Ascii (true, true, true, true, true,
    false, true, false)), (String ((Ascii (true, true, false, false, true,
    true, false, false)), (String ((Ascii (true, true, true, true, true,
    false, true, false)), (String ((Ascii (false, false, false, false, true,
    true, false, false)), EmptyString)))))))))))))))))))))))))), (Npos (XO
    (XO (XO (XO (XO (XO (XO (XO XH)))))))))) :: (((String ((Ascii (true,
    false, false, false, false, false, true, false)), (String ((Ascii (true,
    false, true, false, true, true, true, false)), (String ((Ascii (false,
    false, true, false, true, true, true, false)), (String ((Ascii (true,
    true, true, true, false, true, true, false)), (String ((Ascii (true,
    true, false, false, true, true, true, false)), (String ((Ascii (true,
    false, false, false, false, true, true, false)), (String ((Ascii (false,
    true, false, false, true, true, true, false)), (String ((Ascii (true,
    true, true, true, true, false, true, false)), (String ((Ascii (false,
    false, false, false, true, true, false, false)), (String ((Ascii (false,
    false, false, false, true, true, false, false)), (String ((Ascii (false,
    false, false, false, true, true, false, false)), (String ((Ascii (false,
    false, true, false, true, true, false, false)), (String ((Ascii (false,
    true, false, false, true, true, false, false)),
    EmptyString)))))))))))))))))))))))))), (Npos (XO (XO (XO (XO (XO (XO (XO
    (XO (XO XH))))))))))) :: (((String ((Ascii (true, false, false, false,
    false, false, true, false)), (String ((Ascii (true, false, true, false,
    true, true, true, false)), (String ((Ascii (false, false, true, false,
    true, true, true, false)), (String ((Ascii (true, true, true, true,
    false, true, true, false)), (String ((Ascii (true, true, false, false,
    true, true, true, false)), (String ((Ascii (true, false, false, false,
    false, true, true, false)), (String ((Ascii (false, true, false, false,
    true, true, true, false)), (String ((Ascii (true, true, true, true, true,
    false, true, false)), (String ((Ascii (false, false, false, false, true,
    true, false, false)), (String ((Ascii (false, false, false, false, true,
    true, false, false)), (String ((Ascii (false, false, false, false, true,
    true, false, false)), (String ((Ascii (false, false, true, false, true,
    true, false, false)), (String ((Ascii (true, true, false, false, true,
    true, false, false)), EmptyString)))))))))))))))))))))))))), (Npos (XO
    (XO (XO (XO (XO (XO (XO (XO (XO (XO XH)))))))))))) :: (((String ((Ascii
    (true, false, false, false, false, false, true, false)), (String ((Ascii
    (true, false, true, false, true, true, true, false)), (String ((Ascii
    (false, false, true, false, true, true, true, false)), (String ((Ascii
    (true, true, true, true, false, true, true, false)), (String ((Ascii
    (true, true, false, false, true, true, true, false)), (String ((Ascii
    (true, false, false, false, false, true, true, false)), (String ((Ascii
    (false, true, false, false, true, true, true, false)), (String ((Ascii
    (true, true, true, true, true, false, true, false)), (String ((Ascii
    (false, false, false, false, true, true, false, false)), (String ((Ascii
    (false, false, false, false, true, true, false, false)), (String ((Ascii
    (false, false, false, false, true, true, false, false)), (String ((Ascii
    (false, false, true, false, true, true, false, false)), (String ((Ascii
    (false, false, true, false, true, true, false, false)),
    EmptyString)))))))))))))))))))))))))), (Npos (XO (XO (XO (XO (XO (XO (XO
    (XO (XO (XO (XO XH))))))))))))) :: (((String ((Ascii (true, false, false,
    false, false, false, true, false)), (String ((Ascii (true, false, true,
    false, true, true, true, false)), (String ((Ascii (false, false, true,
    false, true, true, true, false)), (String ((Ascii (true, true, true,
    true, false, true, true, false)), (String ((Ascii (true, true, false,
    false, true, true, true, false)), (String ((Ascii (true, false, false,
    false, false, true, true, false)), (String ((Ascii (false, true, false,
    false, true, true, true, false)), (String ((Ascii (true, true, true,
    true, true, false, true, false)), (String ((Ascii (false, false, false,
    false, true, true, false, false)), (String ((Ascii (false, false, false,
    false, true, true, false, false)), (String ((Ascii (false, false, false,
    false, true, true, false, false)), (String ((Ascii (false, false, true,
    false, true, true, false, false)), (String ((Ascii (true, false, true,
    false, true, true, false, false)), EmptyString)))))))))))))))))))))))))),
    (Npos (XO (XO (XO (XO (XO (XO (XO (XO (XO (XO (XO (XO
    XH)))))))))))))) :: (((String ((Ascii (true, false, false, false, false,
    false, true, false)), (String ((Ascii (true, false, true, false, true,
    true, true, false)), (String ((Ascii (false, false, true, false, true,
    true, true, false)), (String ((Ascii (true, true, true, true, false,
    true, true, false)), (String ((Ascii (true, true, false, false, true,
    true, true, false)), (String ((Ascii (true, false, false, false, false,
    true, true, false)), (String ((Ascii (false, true, false, false, true,
    true, true, false)), (String ((Ascii (true, true, true, true, true,
    false, true, false)), (String ((Ascii (false, false, false, false, true,
    true, false, false)), (String ((Ascii (false, false, false, false, true,
    true, false, false)), (String ((Ascii (false, false, false, false, true,
    true, false, false)), (String ((Ascii (false, false, true, false, true,
    true, false, false)), (String ((Ascii (false, true, true, false, true,
    true, false, false)), EmptyString)))))))))))))))))))))))))), (Npos (XO
    (XO (XO (XO (XO (XO (XO (XO (XO (XO (XO (XO (XO
    XH))))))))))))))) :: (((String ((Ascii (true, false, false, false, false,
    false, true, false)), (String ((Ascii (true, false, true, false, true,
    true, true, false)), (String ((Ascii (false, false, true, false, true,
    true, true, false)), (String ((Ascii (true, true, true, true, false,
    true, true, false)), (String ((Ascii (true, true, false, false, true,
    true, true, false)), (String ((Ascii (true, false, false, false, false,
    true, true, false)), (String ((Ascii (false, true, false, false, true,
    true, true, false)), (String ((Ascii (true, true, true, true, true,
    false, true, false)), (String ((Ascii (false, false, false, false, true,
    true, false, false)), (String ((Ascii (false, false, false, false, true,
    true, false, false)), (String ((Ascii (false, false, false, false, true,
    true, false, false)), (String ((Ascii (false, false, true, false, true,
    true, false, false)), (String ((Ascii (true, true, true, false, true,
    true, false, false)), EmptyString)))))))))))))))))))))))))), (Npos (XO
    (XO (XO (XO (XO (XO (XO (XO (XO (XO (XO (XO (XO (XO
    XH)))))))))))))))) :: (((String ((Ascii (true, false, false, false,
    false, false, true, false)), (String ((Ascii (true, false, true, false,
    true, true, true, false)), (String ((Ascii (false, false, true, false,
    true, true, true, false)), (String ((Ascii (true, true, true, true,
    false, true, true, false)), (String ((Ascii (true, true, false, false,
    true, true, true, false)), (String ((Ascii (true, false, false, false,
    false, true, true, false)), (String ((Ascii (false, true, false, false,
    true, true, true, false)), (String ((Ascii (true, true, true, true, true,
    false, true, false)), (String ((Ascii (false, false, false, false, true,
    true, false, false)), (String ((Ascii (false, false, false, false, true,
    true, false, false)), (String ((Ascii (false, false, false, false, true,
    true, false, false)), (String ((Ascii (false, false, true, false, true,
    true, false, false)), (String ((Ascii (false, false, false, true, true,
    true, false, false)), EmptyString)))))))))))))))))))))))))), (Npos (XO
    (XO (XO (XO (XO (XO (XO (XO (XO (XO (XO (XO (XO (XO (XO
    XH))))))))))))))))) :: (((String ((Ascii (true, false, false, false,
    false, false, true, false)), (String ((Ascii (true, false, true, false,
    true, true, true, false)), (String ((Ascii (false, false, true, false,
    true, true, true, false)), (String ((Ascii (true, true, true, true,
    false, true, true, false)), (String ((Ascii (true, true, false, false,
    true, true, true, false)), (String ((Ascii (true, false, false, false,
    false, true, true, false)), (String ((Ascii (false, true, false, false,
    true, true, true, false)), (String ((Ascii (true, true, true, true, true,
    false, true, false)), (String ((Ascii (false, false, false, false, true,
    true, false, false)), (String ((Ascii (false, false, false, false, true,
    true, false, false)), (String ((Ascii (false, false, false, false, true,
    true, false, false)), (String ((Ascii (false, false, true, false, true,
    true, false, false)), (String ((Ascii (true, false, false, true, true,
    true, false, false)), EmptyString)))))))))))))))))))))))))), (Npos (XO
    (XO (XO (XO (XO (XO (XO (XO (XO (XO (XO (XO (XO (XO (XO (XO
    XH)))))))))))))))))) :: (((String ((Ascii (true, false, false, false,
    false, false, true, false)), (String ((Ascii (true, false, true, false,
    true, true, true, false)), (String ((Ascii (false, false, true, false,
    true, true, true, false)), (String ((Ascii (true, true, true, true,
    false, true, true, false)), (String ((Ascii (true, true, false, false,
    true, true, true, false)), (String ((Ascii (true, false, false, false,
    false, true, true, false)), (String ((Ascii (false, true, false, false,
    true, true, true, false)), (String ((Ascii (true, true, true, true, true,
    false, true, false)), (String ((Ascii (false, false, false, false, true,
    true, false, false)), (String ((Ascii (false, false, false, false, true,
    true, false, false)), (String ((Ascii (false, false, false, false, true,
    true, false, false)), (String ((Ascii (true, false, true, false, true,
    true, false, false)), (String ((Ascii (false, false, false, false, true,
    true, false, false)), EmptyString)))))))))))))))))))))))))), (Npos (XO
    (XO (XO (XO (XO (XO (XO (XO (XO (XO (XO (XO (XO (XO (XO (XO (XO
    XH))))))))))))))))))) :: (((String ((Ascii (true, false, false, false,
    false, false, true, false)), (String ((Ascii (true, false, true, false,
    true, true, true, false)), (String ((Ascii (false, false, true, false,
    true, true, true, false)), (String ((Ascii (true, true, true, true,
    false, true, true, false)), (String ((Ascii (true, true, false, false,
    true, true, true, false)), (String ((Ascii (true, false, false, false,
    false, true, true, false)), (String ((Ascii (false, true, false, false,
    true, true, true, false)), (String ((Ascii (true, true, true, true, true,
    false, true, false)), (String ((Ascii (false, false, false, false, true,
    true, false, false)), (String ((Ascii (false, false, false, false, true,
    true, false, false)), (String ((Ascii (false, false, false, false, true,
    true, false, false)), (String ((Ascii (true, false, true, false, true,
    true, false, false)), (String ((Ascii (true, false, false, false, true,
    true, false, false)), EmptyString)))))))))))))))))))))))))), (Npos (XO
    (XO (XO (XO (XO (XO (XO (XO (XO (XO (XO (XO (XO (XO (XO (XO (XO (XO
    XH)))))))))))))))))))) :: (((String ((Ascii (true, false, false, false,
    false, false, true, false)), (String ((Ascii (true, false, true, false,
    true, true, true, false)), (String ((Ascii (false, false, true, false,
    true, true, true, false)), (String ((Ascii (true, true, true, true,
    false, true, true, false)), (String ((Ascii (true, true, false, false,
    true, true, true, false)), (String ((Ascii (true, false, false, false,
    false, true, true, false)), (String ((Ascii (false, true, false, false,
    true, true, true, false)), (String ((Ascii (true, true, true, true, true,
    false, true, false)), (String ((Ascii (false, false, false, false, true,
    true, false, false)), (String ((Ascii (false, false, false, false, true,
    true, false, false)), (String ((Ascii (false, false, false, false, true,
    true, false, false)), (String ((Ascii (true, false, true, false, true,
    true, false, false)), (String ((Ascii (false, true, false, false, true,
    true, false, false)), EmptyString)))))))))))))))))))))))))), (Npos (XO
    (XO (XO (XO (XO (XO (XO (XO (XO (XO (XO (XO (XO (XO (XO (XO (XO (XO (XO
    XH))))))))))))))))))))) :: (((String ((Ascii (true, false, false, false,
    false, false, true, false)), (String ((Ascii (true, false, true, false,
    true, true, true, false)), (String ((Ascii (false, false, true, false,
    true, true, true, false)), (String ((Ascii (true, true, true, true,
    false, true, true, false)), (String ((Ascii (true, true, false, false,
    true, true, true, false)), (String ((Ascii (true, false, false, false,
    false, true, true, false)), (String ((Ascii (false, true, false, false,
    true, true, true, false)), (String ((Ascii (true, true, true, true, true,
    false, true, false)), (String ((Ascii (false, false, false, false, true,
    true, false, false)), (String ((Ascii (false, false, false, false, true,
    true, false, false)), (String ((Ascii (false, false, false, false, true,
    true, false, false)), (String ((Ascii (true, false, true, false, true,
    true, false, false)), (String ((Ascii (true, true, false, false, true,
    true, false, false)), EmptyString)))))))))))))))))))))))))), (Npos (XO
    (XO (XO (XO (XO (XO (XO (XO (XO (XO (XO (XO (XO (XO (XO (XO (XO (XO (XO
    (XO XH)))))))))))))))))))))) :: []))))))))))))))))))))

(** val ver_filename : (n * string) list **)

let ver_filename =
  (N0, (String ((Ascii (true, false, false, false, false, false, true,
    false)), (String ((Ascii (true, false, true, false, true, false, true,
    false)), (String ((Ascii (false, false, true, false, true, false, true,
    false)), (String ((Ascii (true, true, true, true, false, false, true,
    false)), (String ((Ascii (true, true, false, false, true, false, true,
    false)), (String ((Ascii (true, false, false, false, false, false, true,
    false)), (String ((Ascii (false, true, false, false, true, false, true,
    false)), (String ((Ascii (true, true, true, true, true, false, true,
    false)), (String ((Ascii (false, false, true, false, true, true, false,
    false)), (String ((Ascii (true, false, true, true, false, true, false,
    false)), (String ((Ascii (false, false, false, false, true, true, false,
    false)), (String ((Ascii (true, false, true, true, false, true, false,
    false)), (String ((Ascii (true, false, false, false, true, true, false,
    false)), (String ((Ascii (false, true, true, true, false, true, false,
    false)), (String ((Ascii (false, false, false, true, true, true, true,
    false)), (String ((Ascii (true, true, false, false, true, true, true,
    false)), (String ((Ascii (false, false, true, false, false, true, true,
    false)), EmptyString))))))))))))))))))))))))))))))))))) :: (((Npos XH),
    (String ((Ascii (true, false, false, false, false, false, true, false)),
    (String ((Ascii (true, false, true, false, true, false, true, false)),
    (String ((Ascii (false, false, true, false, true, false, true, false)),
    (String ((Ascii (true, true, true, true, false, false, true, false)),
    (String ((Ascii (true, true, false, false, true, false, true, false)),
    (String ((Ascii (true, false, false, false, false, false, true, false)),
    (String ((Ascii (false, true, false, false, true, false, true, false)),
    (String ((Ascii (true, true, true, true, true, false, true, false)),
    (String ((Ascii (false, false, true, false, true, true, false, false)),
    (String ((Ascii (true, false, true, true, false, true, false, false)),
    (String ((Ascii (false, false, false, false, true, true, false, false)),
    (String ((Ascii (true, false, true, true, false, true, false, false)),
    (String ((Ascii (false, true, false, false, true, true, false, false)),
    (String ((Ascii (false, true, true, true, false, true, false, false)),
    (String ((Ascii (false, false, false, true, true, true, true, false)),
    (String ((Ascii (true, true, false, false, true, true, true, false)),
    (String ((Ascii (false, false, true, false, false, true, true, false)),
    EmptyString))))))))))))))))))))))))))))))))))) :: (((Npos (XO XH)),
    (String ((Ascii (true, false, false, false, false, false, true, false)),
    (String ((Ascii (true, false, true, false, true, false, true, false)),
    (String ((Ascii (false, false, true, false, true, false, true, false)),
    (String ((Ascii (true, true, true, true, false, false, true, false)),
    (String ((Ascii (true, true, false, false, true, false, true, false)),
    (String ((Ascii (true, false, false, false, false, false, true, false)),
    (String ((Ascii (false, true, false, false, true, false, true, false)),
    (String ((Ascii (true, true, true, true, true, false, true, false)),
    (String ((Ascii (false, false, true, false, true, true, false, false)),
    (String ((Ascii (true, false, true, true, false, true, false, false)),
    (String ((Ascii (false, false, false, false, true, true, false, false)),
    (String ((Ascii (true, false, true, true, false, true, false, false)),
    (String ((Ascii (true, true, false, false, true, true, false, false)),
    (String ((Ascii (false, true, true, true, false, true, false, false)),
    (String ((Ascii (false, false, false, true, true, true, true, false)),
    (String ((Ascii (true, true, false, false, true, true, true, false)),
    (String ((Ascii (false, false, true, false, false, true, true, false)),
    EmptyString))))))))))))))))))))))))))))))))))) :: (((Npos (XI XH)),
    (String ((Ascii (true, false, false, false, false, false, true, false)),
    (String ((Ascii (true, false, true, false, true, false, true, false)),
    (String ((Ascii (false, false, true, false, true, false, true, false)),
    (String ((Ascii (true, true, true, true, false, false, true, false)),
    (String ((Ascii (true, true, false, false, true, false, true, false)),
    (String ((Ascii (true, false, false, false, false, false, true, false)),
    (String ((Ascii (false, true, false, false, true, false, true, false)),
    (String ((Ascii (true, true, true, true, true, false, true, false)),
    (String ((Ascii (false, false, true, false, true, true, false, false)),
    (String ((Ascii (true, false, true, true, false, true, false, false)),
    (String ((Ascii (true, false, false, false, true, true, false, false)),
    (String ((Ascii (true, false, true, true, false, true, false, false)),
    (String ((Ascii (true, false, false, false, true, true, false, false)),
    (String ((Ascii (false, true, true, true, false, true, false, false)),
    (String ((Ascii (false, false, false, true, true, true, true, false)),
    (String ((Ascii (true, true, false, false, true, true, true, false)),
    (String ((Ascii (false, false, true, false, false, true, true, false)),
    EmptyString))))))))))))))))))))))))))))))))))) :: (((Npos (XO (XO XH))),
    (String ((Ascii (true, false, false, false, false, false, true, false)),
    (String ((Ascii (true, false, true, false, true, false, true, false)),
    (String ((Ascii (false, false, true, false, true, false, true, false)),
    (String ((Ascii (true, true, true, true, false, false, true, false)),
    (String ((Ascii (true, true, false, false, true, false, true, false)),
    (String ((Ascii (true, false, false, false, false, false, true, false)),
    (String ((Ascii (false, true, false, false, true, false, true, false)),
    (String ((Ascii (true, true, true, true, true, false, true, false)),
    (String ((Ascii (false, false, true, false, true, true, false, false)),
    (String ((Ascii (true, false, true, true, false, true, false, false)),
    (String ((Ascii (true, false, false, false, true, true, false, false)),
    (String ((Ascii (true, false, true, true, false, true, false, false)),
    (String ((Ascii (false, true, false, false, true, true, false, false)),
    (String ((Ascii (false, true, true, true, false, true, false, false)),
    (String ((Ascii (false, false, false, true, true, true, true, false)),
    (String ((Ascii (true, true, false, false, true, true, true, false)),
    (String ((Ascii (false, false, true, false, false, true, true, false)),
    EmptyString))))))))))))))))))))))))))))))))))) :: (((Npos (XI (XO XH))),
    (String ((Ascii (true, false, false, false, false, false, true, false)),
    (String ((Ascii (true, false, true, false, true, false, true, false)),
    (String ((Ascii (false, false, true, false, true, false, true, false)),
    (String ((Ascii (true, true, true, true, false, false, true, false)),
    (String ((Ascii (true, true, false, false, true, false, true, false)),
    (String ((Ascii (true, false, false, false, false, false, true, false)),
    (String ((Ascii (false, true, false, false, true, false, true, false)),
    (String ((Ascii (true, true, true, true, true, false, true, false)),
    (String ((Ascii (false, false, true, false, true, true, false, false)),
    (String ((Ascii (true, false, true, true, false, true, false, false)),
    (String ((Ascii (true, false, false, false, true, true, false, false)),
    (String ((Ascii (true, false, true, true, false, true, false, false)),
    (String ((Ascii (true, true, false, false, true, true, false, false)),
    (String ((Ascii (false, true, true, true, false, true, false, false)),
    (String ((Ascii (false, false, false, true, true, true, true, false)),
    (String ((Ascii (true, true, false, false, true, true, true, false)),
    (String ((Ascii (false, false, true, false, false, true, true, false)),
    EmptyString))))))))))))))))))))))))))))))))))) :: (((Npos (XO (XI XH))),
    (String ((Ascii (true, false, false, false, false, false, true, false)),
    (String ((Ascii (true, false, true, false, true, false, true, false)),
    (String ((Ascii (false, false, true, false, true, false, true, false)),
    (String ((Ascii (true, true, true, true, false, false, true, false)),
    (String ((Ascii (true, true, false, false, true, false, true, false)),
    (String ((Ascii (true, false, false, false, false, false, true, false)),
    (String ((Ascii (false, true, false, false, true, false, true, false)),
    (String ((Ascii (true, true, true, true, true, false, true, false)),
    (String ((Ascii (false, false, true, false, true, true, false, false)),
    (String ((Ascii (true, false, true, true, false, true, false, false)),
    (String ((Ascii (false, true, false, false, true, true, false, false)),
    (String ((Ascii (true, false, true, true, false, true, false, false)),
    (String ((Ascii (true, false, false, false, true, true, false, false)),
    (String ((Ascii (false, true, true, true, false, true, false, false)),
    (String ((Ascii (false, false, false, true, true, true, true, false)),
    (String ((Ascii (true, true, false, false, true, true, true, false)),
    (String ((Ascii (false, false, true, false, false, true, true, false)),
    EmptyString))))))))))))))))))))))))))))))))))) :: (((Npos (XI (XI XH))),
    (String ((Ascii (true, false, false, false, false, false, true, false)),
    (String ((Ascii (true, false, true, false, true, false, true, false)),
    (String ((Ascii (false, false, true, false, true, false, true, false)),
    (String ((Ascii (true, true, true, true, false, false, true, false)),
    (String ((Ascii (true, true, false, false, true, false, true, false)),
    (String ((Ascii (true, false, false, false, false, false, true, false)),
    (String ((Ascii (false, true, false, false, true, false, true, false)),
    (String ((Ascii (true, true, true, true, true, false, true, false)),
    (String ((Ascii (false, false, true, false, true, true, false, false)),
    (String ((Ascii (true, false, true, true, false, true, false, false)),
    (String ((Ascii (false, true, false, false, true, true, false, false)),
    (String ((Ascii (true, false, true, true, false, true, false, false)),
    (String ((Ascii (false, true, false, false, true, true, false, false)),
    (String ((Ascii (false, true, true, true, false, true, false, false)),
    (String ((Ascii (false, false, false, true, true, true, true, false)),
    (String ((Ascii (true, true, false, false, true, true, true, false)),
    (String ((Ascii (false, false, true, false, false, true, true, false)),
    EmptyString))))))))))))))))))))))))))))))))))) :: (((Npos (XO (XO (XO
    XH)))), (String ((Ascii (true, false, false, false, false, false, true,
    false)), (String ((Ascii (true, false, true, false, true, false, true,
    false)), (String ((Ascii (false, false, true, false, true, false, true,
    false)), (String ((Ascii (true, true, true, true, false, false, true,
    false)), (String ((Ascii (true, true, false, false, true, false, true,
    false)), (String ((Ascii (true, false, false, false, false, false, true,
    false)), (String ((Ascii (false, true, false, false, true, false, true,
    false)), (String ((Ascii (true, true, true, true, true, false, true,
    false)), (String ((Ascii (false, false, true, false, true, true, false,
    false)), (String ((Ascii (true, false, true, true, false, true, false,
    false)), (String ((Ascii (true, true, false, false, true, true, false,
    false)), (String ((Ascii (true, false, true, true, false, true, false,
    false)), (String ((Ascii (false, false, false, false, true, true, false,
    false)), (String ((Ascii (false, true, true, true, false, true, false,
    false)), (String ((Ascii (false, false, false, true, true, true, true,
    false)), (String ((Ascii (true, true, false, false, true, true, true,
    false)), (String ((Ascii (false, false, true, false, false, true, true,
    false)), EmptyString))))))))))))))))))))))))))))))))))) :: (((Npos (XI
    (XO (XO XH)))), (String ((Ascii (true, false, false, false, false, false,
    true, false)), (String ((Ascii (true, false, true, false, true, false,
    true, false)), (String ((Ascii (false, false, true, false, true, false,
    true, false)), (String ((Ascii (true, true, true, true, false, false,
    true, false)), (String ((Ascii (true, true, false, false, true, false,
    true, false)), (String ((Ascii (true, false, false, false, false, false,
    true, false)), (String ((Ascii (false, true, false, false, true, false,
    true, false)), (String ((Ascii (true, true, true, true, true, false,
    true, false)), (String ((Ascii (false, false, false, false, true, true,
    false, false)), (String ((Ascii (false, false, false, false, true, true,
    false, false)), (String ((Ascii (false, false, false, false, true, true,
    false, false)), (String ((Ascii (false, false, true, false, true, true,
    false, false)), (String ((Ascii (false, true, false, false, true, true,
    false, false)), (String ((Ascii (false, true, true, true, false, true,
    false, false)), (String ((Ascii (false, false, false, true, true, true,
    true, false)), (String ((Ascii (true, true, false, false, true, true,
    true, false)), (String ((Ascii (false, false, true, false, false, true,
    true, false)), EmptyString))))))))))))))))))))))))))))))))))) :: (((Npos
    (XO (XI (XO XH)))), (String ((Ascii (true, false, false, false, false,
    false, true, false)), (String ((Ascii (true, false, true, false, true,
    false, true, false)), (String ((Ascii (false, false, true, false, true,
    false, true, false)), (String ((Ascii (true, true, true, true, false,
    false, true, false)), (String ((Ascii (true, true, false, false, true,
    false, true, false)), (String ((Ascii (true, false, false, false, false,
    false, true, false)), (String ((Ascii (false, true, false, false, true,
    false, true, false)), (String ((Ascii (true, true, true, true, true,
    false, true, false)), (String ((Ascii (false, false, false, false, true,
    true, false, false)), (String ((Ascii (false, false, false, false, true,
    true, false, false)), (String ((Ascii (false, false, false, false, true,
    true, false, false)), (String ((Ascii (false, false, true, false, true,
    true, false, false)), (String ((Ascii (true, true, false, false, true,
    true, false, false)), (String ((Ascii (false, true, true, true, false,
    true, false, false)), (String ((Ascii (false, false, false, true, true,
    true, true, false)), (String ((Ascii (true, true, false, false, true,
    true, true, false)), (String ((Ascii (false, false, true, false, false,
    true, true, false)),
    EmptyString))))))))))))))))))))))))))))))))))) :: (((Npos (XI (XI (XO
    XH)))), (String ((Ascii (true, false, false, false, false, false, true,
    false)), (String ((Ascii (true, false, true, false, true, false, true,
    false)), (String ((Ascii (false, false, true, false, true, false, true,
    false)), (String ((Ascii (true, true, true, true, false, false, true,
    false)), (String ((Ascii (true, true, false, false, true, false, true,
    false)), (String ((Ascii (true, false, false, false, false, false, true,
    false)), (String ((Ascii (false, true, false, false, true, false, true,
    false)), (String ((Ascii (true, true, true, true, true, false, true,
    false)), (String ((Ascii (false, false, false, false, true, true, false,
    false)), (String ((Ascii (false, false, false, false, true, true, false,
    false)), (String ((Ascii (false, false, false, false, true, true, false,
    false)), (String ((Ascii (false, false, true, false, true, true, false,
    false)), (String ((Ascii (false, false, true, false, true, true, false,
    false)), (String ((Ascii (false, true, true, true, false, true, false,
    false)), (String ((Ascii (false, false, false, true, true, true, true,
    false)), (String ((Ascii (true, true, false, false, true, true, true,
    false)), (String ((Ascii (false, false, true, false, false, true, true,
    false)), EmptyString))))))))))))))))))))))))))))))))))) :: (((Npos (XO
    (XO (XI XH)))), (String ((Ascii (true, false, false, false, false, false,
    true, false)), (String ((Ascii (true, false, true, false, true, false,
    true, false)), (String ((Ascii (false, false, true, false, true, false,
    true, false)), (String ((Ascii (true, true, true, true, false, false,
    true, false)), (String ((Ascii (true, true, false, false, true, false,
    true, false)), (String ((Ascii (true, false, false, false, false, false,
    true, false)), (String ((Ascii (false, true, false, false, true, false,
    true, false)), (String ((Ascii (true, true, true, true, true, false,
    true, false)), (String ((Ascii (false, false, false, false, true, true,
    false, false)), (String ((Ascii (false, false, false, false, true, true,
    false, false)), (String ((Ascii (false, false, false, false, true, true,
    false, false)), (String ((Ascii (false, false, true, false, true, true,
    false, false)), (String ((Ascii (true, false, true, false, true, true,
    false, false)), (String ((Ascii (false, true, true, true, false, true,
    false, false)), (String ((Ascii (false, false, false, true, true, true,
    true, false)), (String ((Ascii (true, true, false, false, true, true,
    true, false)), (String ((Ascii (false, false, true, false, false, true,
    true, false)), EmptyString))))))))))))))))))))))))))))))))))) :: (((Npos
    (XI (XO (XI XH)))), (String ((Ascii (true, false, false, false, false,
    false, true, false)), (String ((Ascii (true, false, true, false, true,
    false, true, false)), (String ((Ascii (false, false, true, false, true,
    false, true, false)), (String ((Ascii (true, true, true, true, false,
    false, true, false)), (String ((Ascii (true, true, false, false, true,
    false, true, false)), (String ((Ascii (true, false, false, false, false,
    false, true, false)), (String ((Ascii (false, true, false, false, true,
    false, true, false)), (String ((Ascii (true, true, true, true, true,
    false, true, false)), (String ((Ascii (false, false, false, false, true,
    true, false, false)), (String ((Ascii (false, false, false, false, true,
    true, false, false)), (String ((Ascii (false, false, false, false, true,
    true, false, false)), (String ((Ascii (false, false, true, false, true,
    true, false, false)), (String ((Ascii (false, true, true, false, true,
    true, false, false)), (String ((Ascii (false, true, true, true, false,
    true, false, false)), (String ((Ascii (false, false, false, true, true,
    true, true, false)), (String ((Ascii (true, true, false, false, true,
    true, true, false)), (String ((Ascii (false, false, true, false, false,
    true, true, false)),
    EmptyString))))))))))))))))))))))))))))))))))) :: (((Npos (XO (XI (XI
    XH)))), (String ((Ascii (true, false, false, false, false, false, true,
    false)), (String ((Ascii (true, false, true, false, true, false, true,
    false)), (String ((Ascii (false, false, true, false, true, false, true,
    false)), (String ((Ascii (true, true, true, true, false, false, true,
    false)), (String ((Ascii (true, true, false, false, true, false, true,
    false)), (String ((Ascii (true, false, false, false, false, false, true,
    false)), (String ((Ascii (false, true, false, false, true, false, true,
    false)), (String ((Ascii (true, true, true, true, true, false, true,
    false)), (String ((Ascii (false, false, false, false, true, true, false,
    false)), (String ((Ascii (false, false, false, false, true, true, false,
    false)), (String ((Ascii (false, false, false, false, true, true, false,
    false)), (String ((Ascii (false, false, true, false, true, true, false,
    false)), (String ((Ascii (true, true, true, false, true, true, false,
    false)), (String ((Ascii (false, true, true, true, false, true, false,
    false)), (String ((Ascii (false, false, false, true, true, true, true,
    false)), (String ((Ascii (true, true, false, false, true, true, true,
    false)), (String ((Ascii (false, false, true, false, false, true, true,
    false)), EmptyString))))))))))))))))))))))))))))))))))) :: (((Npos (XI
    (XI (XI XH)))), (String ((Ascii (true, false, false, false, false, false,
    true, false)), (String ((Ascii (true, false, true, false, true, false,
    true, false)), (String ((Ascii (false, false, true, false, true, false,
    true, false)), (String ((Ascii (true, true, true, true, false, false,
    true, false)), (String ((Ascii (true, true, false, false, true, false,
    true, false)), (String ((Ascii (true, false, false, false, false, false,
    true, false)), (String ((Ascii (false, true, false, false, true, false,
    true, false)), (String ((Ascii (true, true, true, true, true, false,
    true, false)), (String ((Ascii (false, false, false, false, true, true,
    false, false)), (String ((Ascii (false, false, false, false, true, true,
    false, false)), (String ((Ascii (false, false, false, false, true, true,
    false, false)), (String ((Ascii (false, false, true, false, true, true,
    false, false)), (String ((Ascii (false, false, false, true, true, true,
    false, false)), (String ((Ascii (false, true, true, true, false, true,
    false, false)), (String ((Ascii (false, false, false, true, true, true,
    true, false)), (String ((Ascii (true, true, false, false, true, true,
    true, false)), (String ((Ascii (false, false, true, false, false, true,
    true, false)), EmptyString))))))))))))))))))))))))))))))))))) :: (((Npos
    (XO (XO (XO (XO XH))))), (String ((Ascii (true, false, false, false,
    false, false, true, false)), (String ((Ascii (true, false, true, false,
    true, false, true, false)), (String ((Ascii (false, false, true, false,
    true, false, true, false)), (String ((Ascii (true, true, true, true,
    false, false, true, false)), (String ((Ascii (true, true, false, false,
    true, false, true, false)), (String ((Ascii (true, false, false, false,
    false, false, true, false)), (String ((Ascii (false, true, false, false,
    true, false, true, false)), (String ((Ascii (true, true, true, true,
    true, false, true, false)), (String ((Ascii (false, false, false, false,
    true, true, false, false)), (String ((Ascii (false, false, false, false,
    true, true, false, false)), (String ((Ascii (false, false, false, false,
    true, true, false, false)), (String ((Ascii (false, false, true, false,
    true, true, false, false)), (String ((Ascii (true, false, false, true,
    true, true, false, false)), (String ((Ascii (false, true, true, true,
    false, true, false, false)), (String ((Ascii (false, false, false, true,
    true, true, true, false)), (String ((Ascii (true, true, false, false,
    true, true, true, false)), (String ((Ascii (false, false, true, false,
    false, true, true, false)),
    EmptyString))))))))))))))))))))))))))))))))))) :: (((Npos (XI (XO (XO (XO
    XH))))), (String ((Ascii (true, false, false, false, false, false, true,
    false)), (String ((Ascii (true, false, true, false, true, false, true,
    false)), (String ((Ascii (false, false, true, false, true, false, true,
    false)), (String ((Ascii (true, true, true, true, false, false, true,
    false)), (String ((Ascii (true, true, false, false, true, false, true,
    false)), (String ((Ascii (true, false, false, false, false, false, true,
    false)), (String ((Ascii (false, true, false, false, true, false, true,
    false)), (String ((Ascii (true, true, true, true, true, false, true,
    false)), (String ((Ascii (false, false, false, false, true, true, false,
    false)), (String ((Ascii (false, false, false, false, true, true, false,
    false)), (String ((Ascii (false, false, false, false, true, true, false,
    false)), (String ((Ascii (true, false, true, false, true, true, false,
    false)), (String ((Ascii (false, false, false, false, true, true, false,
    false)), (String ((Ascii (false, true, true, true, false, true, false,
    false)), (String ((Ascii (false, false, false, true, true, true, true,
    false)), (String ((Ascii (true, true, false, false, true, true, true,
    false)), (String ((Ascii (false, false, true, false, false, true, true,
    false)), EmptyString))))))))))))))))))))))))))))))))))) :: (((Npos (XO
    (XI (XO (XO XH))))), (String ((Ascii (true, false, false, false, false,
    false, true, false)), (String ((Ascii (true, false, true, false, true,
    false, true, false)), (String ((Ascii (false, false, true, false, true,
    false, true, false)), (String ((Ascii (true, true, true, true, false,
    false, true, false)), (String ((Ascii (true, true, false, false, true,
    false, true, false)), (String ((Ascii (true, false, false, false, false,
    false, true, false)), (String ((Ascii (false, true, false, false, true,
    false, true, false)), (String ((Ascii (true, true, true, true, true,
    false, true, false)), (String ((Ascii (false, false, false, false, true,
    true, false, false)), (String ((Ascii (false, false, false, false, true,
    true, false, false)), (String ((Ascii (false, false, false, false, true,
    true, false, false)), (String ((Ascii (true, false, true, false, true,
    true, false, false)), (String ((Ascii (true, false, false, false, true,
    true, false, false)), (String ((Ascii (false, true, true, true, false,
    true, false, false)), (String ((Ascii (false, false, false, true, true,
    true, true, false)), (String ((Ascii (true, true, false, false, true,
    true, true, false)), (String ((Ascii (false, false, true, false, false,
    true, true, false)),
    EmptyString))))))))))))))))))))))))))))))))))) :: (((Npos (XI (XI (XO (XO
    XH))))), (String ((Ascii (true, false, false, false, false, false, true,
    false)), (String ((Ascii (true, false, true, false, true, false, true,
    false)), (String ((Ascii (false, false, true, false, true, false, true,
    false)), (String ((Ascii (true, true, true, true, false, false, true,
    false)), (String ((Ascii (true, true, false, false, true, false, true,
    false)), (String ((Ascii (true, false, false, false, false, false, true,
    false)), (String ((Ascii (false, true, false, false, true, false, true,
    false)), (String ((Ascii (true, true, true, true, true, false, true,
    false)), (String ((Ascii (false, false, false, false, true, true, false,
    false)), (String ((Ascii (false, false, false, false, true, true, false,
    false)), (String ((Ascii (false, false, false, false, true, true, false,
    false)), (String ((Ascii (true, false, true, false, true, true, false,
    false)), (String ((Ascii (false, true, false, false, true, true, false,
    false)), (String ((Ascii (false, true, true, true, false, true, false,
    false)), (String ((Ascii (false, false, false, true, true, true, true,
    false)), (String ((Ascii (true, true, false, false, true, true, true,
    false)), (String ((Ascii (false, false, true, false, false, true, true,
    false)), EmptyString))))))))))))))))))))))))))))))))))) :: (((Npos (XO
    (XO (XI (XO XH))))), (String ((Ascii (true, false, false, false, false,
    false, true, false)), (String ((Ascii (true, false, true, false, true,
    false, true, false)), (String ((Ascii (false, false, true, false, true,
    false, true, false)), (String ((Ascii (true, true, true, true, false,
    false, true, false)), (String ((Ascii (true, true, false, false, true,
    false, true, false)), (String ((Ascii (true, false, false, false, false,
    false, true, false)), (String ((Ascii (false, true, false, false, true,
    false, true, false)), (String ((Ascii (true, true, true, true, true,
    false, true, false)), (String ((Ascii (false, false, false, false, true,
    true, false, false)), (String ((Ascii (false, false, false, false, true,
    true, false, false)), (String ((Ascii (false, false, false, false, true,
    true, false, false)), (String ((Ascii (true, false, true, false, true,
    true, false, false)), (String ((Ascii (true, true, false, false, true,
    true, false, false)), (String ((Ascii (false, true, true, true, false,
    true, false, false)), (String ((Ascii (false, false, false, true, true,
    true, true, false)), (String ((Ascii (true, true, false, false, true,
    true, true, false)), (String ((Ascii (false, false, true, false, false,
    true, true, false)),
    EmptyString))))))))))))))))))))))))))))))))))) :: []))))))))))))))))))))

(** val ver_from_str : (string * n) list **)

let ver_from_str =
  ((String ((Ascii (true, false, false, false, false, false, true, false)),
    (String ((Ascii (true, false, true, false, true, false, true, false)),
    (String ((Ascii (false, false, true, false, true, false, true, false)),
    (String ((Ascii (true, true, true, true, false, false, true, false)),
    (String ((Ascii (true, true, false, false, true, false, true, false)),
    (String ((Ascii (true, false, false, false, false, false, true, false)),
    (String ((Ascii (false, true, false, false, true, false, true, false)),
    (String ((Ascii (true, true, true, true, true, false, true, false)),
    (String ((Ascii (false, false, true, false, true, true, false, false)),
    (String ((Ascii (true, false, true, true, false, true, false, false)),
    (String ((Ascii (false, false, false, false, true, true, false, false)),
    (String ((Ascii (true, false, true, true, false, true, false, false)),
    (String ((Ascii (true, false, false, false, true, true, false, false)),
    (String ((Ascii (false, true, true, true, false, true, false, false)),
    (String ((Ascii (false, false, false, true, true, true, true, false)),
    (String ((Ascii (true, true, false, false, true, true, true, false)),
    (String ((Ascii (false, false, true, false, false, true, true, false)),
    EmptyString)))))))))))))))))))))))))))))))))), N0) :: (((String ((Ascii
    (true, false, false, false, false, false, true, false)), (String ((Ascii
    (true, false, true, false, true, false, true, false)), (String ((Ascii
    (false, false, true, false, true, false, true, false)), (String ((Ascii
    (true, true, true, true, false, false, true, false)), (String ((Ascii
    (true, true, false, false, true, false, true, false)), (String ((Ascii
    (true, false, false, false, false, false, true, false)), (String ((Ascii
    (false, true, false, false, true, false, true, false)), (String ((Ascii
    (true, true, true, true, true, false, true, false)), (String ((Ascii
    (false, false, true, false, true, true, false, false)), (String ((Ascii
    (true, false, true, true, false, true, false, false)), (String ((Ascii
    (false, false, false, false, true, true, false, false)), (String ((Ascii
    (true, false, true, true, false, true, false, false)), (String ((Ascii
    (false, true, false, false, true, true, false, false)), (String ((Ascii
    (false, true, true, true, false, true, false, false)), (String ((Ascii
    (false, false, false, true, true, true, true, false)), (String ((Ascii
    (true, true, false, false, true, true, true, false)), (String ((Ascii
    (false, false, true, false, false, true, true, false)),
    EmptyString)))))))))))))))))))))))))))))))))), (Npos XH)) :: (((String
    ((Ascii (true, false, false, false, false, false, true, false)), (String
    ((Ascii (true, false, true, false, true, false, true, false)), (String
    ((Ascii (false, false, true, false, true, false, true, false)), (String
    ((Ascii (true, true, true, true, false, false, true, false)), (String
    ((Ascii (true, true, false, false, true, false, true, false)), (String
    ((Ascii (true, false, false, false, false, false, true, false)), (String
    ((Ascii (false, true, false, false, true, false, true, false)), (String
    ((Ascii (true, true, true, true, true, false, true, false)), (String
    ((Ascii (false, false, true, false, true, true, false, false)), (String
    ((Ascii (true, false, true, true, false, true, false, false)), (String
    ((Ascii (false, false, false, false, true, true, false, false)), (String
    ((Ascii (true, false, true, true, false, true, false, false)), (String
    ((Ascii (true, true, false, false, true, true, false, false)), (String
    ((Ascii (false, true, true, true, false, true, false, false)), (String
    ((Ascii (false, false, false, true, true, true, true, false)), (String
    ((Ascii (true, true, false, false, true, true, true, false)), (String
    ((Ascii (false, false, true, false, false, true, true, false)),
    EmptyString)))))))))))))))))))))))))))))))))), (Npos (XO
    XH))) :: (((String ((Ascii (true, false, false, false, false, false,
    true, false)), (String ((Ascii (true, false, true, false, true, false,
    true, false)), (String ((Ascii (false, false, true, false, true, false,
    true, false)), (String ((Ascii (true, true, true, true, false, false,
    true, false)), (String ((Ascii (true, true, false, false, true, false,
    true, false)), (String ((Ascii (true, false, false, false, false, false,
    true, false)), (String ((Ascii (false, true, false, false, true, false,
    true, false)), (String ((Ascii (true, true, true, true, true, false,
    true, false)), (String ((Ascii (false, false, true, false, true, true,
    false, false)), (String ((Ascii (true, false, true, true, false, true,
    false, false)), (String ((Ascii (true, false, false, false, true, true,
    false, false)), (String ((Ascii (true, false, true, true, false, true,
    false, false)), (String ((Ascii (true, false, false, false, true, true,
    false, false)), (String ((Ascii (false, true, true, true, false, true,
    false, false)), (String ((Ascii (false, false, false, true, true, true,
    true, false)), (String ((Ascii (true, true, false, false, true, true,
    true, false)), (String ((Ascii (false, false, true, false, false, true,
    true, false)), EmptyString)))))))))))))))))))))))))))))))))), (Npos (XI
    XH))) :: (((String ((Ascii (true, false, false, false, false, false,
    true, false)), (String ((Ascii (true, false, true, false, true, false,
    true, false)), (String ((Ascii (false, false, true, false, true, false,
    true, false)), (String ((Ascii (true, true, true, true, false, false,
    true, false)), (String ((Ascii (true, true, false, false, true, false,
    true, false)), (String ((Ascii (true, false, false, false, false, false,
    true, false)), (String ((Ascii (false, true, false, false, true, false,
    true, false)), (String ((Ascii (true, true, true, true, true, false,
    true, false)), (String ((Ascii (false, false, true, false, true, true,
    false, false)), (String ((Ascii (true, false, true, true, false, true,
    false, false)), (String ((Ascii (true, false, false, false, true, true,
    false, false)), (String ((Ascii (true, false, true, true, false, true,
    false, false)), (String ((Ascii (false, true, false, false, true, true,
    false, false)), (String ((Ascii (false, true, true, true, false, true,
    false, false)), (String ((Ascii (false, false, false, true, true, true,
    true, false)), (String ((Ascii (true, true, false, false, true, true,
    true, false)), (String ((Ascii (false, false, true, false, false, true,
    true, false)), EmptyString)))))))))))))))))))))))))))))))))), (Npos (XO
    (XO XH)))) :: (((String ((Ascii (true, false, false, false, false, false,
    true, false)), (String ((Ascii (true, false, true, false, true, false,
    true, false)), (String ((Ascii (false, false, true, false, true, false,
    true, false)), (String ((Ascii (true, true, true, true, false, false,
    true, false)), (String ((Ascii (true, true, false, false, true, false,
    true, false)), (String ((Ascii (true, false, false, false, false, false,
    true, false)), (String ((Ascii (false, true, false, false, true, false,
    true, false)), (String ((Ascii (true, true, true, true, true, false,
    true, false)), (String ((Ascii (false, false, true, false, true, true,
    false, false)), (String ((Ascii (true, false, true, true, false, true,
    false, false)), (String ((Ascii (true, false, false, false, true, true,
    false, false)), (String ((Ascii (true, false, true, true, false, true,
    false, false)), (String ((Ascii (true, true, false, false, true, true,
    false, false)), (String ((Ascii (false, true, true, true, false, true,
    false, false)), (String ((Ascii (false, false, false, true, true, true,
    true, false)), (String ((Ascii (true, true, false, false, true, true,
    true, false)), (String ((Ascii (false, false, true, false, false, true,
    true, false)), EmptyString)))))))))))))))))))))))))))))))))), (Npos (XI
    (XO XH)))) :: (((String ((Ascii (true, false, false, false, false, false,
    true, false)), (String ((Ascii (true, false, true, false, true, false,
    true, false)), (String ((Ascii (false, false, true, false, true, false,
    true, false)), (String ((Ascii (true, true, true, true, false, false,
    true, false)), (String ((Ascii (true, true, false, false, true, false,
    true, false)), (String ((Ascii (true, false, false, false, false, false,
    true, false)), (String ((Ascii (false, true, false, false, true, false,
    true, false)), (String ((Ascii (true, true, true, true, true, false,
    true, false)), (String ((Ascii (false, false, true, false, true, true,
    false, false)), (String ((Ascii (true, false, true, true, false, true,
    false, false)), (String ((Ascii (false, true, false, false, true, true,
    false, false)), (String ((Ascii (true, false, true, true, false, true,
    false, false)), (String ((Ascii (true, false, false, false, true, true,
    false, false)), (String ((Ascii (false, true, true, true, false, true,
    false, false)), (String ((Ascii (false, false, false, true, true, true,
    true, false)), (String ((Ascii (true, true, false, false, true, true,
    true, false)), (String ((Ascii (false, false, true, false, false, true,
    true, false)), EmptyString)))))))))))))))))))))))))))))))))), (Npos (XO
    (XI XH)))) :: (((String ((Ascii (true, false, false, false, false, false,
    true, false)), (String ((Ascii (true, false, true, false, true, false,
    true, false)), (String ((Ascii (false, false, true, false, true, false,
    true, false)), (String ((Ascii (true, true, true, true, false, false,
    true, false)), (String ((Ascii (true, true, false, false, true, false,
    true, false)), (String ((Ascii (true, false, false, false, false, false,
    true, false)), (String ((Ascii (false, true, false, false, true, false,
    true, false)), (String ((Ascii (true, true, true, true, true, false,
    true, false)), (String ((Ascii (false, false, true, false, true, true,
    false, false)), (String ((Ascii (true, false, true, true, false, true,
    false, false)), (String ((Ascii (false, true, false, false, true, true,
    false, false)), (String ((Ascii (true, false, true, true, false, true,
    false, false)), (String ((Ascii (false, true, false, false, true, true,
    false, false)), (String ((Ascii (false, true, true, true, false, true,
    false, false)), (String ((Ascii (false, false, false, true, true, true,
    true, false)), (String ((Ascii (true, true, false, false, true, true,
    true, false)), (String ((Ascii (false, false, true, false, false, true,
    true, false)), EmptyString)))))))))))))))))))))))))))))))))), (Npos (XI
    (XI XH)))) :: (((String ((Ascii (true, false, false, false, false, false,
    true, false)), (String ((Ascii (true, false, true, false, true, false,
    true, false)), (String ((Ascii (false, false, true, false, true, false,
    true, false)), (String ((Ascii (true, true, true, true, false, false,
    true, false)), (String ((Ascii (true, true, false, false, true, false,
    true, false)), (String ((Ascii (true, false, false, false, false, false,
    true, false)), (String ((Ascii (false, true, false, false, true, false,
    true, false)), (String ((Ascii (true, true, true, true, true, false,
    true, false)), (String ((Ascii (false, false, true, false, true, true,
    false, false)), (String ((Ascii (true, false, true, true, false, true,
    false, false)), (String ((Ascii (true, true, false, false, true, true,
    false, false)), (String ((Ascii (true, false, true, true, false, true,
    false, false)), (String ((Ascii (false, false, false, false, true, true,
    false, false)), (String ((Ascii (false, true, true, true, false, true,
    false, false)), (String ((Ascii (false, false, false, true, true, true,
    true, false)), (String ((Ascii (true, true, false, false, true, true,
    true, false)), (String ((Ascii (false, false, true, false, false, true,
    true, false)), EmptyString)))))))))))))))))))))))))))))))))), (Npos (XO
    (XO (XO XH))))) :: (((String ((Ascii (true, false, false, false, false,
    false, true, false)), (String ((Ascii (true, false, true, false, true,
    false, true, false)), (String ((Ascii (false, false, true, false, true,
    false, true, false)), (String ((Ascii (true, true, true, true, false,
    false, true, false)), (String ((Ascii (true, true, false, false, true,
    false, true, false)), (String ((Ascii (true, false, false, false, false,
    false, true, false)), (String ((Ascii (false, true, false, false, true,
    false, true, false)), (String ((Ascii (true, true, true, true, true,
    false, true, false)), (String ((Ascii (false, false, false, false, true,
    true, false, false)), (String ((Ascii (false, false, false, false, true,
    true, false, false)), (String ((Ascii (false, false, false, false, true,
    true, false, false)), (String ((Ascii (false, false, true, false, true,
    true, false, false)), (String ((Ascii (false, true, false, false, true,
    true, false, false)), (String ((Ascii (false, true, true, true, false,
    true, false, false)), (String ((Ascii (false, false, false, true, true,
    true, true, false)), (String ((Ascii (true, true, false, false, true,
    true, true, false)), (String ((Ascii (false, false, true, false, false,
    true, true, false)), EmptyString)))))))))))))))))))))))))))))))))), (Npos
    (XI (XO (XO XH))))) :: (((String ((Ascii (true, false, false, false,
    false, false, true, false)), (String ((Ascii (true, false, true, false,
    true, false, true, false)), (String ((Ascii (false, false, true, false,
    true, false, true, false)), (String ((Ascii (true, true, true, true,
    false, false, true, false)), (String ((Ascii (true, true, false, false,
    true, false, true, false)), (String ((Ascii (true, false, false, false,
    false, false, true, false)), (String ((Ascii (false, true, false, false,
    true, false, true, false)), (String ((Ascii (true, true, true, true,
    true, false, true, false)), (String ((Ascii (false, false, false, false,
    true, true, false, false)), (String ((Ascii (false, false, false, false,
    true, true, false, false)), (String ((Ascii (false, false, false, false,
    true, true, false, false)), (String ((Ascii (false, false, true, false,
    true, true, false, false)), (String ((Ascii (true, true, false, false,
    true, true, false, false)), (String ((Ascii (false, true, true, true,
    false, true, false, false)), (String ((Ascii (false, false, false, true,
    true, true, true, false)), (String ((Ascii (true, true, false, false,
    true, true, true, false)), (String ((Ascii (false, false, true, false,
    false, true, true, false)),
    EmptyString)))))))))))))))))))))))))))))))))), (Npos (XO (XI (XO
    XH))))) :: (((String ((Ascii (true, false, false, false, false, false,
    true, false)), (String ((Ascii (true, false, true, false, true, false,
    true, false)), (String ((Ascii (false, false, true, false, true, false,
    true, false)), (String ((Ascii (true, true, true, true, false, false,
    true, false)), (String ((Ascii (true, true, false, false, true, false,
    true, false)), (String ((Ascii (true, false, false, false, false, false,
    true, false)), (String ((Ascii (false, true, false, false, true, false,
    true, false)), (String ((Ascii (true, true, true, true, true, false,
    true, false)), (String ((Ascii (false, false, false, false, true, true,
    false, false)), (String ((Ascii (false, false, false, false, true, true,
    false, false)), (String ((Ascii (false, false, false, false, true, true,
    false, false)), (String ((Ascii (false, false, true, false, true, true,
    false, false)), (String ((Ascii (false, false, true, false, true, true,
    false, false)), (String ((Ascii (false, true, true, true, false, true,
    false, false)), (String ((Ascii (false, false, false, true, true, true,
    true, false)), (String ((Ascii (true, true, false, false, true, true,
    true, false)), (String ((Ascii (false, false, true, false, false, true,
    true, false)), EmptyString)))))))))))))))))))))))))))))))))), (Npos (XI
    (XI (XO XH))))) :: (((String ((Ascii (true, false, false, false, false,
    false, true, false)), (String ((Ascii (true, false, true, false, true,
    false, true, false)), (String ((Ascii (false, false, true, false, true,
    false, true, false)), (String ((Ascii (true, true, true, true, false,
    false, true, false)), (String ((Ascii (true, true, false, false, true,
    false, true, false)), (String ((Ascii (true, false, false, false, false,
    false, true, false)), (String ((Ascii (false, true, false, false, true,
    false, true, false)), (String ((Ascii (true, true, true, true, true,
    false, true, false)), (String ((Ascii (false, false, false, false, true,
    true, false, false)), (String ((Ascii (false, false, false, false, true,
    true, false, false)), (String ((Ascii (false, false, false, false, true,
    true, false, false)), (String ((Ascii (false, false, true, false, true,
    true, false, false)), (String ((Ascii (true, false, true, false, true,
    true, false, false)), (String ((Ascii (false, true, true, true, false,
    true, false, false)), (String ((Ascii (false, false, false, true, true,
    true, true, false)), (String ((Ascii (true, true, false, false, true,
    true, true, false)), (String ((Ascii (false, false, true, false, false,
    true, true, false)), EmptyString)))))))))))))))))))))))))))))))))), (Npos
    (XO (XO (XI XH))))) :: (((String ((Ascii (true, false, false, false,
    false, false, true, false)), (String ((Ascii (true, false, true, false,
    true, false, true, false)), (String ((Ascii (false, false, true, false,
    true, false, true, false)), (String ((Ascii (true, true, true, true,
    false, false, true, false)), (String ((Ascii (true, true, false, false,
    true, false, true, false)), (String ((Ascii (true, false, false, false,
    false, false, true, false)), (String ((Ascii (false, true, false, false,
    true, false, true, false)), (String ((Ascii (true, true, true, true,
    true, false, true, false)), (String ((Ascii (false, false, false, false,
    true, true, false, false)), (String ((Ascii (false, false, false, false,
    true, true, false, false)), (String ((Ascii (false, false, false, false,
    true, true, false, false)), (String ((Ascii (false, false, true, false,
    true, true, false, false)), (String ((Ascii (false, true, true, false,
    true, true, false, false)), (String ((Ascii (false, true, true, true,
    false, true, false, false)), (String ((Ascii (false, false, false, true,
    true, true, true, false)), (String ((Ascii (true, true, false, false,
    true, true, true, false)), (String ((Ascii (false, false, true, false,
    false, true, true, false)),
    EmptyString)))))))))))))))))))))))))))))))))), (Npos (XI (XO (XI
    XH))))) :: (((String ((Ascii (true, false, false, false, false, false,
    true, false)), (String ((Ascii (true, false, true, false, true, false,
    true, false)), (String ((Ascii (false, false, true, false, true, false,
    true, false)), (String ((Ascii (true, true, true, true, false, false,
    true, false)), (String ((Ascii (true, true, false, false, true, false,
    true, false)), (String ((Ascii (true, false, false, false, false, false,
    true, false)), (String ((Ascii (false, true, false, false, true, false,
    true, false)), (String ((Ascii (true, true, true, true, true, false,
    true, false)), (String ((Ascii (false, false, false, false, true, true,
    false, false)), (String ((Ascii (false, false, false, false, true, true,
    false, false)), (String ((Ascii (false, false, false, false, true, true,
    false, false)), (String ((Ascii (false, false, true, false, true, true,
    false, false)), (String ((Ascii (true, true, true, false, true, true,
    false, false)), (String ((Ascii (false, true, true, true, false, true,
    false, false)), (String ((Ascii (false, false, false, true, true, true,
    true, false)), (String ((Ascii (true, true, false, false, true, true,
    true, false)), (String ((Ascii (false, false, true, false, false, true,
    true, false)), EmptyString)))))))))))))))))))))))))))))))))), (Npos (XO
    (XI (XI XH))))) :: (((String ((Ascii (true, false, false, false, false,
    false, true, false)), (String ((Ascii (true, false, true, false, true,
    false, true, false)), (String ((Ascii (false, false, true, false, true,
    false, true, false)), (String ((Ascii (true, true, true, true, false,
    false, true, false)), (String ((Ascii (true, true, false, false, true,
    false, true, false)), (String ((Ascii (true, false, false, false, false,
    false, true, false)), (String ((Ascii (false, true, false, false, true,
    false, true, false)), (String ((Ascii (true, true, true, true, true,
    false, true, false)), (String ((Ascii (false, false, false, false, true,
    true, false, false)), (String ((Ascii (false, false, false, false, true,
    true, false, false)), (String ((Ascii (false, false, false, false, true,
    true, false, false)), (String ((Ascii (false, false, true, false, true,
    true, false, false)), (String ((Ascii (false, false, false, true, true,
    true, false, false)), (String ((Ascii (false, true, true, true, false,
    true, false, false)), (String ((Ascii (false, false, false, true, true,
    true, true, false)), (String ((Ascii (true, true, false, false, true,
    true, true, false)), (String ((Ascii (false, false, true, false, false,
    true, true, false)), EmptyString)))))))))))))))))))))))))))))))))), (Npos
    (XI (XI (XI XH))))) :: (((String ((Ascii (true, false, false, false,
    false, false, true, false)), (String ((Ascii (true, false, true, false,
    true, false, true, false)), (String ((Ascii (false, false, true, false,
    true, false, true, false)), (String ((Ascii (true, true, true, true,
    false, false, true, false)), (String ((Ascii (true, true, false, false,
    true, false, true, false)), (String ((Ascii (true, false, false, false,
    false, false, true, false)), (String ((Ascii (false, true, false, false,
    true, false, true, false)), (String ((Ascii (true, true, true, true,
    true, false, true, false)), (String ((Ascii (false, false, false, false,
    true, true, false, false)), (String ((Ascii (false, false, false, false,
    true, true, false, false)), (String ((Ascii (false, false, false, false,
    true, true, false, false)), (String ((Ascii (false, false, true, false,
    true, true, false, false)), (String ((Ascii (true, false, false, true,
    true, true, false, false)), (String ((Ascii (false, true, true, true,
    false, true, false, false)), (String ((Ascii (false, false, false, true,
    true, true, true, false)), (String ((Ascii (true, true, false, false,
    true, true, true, false)), (String ((Ascii (false, false, true, false,
    false, true, true, false)),
    EmptyString)))))))))))))))))))))))))))))))))), (Npos (XO (XO (XO (XO
    XH)))))) :: (((String ((Ascii (true, false, false, false, false, false,
    true, false)), (String ((Ascii (true, false, true, false, true, false,
    true, false)), (String ((Ascii (false, false, true, false, true, false,
    true, false)), (String ((Ascii (true, true, true, true, false, false,
    true, false)), (String ((Ascii (true, true, false, false, true, false,
    true, false)), (String ((Ascii (true, false, false, false, false, false,
    true, false)), (String ((Ascii (false, true, false, false, true, false,
    true, false)), (String ((Ascii (true, true, true, true, true, false,
    true, false)), (String ((Ascii (false, false, false, false, true, true,
    false, false)), (String ((Ascii (false, false, false, false, true, true,
    false, false)), (String ((Ascii (false, false, false, false, true, true,
    false, false)), (String ((Ascii (true, false, true, false, true, true,
    false, false)), (String ((Ascii (false, false, false, false, true, true,
    false, false)), (String ((Ascii (false, true, true, true, false, true,
    false, false)), (String ((Ascii (false, false, false, true, true, true,
    true, false)), (String ((Ascii (true, true, false, false, true, true,
    true, false)), (String ((Ascii (false, false, true, false, false, true,
    true, false)), EmptyString)))))))))))))))))))))))))))))))))), (Npos (XI
    (XO (XO (XO XH)))))) :: (((String ((Ascii (true, false, false, false,
    false, false, true, false)), (String ((Ascii (true, false, true, false,
    true, false, true, false)), (String ((Ascii (false, false, true, false,
    true, false, true, false)), (String ((Ascii (true, true, true, true,
    false, false, true, false)), (String ((Ascii (true, true, false, false,
    true, false, true, false)), (String ((Ascii (true, false, false, false,
    false, false, true, false)), (String ((Ascii (false, true, false, false,
    true, false, true, false)), (String ((Ascii (true, true, true, true,
    true, false, true, false)), (String ((Ascii (false, false, false, false,
    true, true, false, false)), (String ((Ascii (false, false, false, false,
    true, true, false, false)), (String ((Ascii (false, false, false, false,
    true, true, false, false)), (String ((Ascii (true, false, true, false,
    true, true, false, false)), (String ((Ascii (true, false, false, false,
    true, true, false, false)), (String ((Ascii (false, true, true, true,
    false, true, false, false)), (String ((Ascii (false, false, false, true,
    true, true, true, false)), (String ((Ascii (true, true, false, false,
    true, true, true, false)), (String ((Ascii (false, false, true, false,
    false, true, true, false)),
    EmptyString)))))))))))))))))))))))))))))))))), (Npos (XO (XI (XO (XO
    XH)))))) :: (((String ((Ascii (true, false, false, false, false, false,
    true, false)), (String ((Ascii (true, false, true, false, true, false,
    true, false)), (String ((Ascii (false, false, true, false, true, false,
    true, false)), (String ((Ascii (true, true, true, true, false, false,
    true, false)), (String ((Ascii (true, true, false, false, true, false,
    true, false)), (String ((Ascii (true, false, false, false, false, false,
    true, false)), (String ((Ascii (false, true, false, false, true, false,
    true, false)), (String ((Ascii (true, true, true, true, true, false,
    true, false)), (String ((Ascii (false, false, false, false, true, true,
    false, false)), (String ((Ascii (false, false, false, false, true, true,
    false, false)), (String ((Ascii (false, false, false, false, true, true,
    false, false)), (String ((Ascii (true, false, true, false, true, true,
    false, false)), (String ((Ascii (false, true, false, false, true, true,
    false, false)), (String ((Ascii (false, true, true, true, false, true,
    false, false)), (String ((Ascii (false, false, false, true, true, true,
    true, false)), (String ((Ascii (true, true, false, false, true, true,
    true, false)), (String ((Ascii (false, false, true, false, false, true,
    true, false)), EmptyString)))))))))))))))))))))))))))))))))), (Npos (XI
    (XI (XO (XO XH)))))) :: (((String ((Ascii (true, false, false, false,
    false, false, true, false)), (String ((Ascii (true, false, true, false,
    true, false, true, false)), (String ((Ascii (false, false, true, false,
    true, false, true, false)), (String ((Ascii (true, true, true, true,
    false, false, true, false)), (String ((Ascii (true, true, false, false,
    true, false, true, false)), (String ((Ascii (true, false, false, false,
    false, false, true, false)), (String ((Ascii (false, true, false, false,
    true, false, true, false)), (String ((Ascii (true, true, true, true,
    true, false, true, false)), (String ((Ascii (false, false, false, false,
    true, true, false, false)), (String ((Ascii (false, false, false, false,
    true, true, false, false)), (String ((Ascii (false, false, false, false,
    true, true, false, false)), (String ((Ascii (true, false, true, false,
    true, true, false, false)), (String ((Ascii (true, true, false, false,
    true, true, false, false)), (String ((Ascii (false, true, true, true,
    false, true, false, false)), (String ((Ascii (false, false, false, true,
    true, true, true, false)), (String ((Ascii (true, true, false, false,
    true, true, true, false)), (String ((Ascii (false, false, true, false,
    false, true, true, false)),
    EmptyString)))))))))))))))))))))))))))))))))), (Npos (XO (XO (XI (XO
    XH)))))) :: []))))))))))))))))))))

(** val ver_from_u64 : (n * n) list **)

let ver_from_u64 =
  ((Npos XH), N0) :: (((Npos (XO XH)), (Npos XH)) :: (((Npos (XO (XO XH))),
    (Npos (XO XH))) :: (((Npos (XO (XO (XO XH)))), (Npos (XI XH))) :: (((Npos
    (XO (XO (XO (XO XH))))), (Npos (XO (XO XH)))) :: (((Npos (XO (XO (XO (XO
    (XO XH)))))), (Npos (XI (XO XH)))) :: (((Npos (XO (XO (XO (XO (XO (XO
    XH))))))), (Npos (XO (XI XH)))) :: (((Npos (XO (XO (XO (XO (XO (XO (XO
    XH)))))))), (Npos (XI (XI XH)))) :: (((Npos (XO (XO (XO (XO (XO (XO (XO
    (XO XH))))))))), (Npos (XO (XO (XO XH))))) :: (((Npos (XO (XO (XO (XO (XO
    (XO (XO (XO (XO XH)))))))))), (Npos (XI (XO (XO XH))))) :: (((Npos (XO
    (XO (XO (XO (XO (XO (XO (XO (XO (XO XH))))))))))), (Npos (XO (XI (XO
    XH))))) :: (((Npos (XO (XO (XO (XO (XO (XO (XO (XO (XO (XO (XO
    XH)))))))))))), (Npos (XI (XI (XO XH))))) :: (((Npos (XO (XO (XO (XO (XO
    (XO (XO (XO (XO (XO (XO (XO XH))))))))))))), (Npos (XO (XO (XI
    XH))))) :: (((Npos (XO (XO (XO (XO (XO (XO (XO (XO (XO (XO (XO (XO (XO
    XH)))))))))))))), (Npos (XI (XO (XI XH))))) :: (((Npos (XO (XO (XO (XO
    (XO (XO (XO (XO (XO (XO (XO (XO (XO (XO XH))))))))))))))), (Npos (XO (XI
    (XI XH))))) :: (((Npos (XO (XO (XO (XO (XO (XO (XO (XO (XO (XO (XO (XO
    (XO (XO (XO XH)))))))))))))))), (Npos (XI (XI (XI XH))))) :: (((Npos (XO
    (XO (XO (XO (XO (XO (XO (XO (XO (XO (XO (XO (XO (XO (XO (XO
    XH))))))))))))))))), (Npos (XO (XO (XO (XO XH)))))) :: (((Npos (XO (XO
    (XO (XO (XO (XO (XO (XO (XO (XO (XO (XO (XO (XO (XO (XO (XO
    XH)))))))))))))))))), (Npos (XI (XO (XO (XO XH)))))) :: (((Npos (XO (XO
    (XO (XO (XO (XO (XO (XO (XO (XO (XO (XO (XO (XO (XO (XO (XO (XO
    XH))))))))))))))))))), (Npos (XO (XI (XO (XO XH)))))) :: (((Npos (XO (XO
    (XO (XO (XO (XO (XO (XO (XO (XO (XO (XO (XO (XO (XO (XO (XO (XO (XO
    XH)))))))))))))))))))), (Npos (XI (XI (XO (XO XH)))))) :: (((Npos (XO (XO
    (XO (XO (XO (XO (XO (XO (XO (XO (XO (XO (XO (XO (XO (XO (XO (XO (XO (XO
    XH))))))))))))))))))))), (Npos (XO (XO (XI (XO
    XH)))))) :: []))))))))))))))))))))

(** val ver_latest : n **)

let ver_latest =
  Npos (XO (XO (XI (XO XH))))

(** val ver_value : n -> n option **)

let ver_value i =
  option_map snd (nth_opt ver_enum (N.to_nat i))

(** val assocN : n -> (n * 'a1) list -> 'a1 option **)

let rec assocN k = function
| [] -> None
| p :: l' -> let (k', a) = p in if N.eqb k' k then Some a else assocN k l'

(** val assocS : string -> (string * 'a1) list -> 'a1 option **)

let rec assocS k = function
| [] -> None
| p :: l' -> let (k', a) = p in if eqb1 k' k then Some a else assocS k l'

(** val filename : n -> string option **)

let filename i =
  assocN i ver_filename

(** val from_u64 : n -> n option **)

let from_u64 n0 =
  assocN n0 ver_from_u64

(** val from_val : n -> n option **)

let from_val =
  from_u64

(** val assocB : n list -> (string * 'a1) list -> 'a1 option **)

let rec assocB k = function
| [] -> None
| p :: l' ->
  let (k', a) = p in
  if bytes_eqb (bytes_of_string k') k then Some a else assocB k l'

(** val version_of_filename : n list -> n option **)

let version_of_filename s =
  match assocB s ver_from_str with
  | Some i -> ver_value i
  | None -> None

(** val version_of_ident : string -> n option **)

let version_of_ident ident =
  assocS ident ver_enum

(** val version_latest : n option **)

let version_latest =
  ver_value ver_latest

(** val filename_of_version : n -> n list option **)

let filename_of_version v =
  match from_val v with
  | Some i -> option_map bytes_of_string (filename i)
  | None -> None

type cdata =
| DEnum of n
| DString of n list
| DUInt of n
| DFloat of n

type etree =
| ENode of n * (n * n) * (n * cdata) list * (etree, cdata) sum list
   * n list option

(** val e_name : etree -> n **)

let e_name = function
| ENode (n0, _, _, _, _) -> n0

(** val e_content : etree -> (etree, cdata) sum list **)

let e_content = function
| ENode (_, _, _, c, _) -> c

type pkind =
| InvalidArxmlFileHeader
| UnexpectedXmlFileHeader
| UnknownAutosarVersion
| InvalidAutosarVersion
| IncorrectBeginElement
| InvalidBeginElement
| IncorrectEndElement
| InvalidEndElement
| ElementChoiceConflict
| ElementVersionError
| TooManySubElements
| RequiredSubelementMissing
| AttributeValueError
| UnknownAttributeError
| AttributeVersionError
| RequiredAttributeMissing
| CharacterContentForbidden
| EnumItemVersionError
| UnknownEnumItem
| InvalidEnumItem
| StringValueTooLong
| RegexMatchError
| Utf8Error
| UnexpectedEndOfFile
| InvalidNumber
| AdditionalDataError
| InvalidXmlEntity

type perror =
| ErrLex of n * lexerr
| ErrParse of n * pkind * n * n

type pstate = { p_lex : lstate; p_line : n; p_version : n; p_cur : n;
                p_compat : n; p_warnings : perror list;
                p_standalone : bool option;
                p_idents : (n list * nat list) list;
                p_refs : (n list * nat list) list }

(** val set_lex : pstate -> lstate -> pstate **)

let set_lex st l =
  { p_lex = l; p_line = st.p_line; p_version = st.p_version; p_cur =
    st.p_cur; p_compat = st.p_compat; p_warnings = st.p_warnings;
    p_standalone = st.p_standalone; p_idents = st.p_idents; p_refs =
    st.p_refs }

(** val set_line : pstate -> n -> pstate **)

let set_line st l =
  { p_lex = st.p_lex; p_line = l; p_version = st.p_version; p_cur = st.p_cur;
    p_compat = st.p_compat; p_warnings = st.p_warnings; p_standalone =
    st.p_standalone; p_idents = st.p_idents; p_refs = st.p_refs }

(** val set_version : pstate -> n -> pstate **)

let set_version st v =
  { p_lex = st.p_lex; p_line = st.p_line; p_version = v; p_cur = st.p_cur;
    p_compat = st.p_compat; p_warnings = st.p_warnings; p_standalone =
    st.p_standalone; p_idents = st.p_idents; p_refs = st.p_refs }

(** val set_cur : pstate -> n -> pstate **)

let set_cur st c =
  { p_lex = st.p_lex; p_line = st.p_line; p_version = st.p_version; p_cur =
    c; p_compat = st.p_compat; p_warnings = st.p_warnings; p_standalone =
    st.p_standalone; p_idents = st.p_idents; p_refs = st.p_refs }

(** val set_compat : pstate -> n -> pstate **)

let set_compat st c =
  { p_lex = st.p_lex; p_line = st.p_line; p_version = st.p_version; p_cur =
    st.p_cur; p_compat = c; p_warnings = st.p_warnings; p_standalone =
    st.p_standalone; p_idents = st.p_idents; p_refs = st.p_refs }

(** val add_warning : pstate -> perror -> pstate **)

let add_warning st w =
  { p_lex = st.p_lex; p_line = st.p_line; p_version = st.p_version; p_cur =
    st.p_cur; p_compat = st.p_compat; p_warnings = (w :: st.p_warnings);
    p_standalone = st.p_standalone; p_idents = st.p_idents; p_refs =
    st.p_refs }

(** val set_standalone : pstate -> bool option -> pstate **)

let set_standalone st s =
  { p_lex = st.p_lex; p_line = st.p_line; p_version = st.p_version; p_cur =
    st.p_cur; p_compat = st.p_compat; p_warnings = st.p_warnings;
    p_standalone = s; p_idents = st.p_idents; p_refs = st.p_refs }

(** val add_ident : pstate -> (n list * nat list) -> pstate **)

let add_ident st i =
  { p_lex = st.p_lex; p_line = st.p_line; p_version = st.p_version; p_cur =
    st.p_cur; p_compat = st.p_compat; p_warnings = st.p_warnings;
    p_standalone = st.p_standalone; p_idents = (i :: st.p_idents); p_refs =
    st.p_refs }

(** val add_ref : pstate -> (n list * nat list) -> pstate **)

let add_ref st r =
  { p_lex = st.p_lex; p_line = st.p_line; p_version = st.p_version; p_cur =
    st.p_cur; p_compat = st.p_compat; p_warnings = st.p_warnings;
    p_standalone = st.p_standalone; p_idents = st.p_idents; p_refs =
    (r :: st.p_refs) }

type 'a step =
| Ret of 'a * pstate
| Raise of perror * pstate

type 'a m = pstate -> 'a step res

(** val ret : 'a1 -> 'a1 m **)

let ret a st =
  Val (Ret (a, st))

(** val mbind : 'a1 m -> ('a1 -> 'a2 m) -> 'a2 m **)

let mbind m0 f st =
  match m0 st with
  | Val a0 ->
    (match a0 with
     | Ret (a, st') -> f a st'
     | Raise (e, st') -> Val (Raise (e, st')))
  | Pan s -> Pan s
  | Fuel -> Fuel

(** val get : pstate m **)

let get st =
  Val (Ret (st, st))

(** val modify : (pstate -> pstate) -> unit m **)

let modify f st =
  Val (Ret ((), (f st)))

(** val lift : 'a1 res -> 'a1 m **)

let lift r st =
  match r with
  | Val a -> Val (Ret (a, st))
  | Pan s -> Pan s
  | Fuel -> Fuel

(** val mpanic : string -> 'a1 m **)

let mpanic s _ =
  Pan s

(** val mfuel : 'a1 m **)

let mfuel _ =
  Fuel

(** val hard : pkind -> n -> n -> 'a1 m **)

let hard k element item st =
  Val (Raise ((ErrParse (st.p_line, k, element, item)), st))

(** val optional_error : bool -> pkind -> n -> n -> unit m **)

let optional_error strict k element item st =
  let e = ErrParse (st.p_line, k, element, item) in
  if strict then Val (Raise (e, st)) else Val (Ret ((), (add_warning st e)))

(** val check_version : bool -> n -> pkind -> n -> n -> unit m **)

let check_version strict item_version k element item =
  mbind
    (modify (fun st -> set_compat st (N.coq_land st.p_compat item_version)))
    (fun _ ->
    mbind get (fun st ->
      if N.eqb (N.coq_land st.p_version item_version) N0
      then optional_error strict k element item
      else ret ()))

(** val pnext : event m **)

let pnext st =
  match next st.p_lex with
  | Val a ->
    (match a with
     | LOk (line, ev, l') -> Val (Ret (ev, (set_line (set_lex st l') line)))
     | LErr (line, e) -> Val (Raise ((ErrLex (line, e)), st)))
  | Pan s -> Pan s
  | Fuel -> Fuel

(** val name_of : nametab -> n list -> n option res **)

let name_of t s =
  match from_bytes t s with
  | Ok i -> Val (Some i)
  | Err -> Val None
  | Panic ->
    Pan (String ((Ascii (false, true, true, false, false, true, true,
      false)), (String ((Ascii (false, true, false, false, true, true, true,
      false)), (String ((Ascii (true, true, true, true, false, true, true,
      false)), (String ((Ascii (true, false, true, true, false, true, true,
      false)), (String ((Ascii (true, true, true, true, true, false, true,
      false)), (String ((Ascii (false, true, false, false, false, true, true,
      false)), (String ((Ascii (true, false, false, true, true, true, true,
      false)), (String ((Ascii (false, false, true, false, true, true, true,
      false)), (String ((Ascii (true, false, true, false, false, true, true,
      false)), (String ((Ascii (true, true, false, false, true, true, true,
      false)), (String ((Ascii (false, true, false, true, true, true, false,
      false)), (String ((Ascii (false, false, false, false, false, true,
      false, false)), (String ((Ascii (false, false, true, false, true, true,
      true, false)), (String ((Ascii (true, false, false, false, false, true,
      true, false)), (String ((Ascii (false, true, false, false, false, true,
      true, false)), (String ((Ascii (false, false, true, true, false, true,
      true, false)), (String ((Ascii (true, false, true, false, false, true,
      true, false)), (String ((Ascii (false, false, false, false, false,
      true, false, false)), (String ((Ascii (true, false, false, true, false,
      true, true, false)), (String ((Ascii (false, true, true, true, false,
      true, true, false)), (String ((Ascii (false, false, true, false, false,
      true, true, false)), (String ((Ascii (true, false, true, false, false,
      true, true, false)), (String ((Ascii (false, false, false, true, true,
      true, true, false)),
      EmptyString))))))))))))))))))))))))))))))))))))))))))))))

(** val drop_ws : n list -> n list **)

let rec drop_ws l = match l with
| [] -> []
| x :: l' -> if is_ws x then drop_ws l' else l

(** val trim_len : n list -> nat **)

let trim_len input =
  length (drop_ws (rev input))

(** val trim_byte_string : n list -> n list res **)

let trim_byte_string input = match input with
| [] -> Val []
| _ :: _ ->
  let len = trim_len input in
  let start =
    match position (fun c -> negb (is_ws c)) input with
    | Some p -> p
    | None -> len
  in
  if Nat.ltb len start
  then Pan (String ((Ascii (false, false, false, false, true, true, true,
         false)), (String ((Ascii (true, false, false, false, false, true,
         true, false)), (String ((Ascii (false, true, false, false, true,
         true, true, false)), (String ((Ascii (true, true, false, false,
         true, true, true, false)), (String ((Ascii (true, false, true,
         false, false, true, true, false)), (String ((Ascii (false, true,
         false, false, true, true, true, false)), (String ((Ascii (false,
         true, true, true, false, true, false, false)), (String ((Ascii
         (false, true, false, false, true, true, true, false)), (String
         ((Ascii (true, true, false, false, true, true, true, false)),
         (String ((Ascii (false, true, false, true, true, true, false,
         false)), (String ((Ascii (false, false, false, false, false, true,
         false, false)), (String ((Ascii (false, false, true, false, true,
         true, true, false)), (String ((Ascii (false, true, false, false,
         true, true, true, false)), (String ((Ascii (true, false, false,
         true, false, true, true, false)), (String ((Ascii (true, false,
         true, true, false, true, true, false)), (String ((Ascii (true, true,
         true, true, true, false, true, false)), (String ((Ascii (false,
         true, false, false, false, true, true, false)), (String ((Ascii
         (true, false, false, true, true, true, true, false)), (String
         ((Ascii (false, false, true, false, true, true, true, false)),
         (String ((Ascii (true, false, true, false, false, true, true,
         false)), (String ((Ascii (true, true, true, true, true, false, true,
         false)), (String ((Ascii (true, true, false, false, true, true,
         true, false)), (String ((Ascii (false, false, true, false, true,
         true, true, false)), (String ((Ascii (false, true, false, false,
         true, true, true, false)), (String ((Ascii (true, false, false,
         true, false, true, true, false)), (String ((Ascii (false, true,
         true, true, false, true, true, false)), (String ((Ascii (true, true,
         true, false, false, true, true, false)), (String ((Ascii (false,
         false, false, false, false, true, false, false)), (String ((Ascii
         (true, false, false, true, false, true, true, false)), (String
         ((Ascii (false, true, true, true, false, true, true, false)),
         (String ((Ascii (false, false, false, false, true, true, true,
         false)), (String ((Ascii (true, false, true, false, true, true,
         true, false)), (String ((Ascii (false, false, true, false, true,
         true, true, false)), (String ((Ascii (true, true, false, true, true,
         false, true, false)), (String ((Ascii (true, true, false, false,
         true, true, true, false)), (String ((Ascii (false, false, true,
         false, true, true, true, false)), (String ((Ascii (true, false,
         false, false, false, true, true, false)), (String ((Ascii (false,
         true, false, false, true, true, true, false)), (String ((Ascii
         (false, false, true, false, true, true, true, false)), (String
         ((Ascii (false, true, true, true, false, true, false, false)),
         (String ((Ascii (false, true, true, true, false, true, false,
         false)), (String ((Ascii (false, false, true, true, false, true,
         true, false)), (String ((Ascii (true, false, true, false, false,
         true, true, false)), (String ((Ascii (false, true, true, true,
         false, true, true, false)), (String ((Ascii (true, false, true,
         true, true, false, true, false)),
         EmptyString))))))))))))))))))))))))))))))))))))))))))))))))))))))))))))))))))))))))))))))))))))))))))
  else Val (firstn (sub len start) (skipn start input))

(** val find_byte : n -> n list -> nat option **)

let find_byte c l =
  position (N.eqb c) l

(** val unescape_loop : bool -> nat -> n list -> n list -> n list m **)

let rec unescape_loop strict fuel rem acc =
  match fuel with
  | O -> mfuel
  | S f ->
    (match find_byte (Npos (XO (XI (XI (XO (XO XH)))))) rem with
     | Some pos ->
       let acc0 = app acc (firstn pos rem) in
       let rem0 = skipn pos rem in
       let invalid =
         mbind (optional_error strict InvalidXmlEntity N0 N0) (fun _ ->
           unescape_loop strict f (skipn (S O) rem0)
             (app acc0 ((Npos (XO (XI (XI (XO (XO XH)))))) :: [])))
       in
       if starts_with
            (bS (String ((Ascii (false, true, true, false, false, true,
              false, false)), (String ((Ascii (false, false, true, true,
              false, true, true, false)), (String ((Ascii (false, false,
              true, false, true, true, true, false)), (String ((Ascii (true,
              true, false, true, true, true, false, false)),
              EmptyString))))))))) rem0
       then unescape_loop strict f (skipn (S (S (S (S O)))) rem0)
              (app acc0 ((Npos (XO (XO (XI (XI (XI XH)))))) :: []))
       else if starts_with
                 (bS (String ((Ascii (false, true, true, false, false, true,
                   false, false)), (String ((Ascii (true, true, true, false,
                   false, true, true, false)), (String ((Ascii (false, false,
                   true, false, true, true, true, false)), (String ((Ascii
                   (true, true, false, true, true, true, false, false)),
                   EmptyString))))))))) rem0
            then unescape_loop strict f (skipn (S (S (S (S O)))) rem0)
                   (app acc0 ((Npos (XO (XI (XI (XI (XI XH)))))) :: []))
            else if starts_with
                      (bS (String ((Ascii (false, true, true, false, false,
                        true, false, false)), (String ((Ascii (true, false,
                        false, false, false, true, true, false)), (String
                        ((Ascii (true, false, true, true, false, true, true,
                        false)), (String ((Ascii (false, false, false, false,
                        true, true, true, false)), (String ((Ascii (true,
                        true, false, true, true, true, false, false)),
                        EmptyString))))))))))) rem0
                 then unescape_loop strict f
                        (skipn (S (S (S (S (S O))))) rem0)
                        (app acc0 ((Npos (XO (XI (XI (XO (XO XH)))))) :: []))
                 else if starts_with
                           (bS (String ((Ascii (false, true, true, false,
                             false, true, false, false)), (String ((Ascii
                             (true, false, false, false, false, true, true,
                             false)), (String ((Ascii (false, false, false,
                             false, true, true, true, false)), (String
                             ((Ascii (true, true, true, true, false, true,
                             true, false)), (String ((Ascii (true, true,
                             false, false, true, true, true, false)), (String
                             ((Ascii (true, true, false, true, true, true,
                             false, false)), EmptyString))))))))))))) rem0
                      then unescape_loop strict f
                             (skipn (S (S (S (S (S (S O)))))) rem0)
                             (app acc0 ((Npos (XI (XI (XI (XO (XO
                               XH)))))) :: []))
                      else if starts_with
                                (bS (String ((Ascii (false, true, true,
                                  false, false, true, false, false)), (String
                                  ((Ascii (true, false, false, false, true,
                                  true, true, false)), (String ((Ascii (true,
                                  false, true, false, true, true, true,
                                  false)), (String ((Ascii (true, true, true,
                                  true, false, true, true, false)), (String
                                  ((Ascii (false, false, true, false, true,
                                  true, true, false)), (String ((Ascii (true,
                                  true, false, true, true, true, false,
                                  false)), EmptyString))))))))))))) rem0
                           then unescape_loop strict f
                                  (skipn (S (S (S (S (S (S O)))))) rem0)
                                  (app acc0 ((Npos (XO (XI (XO (XO (XO
                                    XH)))))) :: []))
                           else if starts_with
                                     (bS (String ((Ascii (false, true, true,
                                       false, false, true, false, false)),
                                       (String ((Ascii (true, true, false,
                                       false, false, true, false, false)),
                                       (String ((Ascii (false, false, false,
                                       true, true, true, true, false)),
                                       EmptyString))))))) rem0
                                then (match find_byte (Npos (XI (XI (XO (XI
                                              (XI XH)))))) rem0 with
                                      | Some endpos ->
                                        let hextxt =
                                          firstn (sub endpos (S (S (S O))))
                                            (skipn (S (S (S O))) rem0)
                                        in
                                        if starts_with ((Npos (XI (XI (XO (XI
                                             (XO XH)))))) :: []) hextxt
                                        then invalid
                                        else (match from_str_radix_u (Npos
                                                      (XO (XO (XO (XO (XO
                                                      XH)))))) (Npos (XO (XO
                                                      (XO (XO XH))))) hextxt with
                                              | Some v ->
                                                if is_char v
                                                then unescape_loop strict f
                                                       (skipn (S endpos) rem0)
                                                       (app acc0
                                                         (utf8_encode v))
                                                else invalid
                                              | None -> invalid)
                                      | None -> invalid)
                                else if starts_with
                                          (bS (String ((Ascii (false, true,
                                            true, false, false, true, false,
                                            false)), (String ((Ascii (true,
                                            true, false, false, false, true,
                                            false, false)), EmptyString)))))
                                          rem0
                                     then (match find_byte (Npos (XI (XI (XO
                                                   (XI (XI XH)))))) rem0 with
                                           | Some endpos ->
                                             let numtxt =
                                               firstn (sub endpos (S (S O)))
                                                 (skipn (S (S O)) rem0)
                                             in
                                             if starts_with ((Npos (XI (XI
                                                  (XO (XI (XO XH)))))) :: [])
                                                  numtxt
                                             then invalid
                                             else (match from_str_radix_u
                                                           (Npos (XO (XO (XO
                                                           (XO (XO XH))))))
                                                           (Npos (XO (XI (XO
                                                           XH)))) numtxt with
                                                   | Some v ->
                                                     if is_char v
                                                     then unescape_loop
                                                            strict f
                                                            (skipn (S endpos)
                                                              rem0)
                                                            (app acc0
                                                              (utf8_encode v))
                                                     else invalid
                                                   | None -> invalid)
                                           | None -> invalid)
                                     else invalid
     | None -> ret (app acc rem))

(** val unescape_string : bool -> n list -> n list m **)

let unescape_string strict input =
  match find_byte (Npos (XO (XI (XI (XO (XO XH)))))) input with
  | Some _ -> unescape_loop strict (S (length input)) input []
  | None -> ret input

(** val opt_len_gt : n option -> n list -> bool **)

let opt_len_gt maxlen l =
  match maxlen with
  | Some m0 -> N.ltb m0 (N.of_nat (length l))
  | None -> false

(** val parse_character_data :
    bool -> nametab -> (n -> n list -> bool res) -> (n list -> n option) -> n
    list -> cdspec -> cdata m **)

let parse_character_data strict tab_en check_fn float_parse input spec =
  mbind (lift (trim_byte_string input)) (fun trimmed ->
    match spec with
    | CEnum items ->
      mbind (lift (name_of tab_en trimmed)) (fun v ->
        match v with
        | Some value ->
          (match find (fun it -> N.eqb (fst it) value) items with
           | Some p ->
             let (_, version) = p in
             mbind get (fun st ->
               mbind
                 (check_version strict version EnumItemVersionError st.p_cur
                   value) (fun _ -> ret (DEnum value)))
           | None -> mbind get (fun st -> hard InvalidEnumItem st.p_cur value))
        | None -> hard UnknownEnumItem N0 N0)
    | CPattern (fn, maxlen) ->
      mbind
        (if opt_len_gt maxlen trimmed
         then optional_error strict StringValueTooLong N0 N0
         else ret ()) (fun _ ->
        mbind (lift (check_fn fn trimmed)) (fun ok ->
          mbind
            (if negb ok
             then optional_error strict RegexMatchError N0 N0
             else ret ()) (fun _ ->
            if utf8_valid trimmed
            then ret (DString trimmed)
            else mbind (optional_error strict Utf8Error N0 N0) (fun _ ->
                   ret (DString (utf8_lossy trimmed))))))
    | CString (preserve, maxlen) ->
      let raw = if preserve then input else trimmed in
      mbind
        (if opt_len_gt maxlen raw
         then optional_error strict StringValueTooLong N0 N0
         else ret ()) (fun _ ->
        mbind
          (if utf8_valid raw
           then ret raw
           else mbind (optional_error strict Utf8Error N0 N0) (fun _ ->
                  ret (utf8_lossy raw))) (fun text ->
          mbind (unescape_string strict text) (fun u -> ret (DString u))))
    | CUInt ->
      if negb (utf8_valid trimmed)
      then hard Utf8Error N0 N0
      else (match from_str_radix_u (Npos (XO (XO (XO (XO (XO (XO XH)))))))
                    (Npos (XO (XI (XO XH)))) trimmed with
            | Some v -> ret (DUInt v)
            | None ->
              mbind (optional_error strict InvalidNumber N0 N0) (fun _ ->
                ret (DUInt N0)))
    | CFloat ->
      if negb (utf8_valid trimmed)
      then hard Utf8Error N0 N0
      else (match float_parse trimmed with
            | Some b -> ret (DFloat b)
            | None ->
              mbind (optional_error strict InvalidNumber N0 N0) (fun _ ->
                ret (DFloat N0))))

(** val attr_loop :
    bool -> tables -> nametab -> nametab -> (n -> n list -> bool res) -> (n
    list -> n option) -> nat -> etype -> n list -> (n * cdata) list -> (n
    list * (n * cdata) list) m **)

let rec attr_loop strict t tab_at tab_en check_fn float_parse fuel ty rem attrs =
  match fuel with
  | O -> mfuel
  | S f ->
    (match find_byte (Npos (XI (XO (XI (XI (XI XH)))))) rem with
     | Some equals_pos ->
       let attr_name_part = firstn equals_pos rem in
       if Nat.ltb (sub (length rem) equals_pos) (S (S (S O)))
       then ret (rem, attrs)
       else let quote_char = nth (S equals_pos) rem N0 in
            if (&&)
                 (negb (N.eqb quote_char (Npos (XO (XI (XO (XO (XO XH))))))))
                 (negb (N.eqb quote_char (Npos (XI (XI (XI (XO (XO XH))))))))
            then ret (rem, attrs)
            else let rem2 = skipn (add equals_pos (S (S O))) rem in
                 (match find_byte quote_char rem2 with
                  | Some endquote_pos ->
                    let attr_value_part = firstn endquote_pos rem2 in
                    mbind (lift (name_of tab_at attr_name_part)) (fun nm ->
                      mbind
                        (match nm with
                         | Some attr_name ->
                           mbind (lift (find_attribute_spec t ty attr_name))
                             (fun sp ->
                             match sp with
                             | Some p ->
                               let (p0, version_mask) = p in
                               let (p1, _) = p0 in
                               let (_, ctype) = p1 in
                               mbind get (fun st ->
                                 mbind
                                   (check_version strict version_mask
                                     AttributeVersionError st.p_cur attr_name)
                                   (fun _ ->
                                   mbind
                                     (parse_character_data strict tab_en
                                       check_fn float_parse attr_value_part
                                       ctype) (fun v ->
                                     ret (app attrs ((attr_name, v) :: [])))))
                             | None ->
                               mbind get (fun st ->
                                 mbind
                                   (optional_error strict
                                     UnknownAttributeError st.p_cur N0)
                                   (fun _ -> ret attrs)))
                         | None ->
                           mbind get (fun st ->
                             mbind
                               (optional_error strict UnknownAttributeError
                                 st.p_cur N0) (fun _ -> ret attrs)))
                        (fun attrs' ->
                        let after = skipn (S endquote_pos) rem2 in
                        let next0 = drop_ws after in
                        if (&&)
                             (negb
                               (match next0 with
                                | [] -> true
                                | _ :: _ -> false))
                             (Nat.eqb (length next0) (length after))
                        then ret (rem2, attrs')
                        else attr_loop strict t tab_at tab_en check_fn
                               float_parse f ty next0 attrs'))
                  | None -> ret (rem2, attrs))
     | None -> ret (rem, attrs))

(** val req_loop :
    bool -> n -> (n * cdata) list -> (((n * n) * cdspec) * n) list -> unit m **)

let rec req_loop strict cur attrs = function
| [] -> ret ()
| p :: l' ->
  let (p0, required) = p in
  let (p1, _) = p0 in
  let (name, _) = p1 in
  mbind
    (if (&&) (negb (N.eqb required N0))
          (negb (existsb (fun a -> N.eqb (fst a) name) attrs))
     then optional_error strict RequiredAttributeMissing cur name
     else ret ()) (fun _ -> req_loop strict cur attrs l')

(** val parse_attribute_text :
    bool -> tables -> nametab -> nametab -> (n -> n list -> bool res) -> (n
    list -> n option) -> etype -> n list -> (n * cdata) list m **)

let parse_attribute_text strict t tab_at tab_en check_fn float_parse ty attributes_text =
  let rem0 =
    match position (fun c -> negb (is_ws c)) attributes_text with
    | Some p -> skipn p attributes_text
    | None -> attributes_text
  in
  mbind
    (attr_loop strict t tab_at tab_en check_fn float_parse (S
      (length attributes_text)) ty rem0 []) (fun x ->
    let (rem, attrs) = x in
    mbind get (fun st ->
      mbind
        (if (&&) (negb (match rem with
                        | [] -> true
                        | _ :: _ -> false)) (negb (forallb is_ws rem))
         then optional_error strict AttributeValueError st.p_cur N0
         else ret ()) (fun _ ->
        mbind (lift (attribute_spec_list t ty)) (fun specs ->
          mbind (req_loop strict st.p_cur attrs specs) (fun _ -> ret attrs)))))

(** val split_on : n -> n list -> n list -> n list list **)

let rec split_on c cur = function
| [] -> (rev cur) :: []
| x :: l' ->
  if N.eqb x c
  then (rev cur) :: (split_on c [] l')
  else split_on c (x :: cur) l'

(** val ver_or_panic : n option -> n m **)

let ver_or_panic = function
| Some v -> ret v
| None ->
  mpanic (String ((Ascii (false, true, true, false, true, true, true,
    false)), (String ((Ascii (true, false, true, false, false, true, true,
    false)), (String ((Ascii (false, true, false, false, true, true, true,
    false)), (String ((Ascii (true, true, false, false, true, true, true,
    false)), (String ((Ascii (true, false, false, true, false, true, true,
    false)), (String ((Ascii (true, true, true, true, false, true, true,
    false)), (String ((Ascii (false, true, true, true, false, true, true,
    false)), (String ((Ascii (false, false, false, false, false, true, false,
    false)), (String ((Ascii (true, true, false, false, false, true, true,
    false)), (String ((Ascii (true, true, true, true, false, true, true,
    false)), (String ((Ascii (false, true, true, true, false, true, true,
    false)), (String ((Ascii (true, true, false, false, true, true, true,
    false)), (String ((Ascii (false, false, true, false, true, true, true,
    false)), (String ((Ascii (true, false, false, false, false, true, true,
    false)), (String ((Ascii (false, true, true, true, false, true, true,
    false)), (String ((Ascii (false, false, true, false, true, true, true,
    false)), (String ((Ascii (false, false, false, false, false, true, false,
    false)), (String ((Ascii (true, false, true, true, false, true, true,
    false)), (String ((Ascii (true, false, false, true, false, true, true,
    false)), (String ((Ascii (true, true, false, false, true, true, true,
    false)), (String ((Ascii (true, true, false, false, true, true, true,
    false)), (String ((Ascii (true, false, false, true, false, true, true,
    false)), (String ((Ascii (false, true, true, true, false, true, true,
    false)), (String ((Ascii (true, true, true, false, false, true, true,
    false)), (String ((Ascii (false, false, false, false, false, true, false,
    false)), (String ((Ascii (false, true, true, false, false, true, true,
    false)), (String ((Ascii (false, true, false, false, true, true, true,
    false)), (String ((Ascii (true, true, true, true, false, true, true,
    false)), (String ((Ascii (true, false, true, true, false, true, true,
    false)), (String ((Ascii (false, false, false, false, false, true, false,
    false)), (String ((Ascii (false, false, true, false, true, true, true,
    false)), (String ((Ascii (false, false, false, true, false, true, true,
    false)), (String ((Ascii (true, false, true, false, false, true, true,
    false)), (String ((Ascii (false, false, false, false, false, true, false,
    false)), (String ((Ascii (false, false, true, false, true, true, true,
    false)), (String ((Ascii (true, false, false, false, false, true, true,
    false)), (String ((Ascii (false, true, false, false, false, true, true,
    false)), (String ((Ascii (false, false, true, true, false, true, true,
    false)), (String ((Ascii (true, false, true, false, false, true, true,
    false)), (String ((Ascii (true, true, false, false, true, true, true,
    false)),
    EmptyString))))))))))))))))))))))))))))))))))))))))))))))))))))))))))))))))))))))))))))))))

(** val parse_file_version : bool -> n list -> n m **)

let parse_file_version strict schema =
  let parts = split_on (Npos (XO (XO (XO (XO (XO XH)))))) [] schema in
  let schema_base = hd [] parts in
  if negb
       (bytes_eqb schema_base
         (bS (String ((Ascii (false, false, false, true, false, true, true,
           false)), (String ((Ascii (false, false, true, false, true, true,
           true, false)), (String ((Ascii (false, false, true, false, true,
           true, true, false)), (String ((Ascii (false, false, false, false,
           true, true, true, false)), (String ((Ascii (false, true, false,
           true, true, true, false, false)), (String ((Ascii (true, true,
           true, true, false, true, false, false)), (String ((Ascii (true,
           true, true, true, false, true, false, false)), (String ((Ascii
           (true, false, false, false, false, true, true, false)), (String
           ((Ascii (true, false, true, false, true, true, true, false)),
           (String ((Ascii (false, false, true, false, true, true, true,
           false)), (String ((Ascii (true, true, true, true, false, true,
           true, false)), (String ((Ascii (true, true, false, false, true,
           true, true, false)), (String ((Ascii (true, false, false, false,
           false, true, true, false)), (String ((Ascii (false, true, false,
           false, true, true, true, false)), (String ((Ascii (false, true,
           true, true, false, true, false, false)), (String ((Ascii (true,
           true, true, true, false, true, true, false)), (String ((Ascii
           (false, true, false, false, true, true, true, false)), (String
           ((Ascii (true, true, true, false, false, true, true, false)),
           (String ((Ascii (true, true, true, true, false, true, false,
           false)), (String ((Ascii (true, true, false, false, true, true,
           true, false)), (String ((Ascii (true, true, false, false, false,
           true, true, false)), (String ((Ascii (false, false, false, true,
           false, true, true, false)), (String ((Ascii (true, false, true,
           false, false, true, true, false)), (String ((Ascii (true, false,
           true, true, false, true, true, false)), (String ((Ascii (true,
           false, false, false, false, true, true, false)), (String ((Ascii
           (true, true, true, true, false, true, false, false)), (String
           ((Ascii (false, true, false, false, true, true, true, false)),
           (String ((Ascii (false, false, true, false, true, true, false,
           false)), (String ((Ascii (false, true, true, true, false, true,
           false, false)), (String ((Ascii (false, false, false, false, true,
           true, false, false)),
           EmptyString))))))))))))))))))))))))))))))))))))))))))))))))))))))))))))))
  then hard InvalidArxmlFileHeader N0 N0
  else let xsd_file_raw = hd [] (tl parts) in
       let xsd_file =
         if starts_with
              (bS (String ((Ascii (true, false, false, false, false, true,
                true, false)), (String ((Ascii (true, false, true, false,
                true, true, true, false)), (String ((Ascii (false, false,
                true, false, true, true, true, false)), (String ((Ascii
                (true, true, true, true, false, true, true, false)), (String
                ((Ascii (true, true, false, false, true, true, true, false)),
                (String ((Ascii (true, false, false, false, false, true,
                true, false)), (String ((Ascii (false, true, false, false,
                true, true, true, false)), EmptyString)))))))))))))))
              xsd_file_raw
         then app
                (bS (String ((Ascii (true, false, false, false, false, false,
                  true, false)), (String ((Ascii (true, false, true, false,
                  true, false, true, false)), (String ((Ascii (false, false,
                  true, false, true, false, true, false)), (String ((Ascii
                  (true, true, true, true, false, false, true, false)),
                  (String ((Ascii (true, true, false, false, true, false,
                  true, false)), (String ((Ascii (true, false, false, false,
                  false, false, true, false)), (String ((Ascii (false, true,
                  false, false, true, false, true, false)),
                  EmptyString)))))))))))))))
                (skipn (S (S (S (S (S (S (S O))))))) xsd_file_raw)
         else xsd_file_raw
       in
       (match version_of_filename xsd_file with
        | Some v -> ret v
        | None ->
          if bytes_eqb xsd_file
               (bS (String ((Ascii (true, false, false, false, false, false,
                 true, false)), (String ((Ascii (true, false, true, false,
                 true, false, true, false)), (String ((Ascii (false, false,
                 true, false, true, false, true, false)), (String ((Ascii
                 (true, true, true, true, false, false, true, false)),
                 (String ((Ascii (true, true, false, false, true, false,
                 true, false)), (String ((Ascii (true, false, false, false,
                 false, false, true, false)), (String ((Ascii (false, true,
                 false, false, true, false, true, false)), (String ((Ascii
                 (true, true, true, true, true, false, true, false)), (String
                 ((Ascii (false, false, true, false, true, true, false,
                 false)), (String ((Ascii (true, false, true, true, false,
                 true, false, false)), (String ((Ascii (true, true, false,
                 false, true, true, false, false)), (String ((Ascii (true,
                 false, true, true, false, true, false, false)), (String
                 ((Ascii (true, false, false, false, true, true, false,
                 false)), (String ((Ascii (false, true, true, true, false,
                 true, false, false)), (String ((Ascii (false, false, false,
                 true, true, true, true, false)), (String ((Ascii (true,
                 true, false, false, true, true, true, false)), (String
                 ((Ascii (false, false, true, false, false, true, true,
                 false)), EmptyString)))))))))))))))))))))))))))))))))))
          then mbind (optional_error strict InvalidAutosarVersion N0 N0)
                 (fun _ ->
                 ver_or_panic
                   (version_of_ident (String ((Ascii (true, false, false,
                     false, false, false, true, false)), (String ((Ascii
                     (true, false, true, false, true, true, true, false)),
                     (String ((Ascii (false, false, true, false, true, true,
                     true, false)), (String ((Ascii (true, true, true, true,
                     false, true, true, false)), (String ((Ascii (true, true,
                     false, false, true, true, true, false)), (String ((Ascii
                     (true, false, false, false, false, true, true, false)),
                     (String ((Ascii (false, true, false, false, true, true,
                     true, false)), (String ((Ascii (true, true, true, true,
                     true, false, true, false)), (String ((Ascii (false,
                     false, false, false, true, true, false, false)), (String
                     ((Ascii (false, false, false, false, true, true, false,
                     false)), (String ((Ascii (false, false, false, false,
                     true, true, false, false)), (String ((Ascii (false,
                     false, true, false, true, true, false, false)), (String
                     ((Ascii (false, false, true, false, true, true, false,
                     false)), EmptyString))))))))))))))))))))))))))))
          else if bytes_eqb xsd_file
                    (bS (String ((Ascii (true, false, false, false, false,
                      false, true, false)), (String ((Ascii (true, false,
                      true, false, true, false, true, false)), (String
                      ((Ascii (false, false, true, false, true, false, true,
                      false)), (String ((Ascii (true, true, true, true,
                      false, false, true, false)), (String ((Ascii (true,
                      true, false, false, true, false, true, false)), (String
                      ((Ascii (true, false, false, false, false, false, true,
                      false)), (String ((Ascii (false, true, false, false,
                      true, false, true, false)), (String ((Ascii (true,
                      true, true, true, true, false, true, false)), (String
                      ((Ascii (false, false, true, false, true, true, false,
                      false)), (String ((Ascii (true, false, true, true,
                      false, true, false, false)), (String ((Ascii (false,
                      false, true, false, true, true, false, false)), (String
                      ((Ascii (true, false, true, true, false, true, false,
                      false)), (String ((Ascii (false, false, false, false,
                      true, true, false, false)), (String ((Ascii (false,
                      true, true, true, false, true, false, false)), (String
                      ((Ascii (false, false, false, true, true, true, true,
                      false)), (String ((Ascii (true, true, false, false,
                      true, true, true, false)), (String ((Ascii (false,
                      false, true, false, false, true, true, false)),
                      EmptyString)))))))))))))))))))))))))))))))))))
               then mbind (optional_error strict InvalidAutosarVersion N0 N0)
                      (fun _ ->
                      ver_or_panic
                        (version_of_ident (String ((Ascii (true, false,
                          false, false, false, false, true, false)), (String
                          ((Ascii (true, false, true, false, true, true,
                          true, false)), (String ((Ascii (false, false, true,
                          false, true, true, true, false)), (String ((Ascii
                          (true, true, true, true, false, true, true,
                          false)), (String ((Ascii (true, true, false, false,
                          true, true, true, false)), (String ((Ascii (true,
                          false, false, false, false, true, true, false)),
                          (String ((Ascii (false, true, false, false, true,
                          true, true, false)), (String ((Ascii (true, true,
                          true, true, true, false, true, false)), (String
                          ((Ascii (false, false, false, false, true, true,
                          false, false)), (String ((Ascii (false, false,
                          false, false, true, true, false, false)), (String
                          ((Ascii (false, false, false, false, true, true,
                          false, false)), (String ((Ascii (false, false,
                          true, false, true, true, false, false)), (String
                          ((Ascii (false, true, true, false, true, true,
                          false, false)),
                          EmptyString))))))))))))))))))))))))))))
               else if bytes_eqb xsd_file
                         (bS (String ((Ascii (true, false, false, false,
                           false, false, true, false)), (String ((Ascii
                           (true, false, true, false, true, false, true,
                           false)), (String ((Ascii (false, false, true,
                           false, true, false, true, false)), (String ((Ascii
                           (true, true, true, true, false, false, true,
                           false)), (String ((Ascii (true, true, false,
                           false, true, false, true, false)), (String ((Ascii
                           (true, false, false, false, false, false, true,
                           false)), (String ((Ascii (false, true, false,
                           false, true, false, true, false)), (String ((Ascii
                           (true, true, true, true, true, false, true,
                           false)), (String ((Ascii (false, false, true,
                           false, true, true, false, false)), (String ((Ascii
                           (true, false, true, true, false, true, false,
                           false)), (String ((Ascii (true, false, true,
                           false, true, true, false, false)), (String ((Ascii
                           (true, false, true, true, false, true, false,
                           false)), (String ((Ascii (false, false, false,
                           false, true, true, false, false)), (String ((Ascii
                           (false, true, true, true, false, true, false,
                           false)), (String ((Ascii (false, false, false,
                           true, true, true, true, false)), (String ((Ascii
                           (true, true, false, false, true, true, true,
                           false)), (String ((Ascii (false, false, true,
                           false, false, true, true, false)),
                           EmptyString)))))))))))))))))))))))))))))))))))
                    then mbind
                           (optional_error strict InvalidAutosarVersion N0 N0)
                           (fun _ ->
                           ver_or_panic
                             (version_of_ident (String ((Ascii (true, false,
                               false, false, false, false, true, false)),
                               (String ((Ascii (true, false, true, false,
                               true, true, true, false)), (String ((Ascii
                               (false, false, true, false, true, true, true,
                               false)), (String ((Ascii (true, true, true,
                               true, false, true, true, false)), (String
                               ((Ascii (true, true, false, false, true, true,
                               true, false)), (String ((Ascii (true, false,
                               false, false, false, true, true, false)),
                               (String ((Ascii (false, true, false, false,
                               true, true, true, false)), (String ((Ascii
                               (true, true, true, true, true, false, true,
                               false)), (String ((Ascii (false, false, false,
                               false, true, true, false, false)), (String
                               ((Ascii (false, false, false, false, true,
                               true, false, false)), (String ((Ascii (false,
                               false, false, false, true, true, false,
                               false)), (String ((Ascii (false, false, true,
                               false, true, true, false, false)), (String
                               ((Ascii (false, false, false, true, true,
                               true, false, false)),
                               EmptyString))))))))))))))))))))))))))))
                    else mbind
                           (optional_error strict UnknownAutosarVersion N0 N0)
                           (fun _ -> ver_or_panic version_latest))

(** val attr_string : n -> (n * cdata) list -> n list option option **)

let attr_string name attrs =
  match find (fun a -> N.eqb (fst a) name) attrs with
  | Some p ->
    let (_, c) = p in
    (match c with
     | DString s -> Some (Some s)
     | _ -> Some None)
  | None -> None

(** val attr_id : nametab -> n list -> n m **)

let attr_id tab_at text =
  mbind (lift (name_of tab_at text)) (fun r ->
    match r with
    | Some i -> ret i
    | None ->
      mpanic (String ((Ascii (true, false, false, false, false, false, true,
        false)), (String ((Ascii (false, false, true, false, true, true,
        true, false)), (String ((Ascii (false, false, true, false, true,
        true, true, false)), (String ((Ascii (false, true, false, false,
        true, true, true, false)), (String ((Ascii (true, false, false, true,
        false, true, true, false)), (String ((Ascii (false, true, false,
        false, false, true, true, false)), (String ((Ascii (true, false,
        true, false, true, true, true, false)), (String ((Ascii (false,
        false, true, false, true, true, true, false)), (String ((Ascii (true,
        false, true, false, false, true, true, false)), (String ((Ascii
        (false, true, true, true, false, false, true, false)), (String
        ((Ascii (true, false, false, false, false, true, true, false)),
        (String ((Ascii (true, false, true, true, false, true, true, false)),
        (String ((Ascii (true, false, true, false, false, true, true,
        false)), (String ((Ascii (false, false, false, false, false, true,
        false, false)), (String ((Ascii (true, true, false, false, false,
        true, true, false)), (String ((Ascii (true, true, true, true, false,
        true, true, false)), (String ((Ascii (false, true, true, true, false,
        true, true, false)), (String ((Ascii (true, true, false, false, true,
        true, true, false)), (String ((Ascii (false, false, true, false,
        true, true, true, false)), (String ((Ascii (true, false, false,
        false, false, true, true, false)), (String ((Ascii (false, true,
        true, true, false, true, true, false)), (String ((Ascii (false,
        false, true, false, true, true, true, false)), (String ((Ascii
        (false, false, false, false, false, true, false, false)), (String
        ((Ascii (true, false, true, true, false, true, true, false)), (String
        ((Ascii (true, false, false, true, false, true, true, false)),
        (String ((Ascii (true, true, false, false, true, true, true, false)),
        (String ((Ascii (true, true, false, false, true, true, true, false)),
        (String ((Ascii (true, false, false, true, false, true, true,
        false)), (String ((Ascii (false, true, true, true, false, true, true,
        false)), (String ((Ascii (true, true, true, false, false, true, true,
        false)), (String ((Ascii (false, false, false, false, false, true,
        false, false)), (String ((Ascii (false, true, true, false, false,
        true, true, false)), (String ((Ascii (false, true, false, false,
        true, true, true, false)), (String ((Ascii (true, true, true, true,
        false, true, true, false)), (String ((Ascii (true, false, true, true,
        false, true, true, false)), (String ((Ascii (false, false, false,
        false, false, true, false, false)), (String ((Ascii (false, false,
        true, false, true, true, true, false)), (String ((Ascii (false,
        false, false, true, false, true, true, false)), (String ((Ascii
        (true, false, true, false, false, true, true, false)), (String
        ((Ascii (false, false, false, false, false, true, false, false)),
        (String ((Ascii (false, false, true, false, true, true, true,
        false)), (String ((Ascii (true, false, false, false, false, true,
        true, false)), (String ((Ascii (false, true, false, false, false,
        true, true, false)), (String ((Ascii (false, false, true, true,
        false, true, true, false)), (String ((Ascii (true, false, true,
        false, false, true, true, false)),
        EmptyString)))))))))))))))))))))))))))))))))))))))))))))))))))))))))))))))))))))))))))))))))))))))))))

(** val parse_file_header : bool -> nametab -> (n * cdata) list -> unit m **)

let parse_file_header strict tab_at attrs =
  mbind
    (attr_id tab_at
      (bS (String ((Ascii (false, false, false, true, true, true, true,
        false)), (String ((Ascii (true, false, true, true, false, true, true,
        false)), (String ((Ascii (false, false, true, true, false, true,
        true, false)), (String ((Ascii (false, true, true, true, false, true,
        true, false)), (String ((Ascii (true, true, false, false, true, true,
        true, false)), EmptyString)))))))))))) (fun a_xmlns ->
    mbind
      (attr_id tab_at
        (bS (String ((Ascii (false, false, false, true, true, true, true,
          false)), (String ((Ascii (true, false, true, true, false, true,
          true, false)), (String ((Ascii (false, false, true, true, false,
          true, true, false)), (String ((Ascii (false, true, true, true,
          false, true, true, false)), (String ((Ascii (true, true, false,
          false, true, true, true, false)), (String ((Ascii (false, true,
          false, true, true, true, false, false)), (String ((Ascii (false,
          false, false, true, true, true, true, false)), (String ((Ascii
          (true, true, false, false, true, true, true, false)), (String
          ((Ascii (true, false, false, true, false, true, true, false)),
          EmptyString)))))))))))))))))))) (fun a_xsi ->
      mbind
        (attr_id tab_at
          (bS (String ((Ascii (false, false, false, true, true, true, true,
            false)), (String ((Ascii (true, true, false, false, true, true,
            true, false)), (String ((Ascii (true, false, false, true, false,
            true, true, false)), (String ((Ascii (false, true, false, true,
            true, true, false, false)), (String ((Ascii (true, true, false,
            false, true, true, true, false)), (String ((Ascii (true, true,
            false, false, false, true, true, false)), (String ((Ascii (false,
            false, false, true, false, true, true, false)), (String ((Ascii
            (true, false, true, false, false, true, true, false)), (String
            ((Ascii (true, false, true, true, false, true, true, false)),
            (String ((Ascii (true, false, false, false, false, true, true,
            false)), (String ((Ascii (false, false, true, true, false, false,
            true, false)), (String ((Ascii (true, true, true, true, false,
            true, true, false)), (String ((Ascii (true, true, false, false,
            false, true, true, false)), (String ((Ascii (true, false, false,
            false, false, true, true, false)), (String ((Ascii (false, false,
            true, false, true, true, true, false)), (String ((Ascii (true,
            false, false, true, false, true, true, false)), (String ((Ascii
            (true, true, true, true, false, true, true, false)), (String
            ((Ascii (false, true, true, true, false, true, true, false)),
            EmptyString))))))))))))))))))))))))))))))))))))))
        (fun a_schema ->
        match attr_string a_xmlns attrs with
        | Some o ->
          (match o with
           | Some xmlns ->
             (match attr_string a_xsi attrs with
              | Some o0 ->
                (match o0 with
                 | Some xsi ->
                   (match attr_string a_schema attrs with
                    | Some o1 ->
                      (match o1 with
                       | Some schema ->
                         if (||)
                              (negb
                                (bytes_eqb xmlns
                                  (bS (String ((Ascii (false, false, false,
                                    true, false, true, true, false)), (String
                                    ((Ascii (false, false, true, false, true,
                                    true, true, false)), (String ((Ascii
                                    (false, false, true, false, true, true,
                                    true, false)), (String ((Ascii (false,
                                    false, false, false, true, true, true,
                                    false)), (String ((Ascii (false, true,
                                    false, true, true, true, false, false)),
                                    (String ((Ascii (true, true, true, true,
                                    false, true, false, false)), (String
                                    ((Ascii (true, true, true, true, false,
                                    true, false, false)), (String ((Ascii
                                    (true, false, false, false, false, true,
                                    true, false)), (String ((Ascii (true,
                                    false, true, false, true, true, true,
                                    false)), (String ((Ascii (false, false,
                                    true, false, true, true, true, false)),
                                    (String ((Ascii (true, true, true, true,
                                    false, true, true, false)), (String
                                    ((Ascii (true, true, false, false, true,
                                    true, true, false)), (String ((Ascii
                                    (true, false, false, false, false, true,
                                    true, false)), (String ((Ascii (false,
                                    true, false, false, true, true, true,
                                    false)), (String ((Ascii (false, true,
                                    true, true, false, true, false, false)),
                                    (String ((Ascii (true, true, true, true,
                                    false, true, true, false)), (String
                                    ((Ascii (false, true, false, false, true,
                                    true, true, false)), (String ((Ascii
                                    (true, true, true, false, false, true,
                                    true, false)), (String ((Ascii (true,
                                    true, true, true, false, true, false,
                                    false)), (String ((Ascii (true, true,
                                    false, false, true, true, true, false)),
                                    (String ((Ascii (true, true, false,
                                    false, false, true, true, false)),
                                    (String ((Ascii (false, false, false,
                                    true, false, true, true, false)), (String
                                    ((Ascii (true, false, true, false, false,
                                    true, true, false)), (String ((Ascii
                                    (true, false, true, true, false, true,
                                    true, false)), (String ((Ascii (true,
                                    false, false, false, false, true, true,
                                    false)), (String ((Ascii (true, true,
                                    true, true, false, true, false, false)),
                                    (String ((Ascii (false, true, false,
                                    false, true, true, true, false)), (String
                                    ((Ascii (false, false, true, false, true,
                                    true, false, false)), (String ((Ascii
                                    (false, true, true, true, false, true,
                                    false, false)), (String ((Ascii (false,
                                    false, false, false, true, true, false,
                                    false)),
                                    EmptyString)))))))))))))))))))))))))))))))))))))))))))))))))))))))))))))))
                              (negb
                                (bytes_eqb xsi
                                  (bS (String ((Ascii (false, false, false,
                                    true, false, true, true, false)), (String
                                    ((Ascii (false, false, true, false, true,
                                    true, true, false)), (String ((Ascii
                                    (false, false, true, false, true, true,
                                    true, false)), (String ((Ascii (false,
                                    false, false, false, true, true, true,
                                    false)), (String ((Ascii (false, true,
                                    false, true, true, true, false, false)),
                                    (String ((Ascii (true, true, true, true,
                                    false, true, false, false)), (String
                                    ((Ascii (true, true, true, true, false,
                                    true, false, false)), (String ((Ascii
                                    (true, true, true, false, true, true,
                                    true, false)), (String ((Ascii (true,
                                    true, true, false, true, true, true,
                                    false)), (String ((Ascii (true, true,
                                    true, false, true, true, true, false)),
                                    (String ((Ascii (false, true, true, true,
                                    false, true, false, false)), (String
                                    ((Ascii (true, true, true, false, true,
                                    true, true, false)), (String ((Ascii
                                    (true, true, false, false, true, true,
                                    false, false)), (String ((Ascii (false,
                                    true, true, true, false, true, false,
                                    false)), (String ((Ascii (true, true,
                                    true, true, false, true, true, false)),
                                    (String ((Ascii (false, true, false,
                                    false, true, true, true, false)), (String
                                    ((Ascii (true, true, true, false, false,
                                    true, true, false)), (String ((Ascii
                                    (true, true, true, true, false, true,
                                    false, false)), (String ((Ascii (false,
                                    true, false, false, true, true, false,
                                    false)), (String ((Ascii (false, false,
                                    false, false, true, true, false, false)),
                                    (String ((Ascii (false, false, false,
                                    false, true, true, false, false)),
                                    (String ((Ascii (true, false, false,
                                    false, true, true, false, false)),
                                    (String ((Ascii (true, true, true, true,
                                    false, true, false, false)), (String
                                    ((Ascii (false, false, false, true, true,
                                    false, true, false)), (String ((Ascii
                                    (true, false, true, true, false, false,
                                    true, false)), (String ((Ascii (false,
                                    false, true, true, false, false, true,
                                    false)), (String ((Ascii (true, true,
                                    false, false, true, false, true, false)),
                                    (String ((Ascii (true, true, false,
                                    false, false, true, true, false)),
                                    (String ((Ascii (false, false, false,
                                    true, false, true, true, false)), (String
                                    ((Ascii (true, false, true, false, false,
                                    true, true, false)), (String ((Ascii
                                    (true, false, true, true, false, true,
                                    true, false)), (String ((Ascii (true,
                                    false, false, false, false, true, true,
                                    false)), (String ((Ascii (true, false,
                                    true, true, false, true, false, false)),
                                    (String ((Ascii (true, false, false,
                                    true, false, true, true, false)), (String
                                    ((Ascii (false, true, true, true, false,
                                    true, true, false)), (String ((Ascii
                                    (true, true, false, false, true, true,
                                    true, false)), (String ((Ascii (false,
                                    false, true, false, true, true, true,
                                    false)), (String ((Ascii (true, false,
                                    false, false, false, true, true, false)),
                                    (String ((Ascii (false, true, true, true,
                                    false, true, true, false)), (String
                                    ((Ascii (true, true, false, false, false,
                                    true, true, false)), (String ((Ascii
                                    (true, false, true, false, false, true,
                                    true, false)),
                                    EmptyString)))))))))))))))))))))))))))))))))))))))))))))))))))))))))))))))))))))))))))))))))))))
                         then hard InvalidArxmlFileHeader N0 N0
                         else mbind (parse_file_version strict schema)
                                (fun v -> modify (fun st -> set_version st v))
                       | None -> hard InvalidArxmlFileHeader N0 N0)
                    | None -> hard InvalidArxmlFileHeader N0 N0)
                 | None -> hard InvalidArxmlFileHeader N0 N0)
              | None -> hard InvalidArxmlFileHeader N0 N0)
           | None -> hard InvalidArxmlFileHeader N0 N0)
        | None -> hard InvalidArxmlFileHeader N0 N0)))

(** val find_element_in_spec_checked :
    bool -> tables -> n -> etype -> (etype * n list) m **)

let find_element_in_spec_checked strict t name ty =
  mbind get (fun st ->
    mbind (lift (find_sub_element t ty name st.p_version)) (fun r ->
      match r with
      | Some x -> ret x
      | None ->
        mbind
          (lift
            (find_sub_element t ty name (Npos (XI (XI (XI (XI (XI (XI (XI (XI
              (XI (XI (XI (XI (XI (XI (XI (XI (XI (XI (XI (XI (XI (XI (XI (XI
              (XI (XI (XI (XI (XI (XI (XI XH))))))))))))))))))))))))))))))))))
          (fun r2 ->
          match r2 with
          | Some p ->
            let (sub0, idx) = p in
            mbind (lift (get_sub_element_version_mask t ty idx)) (fun vm ->
              match vm with
              | Some mask0 ->
                mbind
                  (check_version strict mask0 ElementVersionError st.p_cur
                    name) (fun _ -> ret (sub0, idx))
              | None ->
                mpanic (String ((Ascii (false, false, false, false, true,
                  true, true, false)), (String ((Ascii (true, false, false,
                  false, false, true, true, false)), (String ((Ascii (false,
                  true, false, false, true, true, true, false)), (String
                  ((Ascii (true, true, false, false, true, true, true,
                  false)), (String ((Ascii (true, false, true, false, false,
                  true, true, false)), (String ((Ascii (false, true, false,
                  false, true, true, true, false)), (String ((Ascii (false,
                  true, true, true, false, true, false, false)), (String
                  ((Ascii (false, true, false, false, true, true, true,
                  false)), (String ((Ascii (true, true, false, false, true,
                  true, true, false)), (String ((Ascii (false, true, false,
                  true, true, true, false, false)), (String ((Ascii (false,
                  false, false, false, false, true, false, false)), (String
                  ((Ascii (true, true, true, false, false, true, true,
                  false)), (String ((Ascii (true, false, true, false, false,
                  true, true, false)), (String ((Ascii (false, false, true,
                  false, true, true, true, false)), (String ((Ascii (true,
                  true, true, true, true, false, true, false)), (String
                  ((Ascii (true, true, false, false, true, true, true,
                  false)), (String ((Ascii (true, false, true, false, true,
                  true, true, false)), (String ((Ascii (false, true, false,
                  false, false, true, true, false)), (String ((Ascii (true,
                  true, true, true, true, false, true, false)), (String
                  ((Ascii (true, false, true, false, false, true, true,
                  false)), (String ((Ascii (false, false, true, true, false,
                  true, true, false)), (String ((Ascii (true, false, true,
                  false, false, true, true, false)), (String ((Ascii (true,
                  false, true, true, false, true, true, false)), (String
                  ((Ascii (true, false, true, false, false, true, true,
                  false)), (String ((Ascii (false, true, true, true, false,
                  true, true, false)), (String ((Ascii (false, false, true,
                  false, true, true, true, false)), (String ((Ascii (true,
                  true, true, true, true, false, true, false)), (String
                  ((Ascii (false, true, true, false, true, true, true,
                  false)), (String ((Ascii (true, false, true, false, false,
                  true, true, false)), (String ((Ascii (false, true, false,
                  false, true, true, true, false)), (String ((Ascii (true,
                  true, false, false, true, true, true, false)), (String
                  ((Ascii (true, false, false, true, false, true, true,
                  false)), (String ((Ascii (true, true, true, true, false,
                  true, true, false)), (String ((Ascii (false, true, true,
                  true, false, true, true, false)), (String ((Ascii (true,
                  true, true, true, true, false, true, false)), (String
                  ((Ascii (true, false, true, true, false, true, true,
                  false)), (String ((Ascii (true, false, false, false, false,
                  true, true, false)), (String ((Ascii (true, true, false,
                  false, true, true, true, false)), (String ((Ascii (true,
                  true, false, true, false, true, true, false)), (String
                  ((Ascii (false, false, false, true, false, true, false,
                  false)), (String ((Ascii (false, true, true, true, false,
                  true, false, false)), (String ((Ascii (false, true, true,
                  true, false, true, false, false)), (String ((Ascii (true,
                  false, false, true, false, true, false, false)), (String
                  ((Ascii (false, true, true, true, false, true, false,
                  false)), (String ((Ascii (true, false, true, false, true,
                  true, true, false)), (String ((Ascii (false, true, true,
                  true, false, true, true, false)), (String ((Ascii (true,
                  true, true, false, true, true, true, false)), (String
                  ((Ascii (false, true, false, false, true, true, true,
                  false)), (String ((Ascii (true, false, false, false, false,
                  true, true, false)), (String ((Ascii (false, false, false,
                  false, true, true, true, false)), (String ((Ascii (false,
                  false, false, true, false, true, false, false)), (String
                  ((Ascii (true, false, false, true, false, true, false,
                  false)),
                  EmptyString)))))))))))))))))))))))))))))))))))))))))))))))))))))))))))))))))))))))))))))))))))))))))))))))))))))))))
          | None -> hard IncorrectBeginElement st.p_cur name)))

(** val list_eqbN : n list -> n list -> bool **)

let rec list_eqbN a b =
  match a with
  | [] -> (match b with
           | [] -> true
           | _ :: _ -> false)
  | x :: a' ->
    (match b with
     | [] -> false
     | y :: b' -> (&&) (N.eqb x y) (list_eqbN a' b'))

(** val check_element_conflict :
    bool -> tables -> n -> etype -> n list -> n list -> unit m **)

let check_element_conflict strict t name ty old new0 =
  match old with
  | [] -> ret ()
  | _ :: _ ->
    if list_eqbN old new0
    then ret ()
    else mbind (lift (find_common_group t ty old new0)) (fun g ->
           mbind (lift (dt t g)) (fun d ->
             let mode = d.dt_mode in
             if N.eqb mode mChoice
             then mbind get (fun st ->
                    optional_error strict ElementChoiceConflict st.p_cur name)
             else if N.eqb mode mCharacters
                  then mpanic (String ((Ascii (false, false, false, false,
                         true, true, true, false)), (String ((Ascii (true,
                         false, false, false, false, true, true, false)),
                         (String ((Ascii (false, true, false, false, true,
                         true, true, false)), (String ((Ascii (true, true,
                         false, false, true, true, true, false)), (String
                         ((Ascii (true, false, true, false, false, true,
                         true, false)), (String ((Ascii (false, true, false,
                         false, true, true, true, false)), (String ((Ascii
                         (false, true, true, true, false, true, false,
                         false)), (String ((Ascii (false, true, false, false,
                         true, true, true, false)), (String ((Ascii (true,
                         true, false, false, true, true, true, false)),
                         (String ((Ascii (false, true, false, true, true,
                         true, false, false)), (String ((Ascii (false, false,
                         false, false, false, true, false, false)), (String
                         ((Ascii (true, false, false, false, false, true,
                         true, false)), (String ((Ascii (true, true, false,
                         false, false, true, true, false)), (String ((Ascii
                         (true, true, false, false, false, true, true,
                         false)), (String ((Ascii (true, false, true, false,
                         false, true, true, false)), (String ((Ascii (false,
                         false, false, false, true, true, true, false)),
                         (String ((Ascii (false, false, true, false, true,
                         true, true, false)), (String ((Ascii (true, false,
                         true, false, false, true, true, false)), (String
                         ((Ascii (false, false, true, false, false, true,
                         true, false)), (String ((Ascii (false, false, false,
                         false, false, true, false, false)), (String ((Ascii
                         (true, false, false, false, false, true, true,
                         false)), (String ((Ascii (false, false, false,
                         false, false, true, false, false)), (String ((Ascii
                         (true, true, false, false, true, true, true,
                         false)), (String ((Ascii (true, false, true, false,
                         true, true, true, false)), (String ((Ascii (false,
                         true, false, false, false, true, true, false)),
                         (String ((Ascii (true, false, true, true, false,
                         true, false, false)), (String ((Ascii (true, false,
                         true, false, false, true, true, false)), (String
                         ((Ascii (false, false, true, true, false, true,
                         true, false)), (String ((Ascii (true, false, true,
                         false, false, true, true, false)), (String ((Ascii
                         (true, false, true, true, false, true, true,
                         false)), (String ((Ascii (true, false, true, false,
                         false, true, true, false)), (String ((Ascii (false,
                         true, true, true, false, true, true, false)),
                         (String ((Ascii (false, false, true, false, true,
                         true, true, false)), (String ((Ascii (false, false,
                         false, false, false, true, false, false)), (String
                         ((Ascii (true, false, false, true, false, true,
                         true, false)), (String ((Ascii (false, true, true,
                         true, false, true, true, false)), (String ((Ascii
                         (true, true, false, false, true, true, true,
                         false)), (String ((Ascii (true, false, false, true,
                         false, true, true, false)), (String ((Ascii (false,
                         false, true, false, false, true, true, false)),
                         (String ((Ascii (true, false, true, false, false,
                         true, true, false)), (String ((Ascii (false, false,
                         false, false, false, true, false, false)), (String
                         ((Ascii (true, false, false, false, false, true,
                         true, false)), (String ((Ascii (false, false, false,
                         false, false, true, false, false)), (String ((Ascii
                         (true, true, false, false, false, true, true,
                         false)), (String ((Ascii (false, false, false, true,
                         false, true, true, false)), (String ((Ascii (true,
                         false, false, false, false, true, true, false)),
                         (String ((Ascii (false, true, false, false, true,
                         true, true, false)), (String ((Ascii (true, false,
                         false, false, false, true, true, false)), (String
                         ((Ascii (true, true, false, false, false, true,
                         true, false)), (String ((Ascii (false, false, true,
                         false, true, true, true, false)), (String ((Ascii
                         (true, false, true, false, false, true, true,
                         false)), (String ((Ascii (false, true, false, false,
                         true, true, true, false)), (String ((Ascii (true,
                         false, true, true, false, true, false, false)),
                         (String ((Ascii (true, true, true, true, false,
                         true, true, false)), (String ((Ascii (false, true,
                         true, true, false, true, true, false)), (String
                         ((Ascii (false, false, true, true, false, true,
                         true, false)), (String ((Ascii (true, false, false,
                         true, true, true, true, false)), (String ((Ascii
                         (false, false, false, false, false, true, false,
                         false)), (String ((Ascii (true, false, true, false,
                         false, true, true, false)), (String ((Ascii (false,
                         false, true, true, false, true, true, false)),
                         (String ((Ascii (true, false, true, false, false,
                         true, true, false)), (String ((Ascii (true, false,
                         true, true, false, true, true, false)), (String
                         ((Ascii (true, false, true, false, false, true,
                         true, false)), (String ((Ascii (false, true, true,
                         true, false, true, true, false)), (String ((Ascii
                         (false, false, true, false, true, true, true,
                         false)),
                         EmptyString))))))))))))))))))))))))))))))))))))))))))))))))))))))))))))))))))))))))))))))))))))))))))))))))))))))))))))))))))))))))))))))))))
                  else ret ()))

(** val check_multiplicity :
    bool -> tables -> n -> etype -> n list -> (etree, cdata) sum list -> unit
    m **)

let check_multiplicity strict t name ty idx content =
  mbind (lift (get_sub_element_container_mode t ty idx)) (fun mode ->
    if (||) (N.eqb mode mSequence) (N.eqb mode mChoice)
    then mbind (lift (get_sub_element_multiplicity t ty idx)) (fun m0 ->
           match m0 with
           | Some mult ->
             if (&&) (negb (N.eqb mult (Npos (XO XH))))
                  (existsb (fun c ->
                    match c with
                    | Inl e -> N.eqb (e_name e) name
                    | Inr _ -> false) content)
             then mbind get (fun st ->
                    optional_error strict TooManySubElements st.p_cur name)
             else ret ()
           | None -> ret ())
    else ret ())

(** val first_string : etree -> n list option **)

let first_string e =
  match e_content e with
  | [] -> None
  | s0 :: _ ->
    (match s0 with
     | Inl _ -> None
     | Inr c -> (match c with
                 | DString s -> Some s
                 | _ -> None))

(** val pe_loop :
    bool -> tables -> nametab -> nametab -> nametab -> (n -> n list -> bool
    res) -> (n list -> n option) -> (n -> etype -> (n * cdata) list -> n list
    option -> n list -> nat list -> etree m) -> nat -> n -> etype ->
    (n * cdata) list -> n list option -> nat list -> (etree, cdata) sum list
    -> n list -> bool -> n list option -> n list -> etree m **)

let rec pe_loop strict t tab_el tab_at tab_en check_fn float_parse rec0 lfuel name ty attrs comment pos content elem_idx short_name_found stored_comment path =
  match lfuel with
  | O -> mfuel
  | S lf ->
    let loop =
      pe_loop strict t tab_el tab_at tab_en check_fn float_parse rec0 lf name
        ty attrs comment pos
    in
    mbind (modify (fun st -> set_cur st name)) (fun _ ->
      mbind pnext (fun ev ->
        match ev with
        | EvHeader _ ->
          mbind (optional_error strict UnexpectedXmlFileHeader name N0)
            (fun _ ->
            loop content elem_idx short_name_found stored_comment path)
        | EvBegin (elem_text, attr_text) ->
          mbind (lift (name_of tab_el elem_text)) (fun nm ->
            match nm with
            | Some sub_name ->
              mbind (find_element_in_spec_checked strict t sub_name ty)
                (fun x ->
                let (sub_ty, idx) = x in
                mbind
                  (check_element_conflict strict t sub_name ty elem_idx idx)
                  (fun _ ->
                  mbind
                    (match content with
                     | [] -> ret ()
                     | _ :: _ ->
                       check_multiplicity strict t sub_name ty idx content)
                    (fun _ ->
                    mbind
                      (parse_attribute_text strict t tab_at tab_en check_fn
                        float_parse sub_ty attr_text) (fun sub_attrs ->
                      mbind
                        (rec0 sub_name sub_ty sub_attrs stored_comment path
                          ((length content) :: pos)) (fun sub0 ->
                        if N.eqb sub_name t.name_short_name
                        then (match first_string sub0 with
                              | Some name_string ->
                                let new_path =
                                  app path
                                    (app ((Npos (XI (XI (XI (XI (XO
                                      XH)))))) :: []) name_string)
                                in
                                mbind
                                  (modify (fun st ->
                                    add_ident st (new_path, (rev pos))))
                                  (fun _ ->
                                  loop (app content ((Inl sub0) :: [])) idx
                                    true None new_path)
                              | None ->
                                loop (app content ((Inl sub0) :: [])) idx
                                  true None path)
                        else loop (app content ((Inl sub0) :: [])) idx
                               short_name_found None path)))))
            | None -> hard InvalidBeginElement name N0)
        | EvEnd elem_text ->
          mbind (lift (name_of tab_el elem_text)) (fun nm ->
            match nm with
            | Some n0 ->
              if N.eqb n0 name
              then mbind get (fun st ->
                     mbind (lift (is_named_in_version t ty st.p_version))
                       (fun named ->
                       mbind
                         (if (&&) (negb short_name_found) named
                          then optional_error strict
                                 RequiredSubelementMissing name
                                 t.name_short_name
                          else ret ()) (fun _ ->
                         ret (ENode (name, ty, attrs, content, comment)))))
              else hard IncorrectEndElement name n0
            | None -> hard InvalidEndElement name N0)
        | EvChars text ->
          mbind (lift (chardata_spec t ty)) (fun spec ->
            match spec with
            | Some cs ->
              mbind (lift (content_mode t ty)) (fun mode ->
                if (&&) (N.eqb mode mCharacters)
                     (negb (match content with
                            | [] -> true
                            | _ :: _ -> false))
                then mbind
                       (optional_error strict CharacterContentForbidden name
                         N0) (fun _ ->
                       loop content elem_idx short_name_found stored_comment
                         path)
                else mbind
                       (parse_character_data strict tab_en check_fn
                         float_parse text cs) (fun value ->
                       mbind (lift (is_ref t ty)) (fun isr ->
                         mbind
                           (match value with
                            | DString refpath ->
                              if isr
                              then modify (fun st ->
                                     add_ref st (refpath, (rev pos)))
                              else ret ()
                            | _ -> ret ()) (fun _ ->
                           loop (app content ((Inr value) :: [])) elem_idx
                             short_name_found stored_comment path))))
            | None ->
              mbind (optional_error strict CharacterContentForbidden name N0)
                (fun _ ->
                loop content elem_idx short_name_found stored_comment path))
        | EvComment c ->
          loop content elem_idx short_name_found (Some (utf8_lossy c)) path
        | EvEOF -> hard UnexpectedEndOfFile name N0))

(** val parse_element :
    bool -> tables -> nametab -> nametab -> nametab -> (n -> n list -> bool
    res) -> (n list -> n option) -> nat -> nat -> n -> etype -> (n * cdata)
    list -> n list option -> n list -> nat list -> etree m **)

let rec parse_element strict t tab_el tab_at tab_en check_fn float_parse fuel lfuel name ty attrs comment path pos =
  match fuel with
  | O -> mfuel
  | S fuel' ->
    pe_loop strict t tab_el tab_at tab_en check_fn float_parse
      (parse_element strict t tab_el tab_at tab_en check_fn float_parse fuel'
        lfuel) lfuel name ty attrs comment pos [] [] false None path

(** val verify_end_of_input : bool -> unit m **)

let verify_end_of_input strict st =
  match next st.p_lex with
  | Val a ->
    (match a with
     | LOk (_, ev, l') ->
       (match ev with
        | EvEOF -> Val (Ret ((), (set_lex st l')))
        | _ -> optional_error strict AdditionalDataError N0 N0 (set_lex st l'))
     | LErr (line, e) -> Val (Raise ((ErrLex (line, e)), st)))
  | Pan s -> Pan s
  | Fuel -> Fuel

(** val root_type : tables -> etype m **)

let root_type t =
  lift (et_new t t.autosar_element)

(** val autosar_name : tables -> n m **)

let autosar_name t =
  mbind (lift (elem t t.autosar_element)) (fun e -> ret e.ed_name)

(** val skip_comments :
    nat -> n list option -> event -> (n list option * event) m **)

let rec skip_comments fuel stored tok =
  match fuel with
  | O -> mfuel
  | S f ->
    (match tok with
     | EvComment c ->
       mbind pnext (fun t -> skip_comments f (Some (utf8_lossy c)) t)
     | _ -> ret (stored, tok))

(** val parse_arxml :
    bool -> tables -> nametab -> nametab -> nametab -> (n -> n list -> bool
    res) -> (n list -> n option) -> nat -> etree m **)

let parse_arxml strict t tab_el tab_at tab_en check_fn float_parse buflen =
  mbind pnext (fun ev ->
    match ev with
    | EvHeader sa ->
      mbind (modify (fun st -> set_standalone st sa)) (fun _ ->
        mbind pnext (fun tok ->
          mbind (skip_comments (S buflen) None tok) (fun x ->
            let (stored_comment, token) = x in
            (match token with
             | EvBegin (elemname, attributes_text) ->
               mbind (lift (name_of tab_el elemname)) (fun nm ->
                 mbind (autosar_name t) (fun an ->
                   match nm with
                   | Some n0 ->
                     if N.eqb n0 an
                     then mbind (root_type t) (fun rt ->
                            mbind
                              (parse_attribute_text strict t tab_at tab_en
                                check_fn float_parse rt attributes_text)
                              (fun attributes ->
                              mbind
                                (parse_file_header strict tab_at attributes)
                                (fun _ ->
                                mbind
                                  (parse_element strict t tab_el tab_at
                                    tab_en check_fn float_parse (S buflen) (S
                                    buflen) an rt attributes stored_comment
                                    [] []) (fun root ->
                                  mbind (verify_end_of_input strict)
                                    (fun _ -> ret root)))))
                     else hard InvalidArxmlFileHeader N0 N0
                   | None -> hard InvalidArxmlFileHeader N0 N0))
             | _ -> hard InvalidArxmlFileHeader N0 N0))))
    | _ -> hard InvalidArxmlFileHeader N0 N0)

(** val init_pstate : n list -> n -> n -> pstate **)

let init_pstate buffer v401 an =
  { p_lex = (lexer_new buffer); p_line = (Npos XH); p_version = v401; p_cur =
    an; p_compat = (Npos (XI (XI (XI (XI (XI (XI (XI (XI (XI (XI (XI (XI (XI
    (XI (XI (XI (XI (XI (XI (XI (XI (XI (XI (XI (XI (XI (XI (XI (XI (XI (XI
    XH)))))))))))))))))))))))))))))))); p_warnings = []; p_standalone = None;
    p_idents = []; p_refs = [] }

(** val load :
    bool -> tables -> nametab -> nametab -> nametab -> (n -> n list -> bool
    res) -> (n list -> n option) -> n list -> etree step res **)

let load strict t tab_el tab_at tab_en check_fn float_parse buffer =
  match version_of_ident (String ((Ascii (true, false, false, false, false,
          false, true, false)), (String ((Ascii (true, false, true, false,
          true, true, true, false)), (String ((Ascii (false, false, true,
          false, true, true, true, false)), (String ((Ascii (true, true,
          true, true, false, true, true, false)), (String ((Ascii (true,
          true, false, false, true, true, true, false)), (String ((Ascii
          (true, false, false, false, false, true, true, false)), (String
          ((Ascii (false, true, false, false, true, true, true, false)),
          (String ((Ascii (true, true, true, true, true, false, true,
          false)), (String ((Ascii (false, false, true, false, true, true,
          false, false)), (String ((Ascii (true, true, true, true, true,
          false, true, false)), (String ((Ascii (false, false, false, false,
          true, true, false, false)), (String ((Ascii (true, true, true,
          true, true, false, true, false)), (String ((Ascii (true, false,
          false, false, true, true, false, false)),
          EmptyString)))))))))))))))))))))))))) with
  | Some v401 ->
    (match elem t t.autosar_element with
     | Val e ->
       parse_arxml strict t tab_el tab_at tab_en check_fn float_parse
         (length buffer) (init_pstate buffer v401 e.ed_name)
     | Pan s -> Pan s
     | Fuel ->
       Pan (String ((Ascii (false, true, true, false, true, true, true,
         false)), (String ((Ascii (true, false, true, false, false, true,
         true, false)), (String ((Ascii (false, true, false, false, true,
         true, true, false)), (String ((Ascii (true, true, false, false,
         true, true, true, false)), (String ((Ascii (true, false, false,
         true, false, true, true, false)), (String ((Ascii (true, true, true,
         true, false, true, true, false)), (String ((Ascii (false, true,
         true, true, false, true, true, false)), (String ((Ascii (false,
         false, false, false, false, true, false, false)), (String ((Ascii
         (true, true, false, false, false, true, true, false)), (String
         ((Ascii (true, true, true, true, false, true, true, false)), (String
         ((Ascii (false, true, true, true, false, true, true, false)),
         (String ((Ascii (true, true, false, false, true, true, true,
         false)), (String ((Ascii (false, false, true, false, true, true,
         true, false)), (String ((Ascii (true, false, false, false, false,
         true, true, false)), (String ((Ascii (false, true, true, true,
         false, true, true, false)), (String ((Ascii (false, false, true,
         false, true, true, true, false)), (String ((Ascii (false, false,
         false, false, false, true, false, false)), (String ((Ascii (true,
         false, true, true, false, true, true, false)), (String ((Ascii
         (true, false, false, true, false, true, true, false)), (String
         ((Ascii (true, true, false, false, true, true, true, false)),
         (String ((Ascii (true, true, false, false, true, true, true,
         false)), (String ((Ascii (true, false, false, true, false, true,
         true, false)), (String ((Ascii (false, true, true, true, false,
         true, true, false)), (String ((Ascii (true, true, true, false,
         false, true, true, false)),
         EmptyString)))))))))))))))))))))))))))))))))))))))))))))))))
  | None ->
    (match elem t t.autosar_element with
     | Pan s -> Pan s
     | _ ->
       Pan (String ((Ascii (false, true, true, false, true, true, true,
         false)), (String ((Ascii (true, false, true, false, false, true,
         true, false)), (String ((Ascii (false, true, false, false, true,
         true, true, false)), (String ((Ascii (true, true, false, false,
         true, true, true, false)), (String ((Ascii (true, false, false,
         true, false, true, true, false)), (String ((Ascii (true, true, true,
         true, false, true, true, false)), (String ((Ascii (false, true,
         true, true, false, true, true, false)), (String ((Ascii (false,
         false, false, false, false, true, false, false)), (String ((Ascii
         (true, true, false, false, false, true, true, false)), (String
         ((Ascii (true, true, true, true, false, true, true, false)), (String
         ((Ascii (false, true, true, true, false, true, true, false)),
         (String ((Ascii (true, true, false, false, true, true, true,
         false)), (String ((Ascii (false, false, true, false, true, true,
         true, false)), (String ((Ascii (true, false, false, false, false,
         true, true, false)), (String ((Ascii (false, true, true, true,
         false, true, true, false)), (String ((Ascii (false, false, true,
         false, true, true, true, false)), (String ((Ascii (false, false,
         false, false, false, true, false, false)), (String ((Ascii (true,
         false, true, true, false, true, true, false)), (String ((Ascii
         (true, false, false, true, false, true, true, false)), (String
         ((Ascii (true, true, false, false, true, true, true, false)),
         (String ((Ascii (true, true, false, false, true, true, true,
         false)), (String ((Ascii (true, false, false, true, false, true,
         true, false)), (String ((Ascii (false, true, true, true, false,
         true, true, false)), (String ((Ascii (true, true, true, false,
         false, true, true, false)),
         EmptyString)))))))))))))))))))))))))))))))))))))))))))))))))

(** val check_arxml_header :
    bool -> tables -> nametab -> nametab -> nametab -> (n -> n list -> bool
    res) -> (n list -> n option) -> n list -> bool res **)

let check_arxml_header strict t tab_el tab_at tab_en check_fn float_parse buffer =
  match version_of_ident (String ((Ascii (true, false, false, false, false,
          false, true, false)), (String ((Ascii (true, false, true, false,
          true, true, true, false)), (String ((Ascii (false, false, true,
          false, true, true, true, false)), (String ((Ascii (true, true,
          true, true, false, true, true, false)), (String ((Ascii (true,
          true, false, false, true, true, true, false)), (String ((Ascii
          (true, false, false, false, false, true, true, false)), (String
          ((Ascii (false, true, false, false, true, true, true, false)),
          (String ((Ascii (true, true, true, true, true, false, true,
          false)), (String ((Ascii (false, false, true, false, true, true,
          false, false)), (String ((Ascii (true, true, true, true, true,
          false, true, false)), (String ((Ascii (false, false, false, false,
          true, true, false, false)), (String ((Ascii (true, true, true,
          true, true, false, true, false)), (String ((Ascii (true, false,
          false, false, true, true, false, false)),
          EmptyString)))))))))))))))))))))))))) with
  | Some v401 ->
    (match elem t t.autosar_element with
     | Val e ->
       let m0 =
         mbind pnext (fun ev ->
           match ev with
           | EvHeader _ ->
             mbind pnext (fun tok ->
               mbind (skip_comments (S (length buffer)) None tok) (fun x ->
                 let (_, token) = x in
                 (match token with
                  | EvBegin (elemname, attributes_text) ->
                    mbind (lift (name_of tab_el elemname)) (fun nm ->
                      match nm with
                      | Some n0 ->
                        if N.eqb n0 e.ed_name
                        then mbind (root_type t) (fun rt ->
                               mbind
                                 (parse_attribute_text strict t tab_at tab_en
                                   check_fn float_parse rt attributes_text)
                                 (fun attributes ->
                                 mbind
                                   (parse_file_header strict tab_at
                                     attributes) (fun _ -> ret true)))
                        else ret false
                      | None -> ret false)
                  | _ -> ret false)))
           | _ -> ret false)
       in
       (match m0 (init_pstate buffer v401 e.ed_name) with
        | Val a ->
          (match a with
           | Ret (b, _) -> Val b
           | Raise (_, _) -> Val false)
        | Pan s -> Pan s
        | Fuel -> Fuel)
     | Pan s -> Pan s
     | Fuel ->
       Pan (String ((Ascii (false, true, true, false, true, true, true,
         false)), (String ((Ascii (true, false, true, false, false, true,
         true, false)), (String ((Ascii (false, true, false, false, true,
         true, true, false)), (String ((Ascii (true, true, false, false,
         true, true, true, false)), (String ((Ascii (true, false, false,
         true, false, true, true, false)), (String ((Ascii (true, true, true,
         true, false, true, true, false)), (String ((Ascii (false, true,
         true, true, false, true, true, false)), (String ((Ascii (false,
         false, false, false, false, true, false, false)), (String ((Ascii
         (true, true, false, false, false, true, true, false)), (String
         ((Ascii (true, true, true, true, false, true, true, false)), (String
         ((Ascii (false, true, true, true, false, true, true, false)),
         (String ((Ascii (true, true, false, false, true, true, true,
         false)), (String ((Ascii (false, false, true, false, true, true,
         true, false)), (String ((Ascii (true, false, false, false, false,
         true, true, false)), (String ((Ascii (false, true, true, true,
         false, true, true, false)), (String ((Ascii (false, false, true,
         false, true, true, true, false)), (String ((Ascii (false, false,
         false, false, false, true, false, false)), (String ((Ascii (true,
         false, true, true, false, true, true, false)), (String ((Ascii
         (true, false, false, true, false, true, true, false)), (String
         ((Ascii (true, true, false, false, true, true, true, false)),
         (String ((Ascii (true, true, false, false, true, true, true,
         false)), (String ((Ascii (true, false, false, true, false, true,
         true, false)), (String ((Ascii (false, true, true, true, false,
         true, true, false)), (String ((Ascii (true, true, true, false,
         false, true, true, false)),
         EmptyString)))))))))))))))))))))))))))))))))))))))))))))))))
  | None ->
    (match elem t t.autosar_element with
     | Pan s -> Pan s
     | _ ->
       Pan (String ((Ascii (false, true, true, false, true, true, true,
         false)), (String ((Ascii (true, false, true, false, false, true,
         true, false)), (String ((Ascii (false, true, false, false, true,
         true, true, false)), (String ((Ascii (true, true, false, false,
         true, true, true, false)), (String ((Ascii (true, false, false,
         true, false, true, true, false)), (String ((Ascii (true, true, true,
         true, false, true, true, false)), (String ((Ascii (false, true,
         true, true, false, true, true, false)), (String ((Ascii (false,
         false, false, false, false, true, false, false)), (String ((Ascii
         (true, true, false, false, false, true, true, false)), (String
         ((Ascii (true, true, true, true, false, true, true, false)), (String
         ((Ascii (false, true, true, true, false, true, true, false)),
         (String ((Ascii (true, true, false, false, true, true, true,
         false)), (String ((Ascii (false, false, true, false, true, true,
         true, false)), (String ((Ascii (true, false, false, false, false,
         true, true, false)), (String ((Ascii (false, true, true, true,
         false, true, true, false)), (String ((Ascii (false, false, true,
         false, true, true, true, false)), (String ((Ascii (false, false,
         false, false, false, true, false, false)), (String ((Ascii (true,
         false, true, true, false, true, true, false)), (String ((Ascii
         (true, false, false, true, false, true, true, false)), (String
         ((Ascii (true, true, false, false, true, true, true, false)),
         (String ((Ascii (true, true, false, false, true, true, true,
         false)), (String ((Ascii (true, false, false, true, false, true,
         true, false)), (String ((Ascii (false, true, true, true, false,
         true, true, false)), (String ((Ascii (true, true, true, false,
         false, true, true, false)),
         EmptyString)))))))))))))))))))))))))))))))))))))))))))))))))

(** val escape_byte : n -> n list **)

let escape_byte c =
  if N.eqb c (Npos (XO (XO (XI (XI (XI XH))))))
  then bS (String ((Ascii (false, true, true, false, false, true, false,
         false)), (String ((Ascii (false, false, true, true, false, true,
         true, false)), (String ((Ascii (false, false, true, false, true,
         true, true, false)), (String ((Ascii (true, true, false, true, true,
         true, false, false)), EmptyString))))))))
  else if N.eqb c (Npos (XO (XI (XI (XI (XI XH))))))
       then bS (String ((Ascii (false, true, true, false, false, true, false,
              false)), (String ((Ascii (true, true, true, false, false, true,
              true, false)), (String ((Ascii (false, false, true, false,
              true, true, true, false)), (String ((Ascii (true, true, false,
              true, true, true, false, false)), EmptyString))))))))
       else if N.eqb c (Npos (XO (XI (XI (XO (XO XH))))))
            then bS (String ((Ascii (false, true, true, false, false, true,
                   false, false)), (String ((Ascii (true, false, false,
                   false, false, true, true, false)), (String ((Ascii (true,
                   false, true, true, false, true, true, false)), (String
                   ((Ascii (false, false, false, false, true, true, true,
                   false)), (String ((Ascii (true, true, false, true, true,
                   true, false, false)), EmptyString))))))))))
            else if N.eqb c (Npos (XO (XI (XO (XO (XO XH))))))
                 then bS (String ((Ascii (false, true, true, false, false,
                        true, false, false)), (String ((Ascii (true, false,
                        false, false, true, true, true, false)), (String
                        ((Ascii (true, false, true, false, true, true, true,
                        false)), (String ((Ascii (true, true, true, true,
                        false, true, true, false)), (String ((Ascii (false,
                        false, true, false, true, true, true, false)),
                        (String ((Ascii (true, true, false, true, true, true,
                        false, false)), EmptyString))))))))))))
                 else if N.eqb c (Npos (XI (XI (XI (XO (XO XH))))))
                      then bS (String ((Ascii (false, true, true, false,
                             false, true, false, false)), (String ((Ascii
                             (true, false, false, false, false, true, true,
                             false)), (String ((Ascii (false, false, false,
                             false, true, true, true, false)), (String
                             ((Ascii (true, true, true, true, false, true,
                             true, false)), (String ((Ascii (true, true,
                             false, false, true, true, true, false)), (String
                             ((Ascii (true, true, false, true, true, true,
                             false, false)), EmptyString))))))))))))
                      else c :: []

(** val escape_text : n list -> n list **)

let escape_text s =
  flat_map escape_byte s

(** val dec_digits : nat -> n -> n list -> n list **)

let rec dec_digits fuel n0 acc =
  match fuel with
  | O -> acc
  | S f ->
    let acc' =
      (N.add (Npos (XO (XO (XO (XO (XI XH))))))
        (N.modulo n0 (Npos (XO (XI (XO XH)))))) :: acc
    in
    if N.eqb (N.div n0 (Npos (XO (XI (XO XH))))) N0
    then acc'
    else dec_digits f (N.div n0 (Npos (XO (XI (XO XH))))) acc'

(** val dec_of_N : n -> n list **)

let dec_of_N n0 =
  dec_digits (S (N.size_nat n0)) n0 []

(** val newline_indent : nat -> n list **)

let newline_indent indent =
  (Npos (XO (XI (XO
    XH)))) :: (concat
                (repeat ((Npos (XO (XO (XO (XO (XO XH)))))) :: ((Npos (XO (XO
                  (XO (XO (XO XH)))))) :: [])) indent))

(** val ser_cdata : nametab -> (n -> n list) -> cdata -> n list res **)

let ser_cdata tab_en float_fmt = function
| DEnum item ->
  unwrap (String ((Ascii (true, false, true, false, false, false, true,
    false)), (String ((Ascii (false, true, true, true, false, true, true,
    false)), (String ((Ascii (true, false, true, false, true, true, true,
    false)), (String ((Ascii (true, false, true, true, false, true, true,
    false)), (String ((Ascii (true, false, false, true, false, false, true,
    false)), (String ((Ascii (false, false, true, false, true, true, true,
    false)), (String ((Ascii (true, false, true, false, false, true, true,
    false)), (String ((Ascii (true, false, true, true, false, true, true,
    false)), (String ((Ascii (false, true, false, true, true, true, false,
    false)), (String ((Ascii (false, true, false, true, true, true, false,
    false)), (String ((Ascii (false, false, true, false, true, true, true,
    false)), (String ((Ascii (true, true, true, true, false, true, true,
    false)), (String ((Ascii (true, true, true, true, true, false, true,
    false)), (String ((Ascii (true, true, false, false, true, true, true,
    false)), (String ((Ascii (false, false, true, false, true, true, true,
    false)), (String ((Ascii (false, true, false, false, true, true, true,
    false)), (String ((Ascii (false, true, false, true, true, true, false,
    false)), (String ((Ascii (false, false, false, false, false, true, false,
    false)), (String ((Ascii (true, true, false, false, true, false, true,
    false)), (String ((Ascii (false, false, true, false, true, false, true,
    false)), (String ((Ascii (false, true, false, false, true, false, true,
    false)), (String ((Ascii (true, false, false, true, false, false, true,
    false)), (String ((Ascii (false, true, true, true, false, false, true,
    false)), (String ((Ascii (true, true, true, false, false, false, true,
    false)), (String ((Ascii (true, true, true, true, true, false, true,
    false)), (String ((Ascii (false, false, true, false, true, false, true,
    false)), (String ((Ascii (true, false, false, false, false, false, true,
    false)), (String ((Ascii (false, true, false, false, false, false, true,
    false)), (String ((Ascii (false, false, true, true, false, false, true,
    false)), (String ((Ascii (true, false, true, false, false, false, true,
    false)), (String ((Ascii (false, false, false, false, false, true, false,
    false)), (String ((Ascii (true, false, false, true, false, true, true,
    false)), (String ((Ascii (false, true, true, true, false, true, true,
    false)), (String ((Ascii (false, false, true, false, false, true, true,
    false)), (String ((Ascii (true, false, true, false, false, true, true,
    false)), (String ((Ascii (false, false, false, true, true, true, true,
    false)),
    EmptyString))))))))))))))))))))))))))))))))))))))))))))))))))))))))))))))))))))))))
    (to_str tab_en item)
| DString s -> Val (escape_text s)
| DUInt n0 -> Val (dec_of_N n0)
| DFloat bits -> Val (float_fmt bits)

(** val ser_attrs :
    nametab -> nametab -> (n -> n list) -> (n * cdata) list -> n list res **)

let rec ser_attrs tab_at tab_en float_fmt = function
| [] -> Val []
| p :: rest ->
  let (name, v) = p in
  bind
    (unwrap (String ((Ascii (true, false, false, false, false, false, true,
      false)), (String ((Ascii (false, false, true, false, true, true, true,
      false)), (String ((Ascii (false, false, true, false, true, true, true,
      false)), (String ((Ascii (false, true, false, false, true, true, true,
      false)), (String ((Ascii (true, false, false, true, false, true, true,
      false)), (String ((Ascii (false, true, false, false, false, true, true,
      false)), (String ((Ascii (true, false, true, false, true, true, true,
      false)), (String ((Ascii (false, false, true, false, true, true, true,
      false)), (String ((Ascii (true, false, true, false, false, true, true,
      false)), (String ((Ascii (false, true, true, true, false, false, true,
      false)), (String ((Ascii (true, false, false, false, false, true, true,
      false)), (String ((Ascii (true, false, true, true, false, true, true,
      false)), (String ((Ascii (true, false, true, false, false, true, true,
      false)), (String ((Ascii (false, true, false, true, true, true, false,
      false)), (String ((Ascii (false, true, false, true, true, true, false,
      false)), (String ((Ascii (false, false, true, false, true, true, true,
      false)), (String ((Ascii (true, true, true, true, false, true, true,
      false)), (String ((Ascii (true, true, true, true, true, false, true,
      false)), (String ((Ascii (true, true, false, false, true, true, true,
      false)), (String ((Ascii (false, false, true, false, true, true, true,
      false)), (String ((Ascii (false, true, false, false, true, true, true,
      false)), (String ((Ascii (false, true, false, true, true, true, false,
      false)), (String ((Ascii (false, false, false, false, false, true,
      false, false)), (String ((Ascii (true, true, false, false, true, false,
      true, false)), (String ((Ascii (false, false, true, false, true, false,
      true, false)), (String ((Ascii (false, true, false, false, true, false,
      true, false)), (String ((Ascii (true, false, false, true, false, false,
      true, false)), (String ((Ascii (false, true, true, true, false, false,
      true, false)), (String ((Ascii (true, true, true, false, false, false,
      true, false)), (String ((Ascii (true, true, true, true, true, false,
      true, false)), (String ((Ascii (false, false, true, false, true, false,
      true, false)), (String ((Ascii (true, false, false, false, false,
      false, true, false)), (String ((Ascii (false, true, false, false,
      false, false, true, false)), (String ((Ascii (false, false, true, true,
      false, false, true, false)), (String ((Ascii (true, false, true, false,
      false, false, true, false)), (String ((Ascii (false, false, false,
      false, false, true, false, false)), (String ((Ascii (true, false,
      false, true, false, true, true, false)), (String ((Ascii (false, true,
      true, true, false, true, true, false)), (String ((Ascii (false, false,
      true, false, false, true, true, false)), (String ((Ascii (true, false,
      true, false, false, true, true, false)), (String ((Ascii (false, false,
      false, true, true, true, true, false)),
      EmptyString))))))))))))))))))))))))))))))))))))))))))))))))))))))))))))))))))))))))))))))))))
      (to_str tab_at name)) (fun nm ->
    bind (ser_cdata tab_en float_fmt v) (fun vs ->
      bind (ser_attrs tab_at tab_en float_fmt rest) (fun r -> Val
        (app ((Npos (XO (XO (XO (XO (XO XH)))))) :: [])
          (app nm
            (app
              (bS (String ((Ascii (true, false, true, true, true, true,
                false, false)), (String ((Ascii (false, true, false, false,
                false, true, false, false)), EmptyString)))))
              (app vs (app ((Npos (XO (XI (XO (XO (XO XH)))))) :: []) r))))))))

(** val comment_part : n list option -> nat -> bool -> n list **)

let comment_part comment indent inline =
  match comment with
  | Some c ->
    app (if inline then [] else newline_indent indent)
      (app
        (bS (String ((Ascii (false, false, true, true, true, true, false,
          false)), (String ((Ascii (true, false, false, false, false, true,
          false, false)), (String ((Ascii (true, false, true, true, false,
          true, false, false)), (String ((Ascii (true, false, true, true,
          false, true, false, false)), EmptyString)))))))))
        (app c
          (bS (String ((Ascii (true, false, true, true, false, true, false,
            false)), (String ((Ascii (true, false, true, true, false, true,
            false, false)), (String ((Ascii (false, true, true, true, true,
            true, false, false)), EmptyString)))))))))
  | None -> []

(** val ser_elem :
    tables -> nametab -> nametab -> nametab -> (n -> n list) -> etree -> nat
    -> bool -> n list res **)

let rec ser_elem t tab_el tab_at tab_en float_fmt e indent inline =
  let ENode (name, ty, attrs, content, comment) = e in
  bind
    (unwrap (String ((Ascii (true, false, true, false, false, false, true,
      false)), (String ((Ascii (false, false, true, true, false, true, true,
      false)), (String ((Ascii (true, false, true, false, false, true, true,
      false)), (String ((Ascii (true, false, true, true, false, true, true,
      false)), (String ((Ascii (true, false, true, false, false, true, true,
      false)), (String ((Ascii (false, true, true, true, false, true, true,
      false)), (String ((Ascii (false, false, true, false, true, true, true,
      false)), (String ((Ascii (false, true, true, true, false, false, true,
      false)), (String ((Ascii (true, false, false, false, false, true, true,
      false)), (String ((Ascii (true, false, true, true, false, true, true,
      false)), (String ((Ascii (true, false, true, false, false, true, true,
      false)), (String ((Ascii (false, true, false, true, true, true, false,
      false)), (String ((Ascii (false, true, false, true, true, true, false,
      false)), (String ((Ascii (false, false, true, false, true, true, true,
      false)), (String ((Ascii (true, true, true, true, false, true, true,
      false)), (String ((Ascii (true, true, true, true, true, false, true,
      false)), (String ((Ascii (true, true, false, false, true, true, true,
      false)), (String ((Ascii (false, false, true, false, true, true, true,
      false)), (String ((Ascii (false, true, false, false, true, true, true,
      false)), (String ((Ascii (false, true, false, true, true, true, false,
      false)), (String ((Ascii (false, false, false, false, false, true,
      false, false)), (String ((Ascii (true, true, false, false, true, false,
      true, false)), (String ((Ascii (false, false, true, false, true, false,
      true, false)), (String ((Ascii (false, true, false, false, true, false,
      true, false)), (String ((Ascii (true, false, false, true, false, false,
      true, false)), (String ((Ascii (false, true, true, true, false, false,
      true, false)), (String ((Ascii (true, true, true, false, false, false,
      true, false)), (String ((Ascii (true, true, true, true, true, false,
      true, false)), (String ((Ascii (false, false, true, false, true, false,
      true, false)), (String ((Ascii (true, false, false, false, false,
      false, true, false)), (String ((Ascii (false, true, false, false,
      false, false, true, false)), (String ((Ascii (false, false, true, true,
      false, false, true, false)), (String ((Ascii (true, false, true, false,
      false, false, true, false)), (String ((Ascii (false, false, false,
      false, false, true, false, false)), (String ((Ascii (true, false,
      false, true, false, true, true, false)), (String ((Ascii (false, true,
      true, true, false, true, true, false)), (String ((Ascii (false, false,
      true, false, false, true, true, false)), (String ((Ascii (true, false,
      true, false, false, true, true, false)), (String ((Ascii (false, false,
      false, true, true, true, true, false)),
      EmptyString))))))))))))))))))))))))))))))))))))))))))))))))))))))))))))))))))))))))))))))
      (to_str tab_el name)) (fun nm ->
    bind (ser_attrs tab_at tab_en float_fmt attrs) (fun ats ->
      let pre =
        app (comment_part comment indent inline)
          (if inline then [] else newline_indent indent)
      in
      (match content with
       | [] ->
         Val
           (app pre
             (app ((Npos (XO (XO (XI (XI (XI XH)))))) :: [])
               (app nm
                 (app ats ((Npos (XI (XI (XI (XI (XO XH)))))) :: ((Npos (XO
                   (XI (XI (XI (XI XH)))))) :: []))))))
       | first :: _ ->
         bind (content_mode t ty) (fun mode ->
           let open_tag =
             app ((Npos (XO (XO (XI (XI (XI XH)))))) :: [])
               (app nm (app ats ((Npos (XO (XI (XI (XI (XI XH)))))) :: [])))
           in
           let close_tag =
             app ((Npos (XO (XO (XI (XI (XI XH)))))) :: ((Npos (XI (XI (XI
               (XI (XO XH)))))) :: []))
               (app nm ((Npos (XO (XI (XI (XI (XI XH)))))) :: []))
           in
           if N.eqb mode mCharacters
           then bind
                  (match first with
                   | Inl _ -> Val []
                   | Inr cd -> ser_cdata tab_en float_fmt cd) (fun body ->
                  Val (app pre (app open_tag (app body close_tag))))
           else if N.eqb mode mMixed
                then bind
                       (let rec items = function
                        | [] -> Val []
                        | s :: l' ->
                          (match s with
                           | Inl sub0 ->
                             bind
                               (ser_elem t tab_el tab_at tab_en float_fmt
                                 sub0 (S indent) true) (fun a ->
                               bind (items l') (fun b -> Val (app a b)))
                           | Inr cd ->
                             bind (ser_cdata tab_en float_fmt cd) (fun a ->
                               bind (items l') (fun b -> Val (app a b))))
                        in items content) (fun body -> Val
                       (app pre (app open_tag (app body close_tag))))
                else bind
                       (let rec subs = function
                        | [] -> Val []
                        | s :: l' ->
                          (match s with
                           | Inl sub0 ->
                             bind
                               (ser_elem t tab_el tab_at tab_en float_fmt
                                 sub0 (S indent) false) (fun a ->
                               bind (subs l') (fun b -> Val (app a b)))
                           | Inr _ -> subs l')
                        in subs content) (fun body -> Val
                       (app pre
                         (app open_tag
                           (app body (app (newline_indent indent) close_tag)))))))))

(** val xml_header : bool option -> n list **)

let xml_header = function
| Some b ->
  if b
  then bS (String ((Ascii (false, false, true, true, true, true, false,
         false)), (String ((Ascii (true, true, true, true, true, true, false,
         false)), (String ((Ascii (false, false, false, true, true, true,
         true, false)), (String ((Ascii (true, false, true, true, false,
         true, true, false)), (String ((Ascii (false, false, true, true,
         false, true, true, false)), (String ((Ascii (false, false, false,
         false, false, true, false, false)), (String ((Ascii (false, true,
         true, false, true, true, true, false)), (String ((Ascii (true,
         false, true, false, false, true, true, false)), (String ((Ascii
         (false, true, false, false, true, true, true, false)), (String
         ((Ascii (true, true, false, false, true, true, true, false)),
         (String ((Ascii (true, false, false, true, false, true, true,
         false)), (String ((Ascii (true, true, true, true, false, true, true,
         false)), (String ((Ascii (false, true, true, true, false, true,
         true, false)), (String ((Ascii (true, false, true, true, true, true,
         false, false)), (String ((Ascii (false, true, false, false, false,
         true, false, false)), (String ((Ascii (true, false, false, false,
         true, true, false, false)), (String ((Ascii (false, true, true,
         true, false, true, false, false)), (String ((Ascii (false, false,
         false, false, true, true, false, false)), (String ((Ascii (false,
         true, false, false, false, true, false, false)), (String ((Ascii
         (false, false, false, false, false, true, false, false)), (String
         ((Ascii (true, false, true, false, false, true, true, false)),
         (String ((Ascii (false, true, true, true, false, true, true,
         false)), (String ((Ascii (true, true, false, false, false, true,
         true, false)), (String ((Ascii (true, true, true, true, false, true,
         true, false)), (String ((Ascii (false, false, true, false, false,
         true, true, false)), (String ((Ascii (true, false, false, true,
         false, true, true, false)), (String ((Ascii (false, true, true,
         true, false, true, true, false)), (String ((Ascii (true, true, true,
         false, false, true, true, false)), (String ((Ascii (true, false,
         true, true, true, true, false, false)), (String ((Ascii (false,
         true, false, false, false, true, false, false)), (String ((Ascii
         (true, false, true, false, true, true, true, false)), (String
         ((Ascii (false, false, true, false, true, true, true, false)),
         (String ((Ascii (false, true, true, false, false, true, true,
         false)), (String ((Ascii (true, false, true, true, false, true,
         false, false)), (String ((Ascii (false, false, false, true, true,
         true, false, false)), (String ((Ascii (false, true, false, false,
         false, true, false, false)), (String ((Ascii (false, false, false,
         false, false, true, false, false)), (String ((Ascii (true, true,
         false, false, true, true, true, false)), (String ((Ascii (false,
         false, true, false, true, true, true, false)), (String ((Ascii
         (true, false, false, false, false, true, true, false)), (String
         ((Ascii (false, true, true, true, false, true, true, false)),
         (String ((Ascii (false, false, true, false, false, true, true,
         false)), (String ((Ascii (true, false, false, false, false, true,
         true, false)), (String ((Ascii (false, false, true, true, false,
         true, true, false)), (String ((Ascii (true, true, true, true, false,
         true, true, false)), (String ((Ascii (false, true, true, true,
         false, true, true, false)), (String ((Ascii (true, false, true,
         false, false, true, true, false)), (String ((Ascii (true, false,
         true, true, true, true, false, false)), (String ((Ascii (false,
         true, false, false, false, true, false, false)), (String ((Ascii
         (true, false, false, true, true, true, true, false)), (String
         ((Ascii (true, false, true, false, false, true, true, false)),
         (String ((Ascii (true, true, false, false, true, true, true,
         false)), (String ((Ascii (false, true, false, false, false, true,
         false, false)), (String ((Ascii (true, true, true, true, true, true,
         false, false)), (String ((Ascii (false, true, true, true, true,
         true, false, false)),
         EmptyString))))))))))))))))))))))))))))))))))))))))))))))))))))))))))))))))))))))))))))))))))))))))))))))))))))))))))))))
  else bS (String ((Ascii (false, false, true, true, true, true, false,
         false)), (String ((Ascii (true, true, true, true, true, true, false,
         false)), (String ((Ascii (false, false, false, true, true, true,
         true, false)), (String ((Ascii (true, false, true, true, false,
         true, true, false)), (String ((Ascii (false, false, true, true,
         false, true, true, false)), (String ((Ascii (false, false, false,
         false, false, true, false, false)), (String ((Ascii (false, true,
         true, false, true, true, true, false)), (String ((Ascii (true,
         false, true, false, false, true, true, false)), (String ((Ascii
         (false, true, false, false, true, true, true, false)), (String
         ((Ascii (true, true, false, false, true, true, true, false)),
         (String ((Ascii (true, false, false, true, false, true, true,
         false)), (String ((Ascii (true, true, true, true, false, true, true,
         false)), (String ((Ascii (false, true, true, true, false, true,
         true, false)), (String ((Ascii (true, false, true, true, true, true,
         false, false)), (String ((Ascii (false, true, false, false, false,
         true, false, false)), (String ((Ascii (true, false, false, false,
         true, true, false, false)), (String ((Ascii (false, true, true,
         true, false, true, false, false)), (String ((Ascii (false, false,
         false, false, true, true, false, false)), (String ((Ascii (false,
         true, false, false, false, true, false, false)), (String ((Ascii
         (false, false, false, false, false, true, false, false)), (String
         ((Ascii (true, false, true, false, false, true, true, false)),
         (String ((Ascii (false, true, true, true, false, true, true,
         false)), (String ((Ascii (true, true, false, false, false, true,
         true, false)), (String ((Ascii (true, true, true, true, false, true,
         true, false)), (String ((Ascii (false, false, true, false, false,
         true, true, false)), (String ((Ascii (true, false, false, true,
         false, true, true, false)), (String ((Ascii (false, true, true,
         true, false, true, true, false)), (String ((Ascii (true, true, true,
         false, false, true, true, false)), (String ((Ascii (true, false,
         true, true, true, true, false, false)), (String ((Ascii (false,
         true, false, false, false, true, false, false)), (String ((Ascii
         (true, false, true, false, true, true, true, false)), (String
         ((Ascii (false, false, true, false, true, true, true, false)),
         (String ((Ascii (false, true, true, false, false, true, true,
         false)), (String ((Ascii (true, false, true, true, false, true,
         false, false)), (String ((Ascii (false, false, false, true, true,
         true, false, false)), (String ((Ascii (false, true, false, false,
         false, true, false, false)), (String ((Ascii (false, false, false,
         false, false, true, false, false)), (String ((Ascii (true, true,
         false, false, true, true, true, false)), (String ((Ascii (false,
         false, true, false, true, true, true, false)), (String ((Ascii
         (true, false, false, false, false, true, true, false)), (String
         ((Ascii (false, true, true, true, false, true, true, false)),
         (String ((Ascii (false, false, true, false, false, true, true,
         false)), (String ((Ascii (true, false, false, false, false, true,
         true, false)), (String ((Ascii (false, false, true, true, false,
         true, true, false)), (String ((Ascii (true, true, true, true, false,
         true, true, false)), (String ((Ascii (false, true, true, true,
         false, true, true, false)), (String ((Ascii (true, false, true,
         false, false, true, true, false)), (String ((Ascii (true, false,
         true, true, true, true, false, false)), (String ((Ascii (false,
         true, false, false, false, true, false, false)), (String ((Ascii
         (false, true, true, true, false, true, true, false)), (String
         ((Ascii (true, true, true, true, false, true, true, false)), (String
         ((Ascii (false, true, false, false, false, true, false, false)),
         (String ((Ascii (true, true, true, true, true, true, false, false)),
         (String ((Ascii (false, true, true, true, true, true, false,
         false)),
         EmptyString))))))))))))))))))))))))))))))))))))))))))))))))))))))))))))))))))))))))))))))))))))))))))))))))))))))))))))
| None ->
  bS (String ((Ascii (false, false, true, true, true, true, false, false)),
    (String ((Ascii (true, true, true, true, true, true, false, false)),
    (String ((Ascii (false, false, false, true, true, true, true, false)),
    (String ((Ascii (true, false, true, true, false, true, true, false)),
    (String ((Ascii (false, false, true, true, false, true, true, false)),
    (String ((Ascii (false, false, false, false, false, true, false, false)),
    (String ((Ascii (false, true, true, false, true, true, true, false)),
    (String ((Ascii (true, false, true, false, false, true, true, false)),
    (String ((Ascii (false, true, false, false, true, true, true, false)),
    (String ((Ascii (true, true, false, false, true, true, true, false)),
    (String ((Ascii (true, false, false, true, false, true, true, false)),
    (String ((Ascii (true, true, true, true, false, true, true, false)),
    (String ((Ascii (false, true, true, true, false, true, true, false)),
    (String ((Ascii (true, false, true, true, true, true, false, false)),
    (String ((Ascii (false, true, false, false, false, true, false, false)),
    (String ((Ascii (true, false, false, false, true, true, false, false)),
    (String ((Ascii (false, true, true, true, false, true, false, false)),
    (String ((Ascii (false, false, false, false, true, true, false, false)),
    (String ((Ascii (false, true, false, false, false, true, false, false)),
    (String ((Ascii (false, false, false, false, false, true, false, false)),
    (String ((Ascii (true, false, true, false, false, true, true, false)),
    (String ((Ascii (false, true, true, true, false, true, true, false)),
    (String ((Ascii (true, true, false, false, false, true, true, false)),
    (String ((Ascii (true, true, true, true, false, true, true, false)),
    (String ((Ascii (false, false, true, false, false, true, true, false)),
    (String ((Ascii (true, false, false, true, false, true, true, false)),
    (String ((Ascii (false, true, true, true, false, true, true, false)),
    (String ((Ascii (true, true, true, false, false, true, true, false)),
    (String ((Ascii (true, false, true, true, true, true, false, false)),
    (String ((Ascii (false, true, false, false, false, true, false, false)),
    (String ((Ascii (true, false, true, false, true, true, true, false)),
    (String ((Ascii (false, false, true, false, true, true, true, false)),
    (String ((Ascii (false, true, true, false, false, true, true, false)),
    (String ((Ascii (true, false, true, true, false, true, false, false)),
    (String ((Ascii (false, false, false, true, true, true, false, false)),
    (String ((Ascii (false, true, false, false, false, true, false, false)),
    (String ((Ascii (true, true, true, true, true, true, false, false)),
    (String ((Ascii (false, true, true, true, true, true, false, false)),
    EmptyString))))))))))))))))))))))))))))))))))))))))))))))))))))))))))))))))))))))))))))

(** val check_value_string :
    (n -> n list -> bool res) -> cdspec -> n list -> bool res **)

let check_value_string check_fn spec s =
  match spec with
  | CPattern (fn, maxlen) ->
    if opt_len_gt maxlen s then Val false else check_fn fn s
  | CString (_, maxlen) -> Val (negb (opt_len_gt maxlen s))
  | _ -> Val false

(** val set_attr : n -> cdata -> (n * cdata) list -> (n * cdata) list **)

let rec set_attr name v = function
| [] -> (name, v) :: []
| p :: rest ->
  let (n0, old) = p in
  if N.eqb n0 name
  then (n0, v) :: rest
  else (n0, old) :: (set_attr name v rest)

(** val schema_location_value : n -> n list res **)

let schema_location_value version =
  bind
    (unwrap (String ((Ascii (true, false, false, false, false, false, true,
      false)), (String ((Ascii (true, false, true, false, true, true, true,
      false)), (String ((Ascii (false, false, true, false, true, true, true,
      false)), (String ((Ascii (true, true, true, true, false, true, true,
      false)), (String ((Ascii (true, true, false, false, true, true, true,
      false)), (String ((Ascii (true, false, false, false, false, true, true,
      false)), (String ((Ascii (false, true, false, false, true, true, true,
      false)), (String ((Ascii (false, true, true, false, true, false, true,
      false)), (String ((Ascii (true, false, true, false, false, true, true,
      false)), (String ((Ascii (false, true, false, false, true, true, true,
      false)), (String ((Ascii (true, true, false, false, true, true, true,
      false)), (String ((Ascii (true, false, false, true, false, true, true,
      false)), (String ((Ascii (true, true, true, true, false, true, true,
      false)), (String ((Ascii (false, true, true, true, false, true, true,
      false)), (String ((Ascii (false, true, false, true, true, true, false,
      false)), (String ((Ascii (false, true, false, true, true, true, false,
      false)), (String ((Ascii (false, true, true, false, false, true, true,
      false)), (String ((Ascii (true, false, false, true, false, true, true,
      false)), (String ((Ascii (false, false, true, true, false, true, true,
      false)), (String ((Ascii (true, false, true, false, false, true, true,
      false)), (String ((Ascii (false, true, true, true, false, true, true,
      false)), (String ((Ascii (true, false, false, false, false, true, true,
      false)), (String ((Ascii (true, false, true, true, false, true, true,
      false)), (String ((Ascii (true, false, true, false, false, true, true,
      false)), EmptyString))))))))))))))))))))))))))))))))))))))))))))))))
      (filename_of_version version)) (fun fname -> Val
    (app
      (bS (String ((Ascii (false, false, false, true, false, true, true,
        false)), (String ((Ascii (false, false, true, false, true, true,
        true, false)), (String ((Ascii (false, false, true, false, true,
        true, true, false)), (String ((Ascii (false, false, false, false,
        true, true, true, false)), (String ((Ascii (false, true, false, true,
        true, true, false, false)), (String ((Ascii (true, true, true, true,
        false, true, false, false)), (String ((Ascii (true, true, true, true,
        false, true, false, false)), (String ((Ascii (true, false, false,
        false, false, true, true, false)), (String ((Ascii (true, false,
        true, false, true, true, true, false)), (String ((Ascii (false,
        false, true, false, true, true, true, false)), (String ((Ascii (true,
        true, true, true, false, true, true, false)), (String ((Ascii (true,
        true, false, false, true, true, true, false)), (String ((Ascii (true,
        false, false, false, false, true, true, false)), (String ((Ascii
        (false, true, false, false, true, true, true, false)), (String
        ((Ascii (false, true, true, true, false, true, false, false)),
        (String ((Ascii (true, true, true, true, false, true, true, false)),
        (String ((Ascii (false, true, false, false, true, true, true,
        false)), (String ((Ascii (true, true, true, false, false, true, true,
        false)), (String ((Ascii (true, true, true, true, false, true, false,
        false)), (String ((Ascii (true, true, false, false, true, true, true,
        false)), (String ((Ascii (true, true, false, false, false, true,
        true, false)), (String ((Ascii (false, false, false, true, false,
        true, true, false)), (String ((Ascii (true, false, true, false,
        false, true, true, false)), (String ((Ascii (true, false, true, true,
        false, true, true, false)), (String ((Ascii (true, false, false,
        false, false, true, true, false)), (String ((Ascii (true, true, true,
        true, false, true, false, false)), (String ((Ascii (false, true,
        false, false, true, true, true, false)), (String ((Ascii (false,
        false, true, false, true, true, false, false)), (String ((Ascii
        (false, true, true, true, false, true, false, false)), (String
        ((Ascii (false, false, false, false, true, true, false, false)),
        (String ((Ascii (false, false, false, false, false, true, false,
        false)),
        EmptyString)))))))))))))))))))))))))))))))))))))))))))))))))))))))))))))))
      fname))

(** val set_version0 :
    tables -> nametab -> (n -> n list -> bool res) -> n -> etree -> etree res **)

let set_version0 t tab_at check_fn version root = match root with
| ENode (name, ty, attrs, content, comment) ->
  (match from_bytes tab_at
           (bS (String ((Ascii (false, false, false, true, true, true, true,
             false)), (String ((Ascii (true, true, false, false, true, true,
             true, false)), (String ((Ascii (true, false, false, true, false,
             true, true, false)), (String ((Ascii (false, true, false, true,
             true, true, false, false)), (String ((Ascii (true, true, false,
             false, true, true, true, false)), (String ((Ascii (true, true,
             false, false, false, true, true, false)), (String ((Ascii
             (false, false, false, true, false, true, true, false)), (String
             ((Ascii (true, false, true, false, false, true, true, false)),
             (String ((Ascii (true, false, true, true, false, true, true,
             false)), (String ((Ascii (true, false, false, false, false,
             true, true, false)), (String ((Ascii (false, false, true, true,
             false, false, true, false)), (String ((Ascii (true, true, true,
             true, false, true, true, false)), (String ((Ascii (true, true,
             false, false, false, true, true, false)), (String ((Ascii (true,
             false, false, false, false, true, true, false)), (String ((Ascii
             (false, false, true, false, true, true, true, false)), (String
             ((Ascii (true, false, false, true, false, true, true, false)),
             (String ((Ascii (true, true, true, true, false, true, true,
             false)), (String ((Ascii (false, true, true, true, false, true,
             true, false)), EmptyString))))))))))))))))))))))))))))))))))))) with
   | Ok a_schema ->
     bind (schema_location_value version) (fun value ->
       bind (find_attribute_spec t ty a_schema) (fun sp ->
         match sp with
         | Some p ->
           let (p0, _) = p in
           let (p1, _) = p0 in
           let (_, ctype) = p1 in
           bind (check_value_string check_fn ctype value) (fun ok ->
             if ok
             then Val (ENode (name, ty,
                    (set_attr a_schema (DString value) attrs), content,
                    comment))
             else Val root)
         | None -> Val root))
   | _ ->
     Pan (String ((Ascii (true, false, false, false, false, false, true,
       false)), (String ((Ascii (false, false, true, false, true, true, true,
       false)), (String ((Ascii (false, false, true, false, true, true, true,
       false)), (String ((Ascii (false, true, false, false, true, true, true,
       false)), (String ((Ascii (true, false, false, true, false, true, true,
       false)), (String ((Ascii (false, true, false, false, false, true,
       true, false)), (String ((Ascii (true, false, true, false, true, true,
       true, false)), (String ((Ascii (false, false, true, false, true, true,
       true, false)), (String ((Ascii (true, false, true, false, false, true,
       true, false)), (String ((Ascii (false, true, true, true, false, false,
       true, false)), (String ((Ascii (true, false, false, false, false,
       true, true, false)), (String ((Ascii (true, false, true, true, false,
       true, true, false)), (String ((Ascii (true, false, true, false, false,
       true, true, false)), (String ((Ascii (false, true, false, true, true,
       true, false, false)), (String ((Ascii (false, true, false, true, true,
       true, false, false)), (String ((Ascii (false, false, false, true,
       true, true, true, false)), (String ((Ascii (true, true, false, false,
       true, true, true, false)), (String ((Ascii (true, false, false, true,
       false, true, true, false)), (String ((Ascii (true, true, false, false,
       true, false, true, false)), (String ((Ascii (true, true, false, false,
       false, true, true, false)), (String ((Ascii (false, false, false,
       true, false, true, true, false)), (String ((Ascii (true, false, true,
       false, false, true, true, false)), (String ((Ascii (true, false, true,
       true, false, true, true, false)), (String ((Ascii (true, false, false,
       false, false, true, true, false)), (String ((Ascii (false, false,
       true, true, false, true, true, false)), (String ((Ascii (true, true,
       true, true, false, true, true, false)), (String ((Ascii (true, true,
       false, false, false, true, true, false)), (String ((Ascii (true,
       false, false, false, false, true, true, false)), (String ((Ascii
       (false, false, true, false, true, true, true, false)), (String ((Ascii
       (true, false, false, true, false, true, true, false)), (String ((Ascii
       (true, true, true, true, false, true, true, false)), (String ((Ascii
       (false, true, true, true, false, true, true, false)), (String ((Ascii
       (false, false, false, false, false, true, false, false)), (String
       ((Ascii (true, false, true, true, false, true, true, false)), (String
       ((Ascii (true, false, false, true, false, true, true, false)), (String
       ((Ascii (true, true, false, false, true, true, true, false)), (String
       ((Ascii (true, true, false, false, true, true, true, false)), (String
       ((Ascii (true, false, false, true, false, true, true, false)), (String
       ((Ascii (false, true, true, true, false, true, true, false)), (String
       ((Ascii (true, true, true, false, false, true, true, false)), (String
       ((Ascii (false, false, false, false, false, true, false, false)),
       (String ((Ascii (false, true, true, false, false, true, true, false)),
       (String ((Ascii (false, true, false, false, true, true, true, false)),
       (String ((Ascii (true, true, true, true, false, true, true, false)),
       (String ((Ascii (true, false, true, true, false, true, true, false)),
       (String ((Ascii (false, false, false, false, false, true, false,
       false)), (String ((Ascii (false, false, true, false, true, true, true,
       false)), (String ((Ascii (false, false, false, true, false, true,
       true, false)), (String ((Ascii (true, false, true, false, false, true,
       true, false)), (String ((Ascii (false, false, false, false, false,
       true, false, false)), (String ((Ascii (false, false, true, false,
       true, true, true, false)), (String ((Ascii (true, false, false, false,
       false, true, true, false)), (String ((Ascii (false, true, false,
       false, false, true, true, false)), (String ((Ascii (false, false,
       true, true, false, true, true, false)), (String ((Ascii (true, false,
       true, false, false, true, true, false)),
       EmptyString)))))))))))))))))))))))))))))))))))))))))))))))))))))))))))))))))))))))))))))))))))))))))))))))))))))))))))))))

(** val serialize_file :
    tables -> nametab -> nametab -> nametab -> (n -> n list -> bool res) ->
    (n -> n list) -> n -> bool option -> etree -> n list res **)

let serialize_file t tab_el tab_at tab_en check_fn float_fmt version standalone root =
  bind (set_version0 t tab_at check_fn version root) (fun root' ->
    bind (ser_elem t tab_el tab_at tab_en float_fmt root' O false)
      (fun body -> Val (app (xml_header standalone) body)))

(** val in_range : n -> (n * n) -> bool **)

let in_range c r =
  (&&) (N.leb (fst r) c) (N.leb c (snd r))

(** val class_mem : (n * n) list -> n -> bool **)

let class_mem rs c =
  existsb (in_range c) rs

(** val dfa_go : n list list -> n list -> n -> n list -> bool option **)

let rec dfa_go tbl acc q = function
| [] -> Some (existsb (N.eqb q) acc)
| c :: s' ->
  (match nth_opt tbl (N.to_nat q) with
   | Some row ->
     (match nth_opt row (N.to_nat c) with
      | Some q' ->
        if N.eqb q' (Npos (XI (XI (XI (XI (XI (XI (XI XH))))))))
        then Some false
        else dfa_go tbl acc q' s'
      | None -> None)
   | None -> None)

(** val dfa_run : n list list -> n list -> n list -> bool option **)

let dfa_run tbl acc s =
  dfa_go tbl acc N0 s

type vexpr =
| VLenGe of nat
| VLenEq of nat
| VLenLe of nat
| VNonEmpty
| VStarts of n list
| VEq of n list
| VAll of (n * n) list
| VAt of nat * (n * n) list
| VSkip of nat * vexpr
| VAnd of vexpr * vexpr
| VOr of vexpr * vexpr
| VStripOpt of (n * n) list * vexpr
| VSplitAll of n * vexpr
| VSplitCount of n * nat

(** val prefixb : n list -> n list -> bool **)

let rec prefixb lit s =
  match lit with
  | [] -> true
  | c :: lit' ->
    (match s with
     | [] -> false
     | d :: s' -> if N.eqb c d then prefixb lit' s' else false)

(** val split : n -> n list -> n list list **)

let rec split sep = function
| [] -> [] :: []
| c :: s' ->
  if N.eqb c sep
  then [] :: (split sep s')
  else (match split sep s' with
        | [] -> (c :: []) :: []
        | p :: ps -> (c :: p) :: ps)

(** val all_opt : (n list -> bool option) -> n list list -> bool option **)

let rec all_opt f = function
| [] -> Some true
| p :: ps' ->
  (match f p with
   | Some b -> if b then all_opt f ps' else Some false
   | None -> None)

(** val veval : vexpr -> n list -> bool option **)

let rec veval e s =
  match e with
  | VLenGe k -> Some (Nat.leb k (length s))
  | VLenEq k -> Some (Nat.eqb (length s) k)
  | VLenLe k -> Some (Nat.leb (length s) k)
  | VNonEmpty -> Some (match s with
                       | [] -> false
                       | _ :: _ -> true)
  | VStarts lit -> Some (prefixb lit s)
  | VEq lit -> Some (bytes_eqb s lit)
  | VAll cls -> Some (forallb (class_mem cls) s)
  | VAt (k, cls) ->
    (match nth_opt s k with
     | Some c -> Some (class_mem cls c)
     | None -> None)
  | VSkip (k, e') ->
    if Nat.leb k (length s) then veval e' (skipn k s) else None
  | VAnd (a, b) ->
    (match veval a s with
     | Some b0 -> if b0 then veval b s else Some false
     | None -> None)
  | VOr (a, b) ->
    (match veval a s with
     | Some b0 -> if b0 then Some true else veval b s
     | None -> None)
  | VStripOpt (cls, e') ->
    (match s with
     | [] -> veval e' s
     | c :: t -> if class_mem cls c then veval e' t else veval e' s)
  | VSplitAll (sep, e') -> all_opt (veval e') (split sep s)
  | VSplitCount (sep, k) -> Some (Nat.eqb (length (split sep s)) k)

(** val sub_range : n -> n -> (n * n) -> (n * n) list **)

let sub_range lo hi r =
  app
    (if N.ltb (fst r) lo
     then ((fst r), (N.min (snd r) (N.sub lo (Npos XH)))) :: []
     else [])
    (if N.ltb hi (snd r)
     then ((N.max (fst r) (N.add hi (Npos XH))), (snd r)) :: []
     else [])

(** val complement : (n * n) list -> (n * n) list **)

let complement cls =
  fold_left (fun acc r -> flat_map (sub_range (fst r) (snd r)) acc) cls ((N0,
    (Npos (XI (XI (XI (XI (XI (XI (XI XH))))))))) :: [])

(** val v_1 : vexpr **)

let v_1 =
  VAnd ((VAnd ((VLenGe (S (S (S O)))), (VOr ((VStarts
    (bS (String ((Ascii (false, false, false, false, true, true, false,
      false)), (String ((Ascii (false, false, false, true, true, true, true,
      false)), EmptyString)))))), (VStarts
    (bS (String ((Ascii (false, false, false, false, true, true, false,
      false)), (String ((Ascii (false, false, false, true, true, false, true,
      false)), EmptyString)))))))))), (VSkip ((S (S O)), (VAll (((Npos (XO
    (XO (XO (XO (XI XH)))))), (Npos (XI (XO (XO (XI (XI XH))))))) :: (((Npos
    (XI (XO (XO (XO (XO (XI XH))))))), (Npos (XO (XI (XI (XO (XO (XI
    XH)))))))) :: (((Npos (XI (XO (XO (XO (XO (XO XH))))))), (Npos (XO (XI
    (XI (XO (XO (XO XH)))))))) :: [])))))))

(** val v_4 : vexpr **)

let v_4 =
  VOr ((VAnd (VNonEmpty, (VAll (((Npos (XO (XO (XO (XO (XI XH)))))), (Npos
    (XI (XO (XO (XI (XI XH))))))) :: [])))), (VEq
    (bS (String ((Ascii (true, false, false, false, false, false, true,
      false)), (String ((Ascii (false, true, true, true, false, false, true,
      false)), (String ((Ascii (true, false, false, true, true, false, true,
      false)), EmptyString)))))))))

(** val v_5 : vexpr **)

let v_5 =
  VOr ((VOr ((VAnd (VNonEmpty, (VAll (((Npos (XO (XO (XO (XO (XI XH)))))),
    (Npos (XI (XO (XO (XI (XI XH))))))) :: [])))), (VEq
    (bS (String ((Ascii (true, true, false, false, true, false, true,
      false)), (String ((Ascii (false, false, true, false, true, false, true,
      false)), (String ((Ascii (false, true, false, false, true, false, true,
      false)), (String ((Ascii (true, false, false, true, false, false, true,
      false)), (String ((Ascii (false, true, true, true, false, false, true,
      false)), (String ((Ascii (true, true, true, false, false, false, true,
      false)), EmptyString)))))))))))))))), (VEq
    (bS (String ((Ascii (true, false, false, false, false, false, true,
      false)), (String ((Ascii (false, true, false, false, true, false, true,
      false)), (String ((Ascii (false, true, false, false, true, false, true,
      false)), (String ((Ascii (true, false, false, false, false, false,
      true, false)), (String ((Ascii (true, false, false, true, true, false,
      true, false)), EmptyString)))))))))))))

(** val v_6 : vexpr **)

let v_6 =
  VOr ((VOr ((VOr ((VEq
    (bS (String ((Ascii (false, false, false, false, true, true, false,
      false)), EmptyString)))), (VEq
    (bS (String ((Ascii (true, false, false, false, true, true, false,
      false)), EmptyString)))))), (VEq
    (bS (String ((Ascii (false, false, true, false, true, true, true,
      false)), (String ((Ascii (false, true, false, false, true, true, true,
      false)), (String ((Ascii (true, false, true, false, true, true, true,
      false)), (String ((Ascii (true, false, true, false, false, true, true,
      false)), EmptyString)))))))))))), (VEq
    (bS (String ((Ascii (false, true, true, false, false, true, true,
      false)), (String ((Ascii (true, false, false, false, false, true, true,
      false)), (String ((Ascii (false, false, true, true, false, true, true,
      false)), (String ((Ascii (true, true, false, false, true, true, true,
      false)), (String ((Ascii (true, false, true, false, false, true, true,
      false)), EmptyString)))))))))))))

(** val v_7 : vexpr **)

let v_7 =
  VAnd ((VAnd (VNonEmpty, (VOr ((VAt (O, (((Npos (XI (XO (XO (XO (XO (XO
    XH))))))), (Npos (XO (XI (XO (XI (XI (XO XH)))))))) :: (((Npos (XI (XO
    (XO (XO (XO (XI XH))))))), (Npos (XO (XI (XO (XI (XI (XI
    XH)))))))) :: [])))), (VAt (O, (((Npos (XI (XI (XI (XI (XI (XO XH))))))),
    (Npos (XI (XI (XI (XI (XI (XO XH)))))))) :: []))))))), (VAll
    (app (((Npos (XO (XO (XO (XO (XI XH)))))), (Npos (XI (XO (XO (XI (XI
      XH))))))) :: (((Npos (XI (XO (XO (XO (XO (XO XH))))))), (Npos (XO (XI
      (XO (XI (XI (XO XH)))))))) :: (((Npos (XI (XO (XO (XO (XO (XI
      XH))))))), (Npos (XO (XI (XO (XI (XI (XI XH)))))))) :: []))) (((Npos
      (XI (XI (XI (XI (XI (XO XH))))))), (Npos (XI (XI (XI (XI (XI (XO
      XH)))))))) :: []))))

(** val v_8 : vexpr **)

let v_8 =
  VAnd ((VAnd (VNonEmpty, (VAt (O, (((Npos (XI (XO (XO (XO (XO (XO XH))))))),
    (Npos (XO (XI (XO (XI (XI (XO XH)))))))) :: (((Npos (XI (XO (XO (XO (XO
    (XI XH))))))), (Npos (XO (XI (XO (XI (XI (XI XH)))))))) :: [])))))),
    (VAll
    (app (((Npos (XO (XO (XO (XO (XI XH)))))), (Npos (XI (XO (XO (XI (XI
      XH))))))) :: (((Npos (XI (XO (XO (XO (XO (XO XH))))))), (Npos (XO (XI
      (XO (XI (XI (XO XH)))))))) :: (((Npos (XI (XO (XO (XO (XO (XI
      XH))))))), (Npos (XO (XI (XO (XI (XI (XI XH)))))))) :: []))) (((Npos
      (XI (XI (XI (XI (XI (XO XH))))))), (Npos (XI (XI (XI (XI (XI (XO
      XH)))))))) :: []))))

(** val v_10 : vexpr **)

let v_10 =
  VAnd ((VAnd (VNonEmpty, (VAt (O, (((Npos (XI (XO (XO (XO (XO (XO XH))))))),
    (Npos (XO (XI (XO (XI (XI (XO XH)))))))) :: (((Npos (XI (XO (XO (XO (XO
    (XI XH))))))), (Npos (XO (XI (XO (XI (XI (XI XH)))))))) :: [])))))),
    (VAll
    (app (((Npos (XO (XO (XO (XO (XI XH)))))), (Npos (XI (XO (XO (XI (XI
      XH))))))) :: (((Npos (XI (XO (XO (XO (XO (XO XH))))))), (Npos (XO (XI
      (XO (XI (XI (XO XH)))))))) :: (((Npos (XI (XO (XO (XO (XO (XI
      XH))))))), (Npos (XO (XI (XO (XI (XI (XI XH)))))))) :: []))) (((Npos
      (XI (XO (XI (XI (XO XH)))))), (Npos (XI (XO (XI (XI (XO
      XH))))))) :: []))))

(** val v_11 : vexpr **)

let v_11 =
  VAnd (VNonEmpty, (VAll
    (app (((Npos (XO (XO (XO (XO (XI XH)))))), (Npos (XI (XO (XO (XI (XI
      XH))))))) :: (((Npos (XI (XO (XO (XO (XO (XO XH))))))), (Npos (XO (XI
      (XO (XI (XI (XO XH)))))))) :: (((Npos (XI (XO (XO (XO (XO (XI
      XH))))))), (Npos (XO (XI (XO (XI (XI (XI XH)))))))) :: []))) (((Npos
      (XI (XI (XI (XI (XI (XO XH))))))), (Npos (XI (XI (XI (XI (XI (XO
      XH)))))))) :: (((Npos (XI (XO (XI (XI (XO XH)))))), (Npos (XI (XO (XI
      (XI (XO XH))))))) :: [])))))

(** val v_15 : vexpr **)

let v_15 =
  VOr ((VEq
    (bS (String ((Ascii (true, false, false, false, false, false, true,
      false)), (String ((Ascii (false, true, true, true, false, false, true,
      false)), (String ((Ascii (true, false, false, true, true, false, true,
      false)), EmptyString)))))))), (VAnd ((VSplitCount ((Npos (XO (XI (XO
    (XI (XI XH)))))), (S (S (S (S (S (S (S (S O)))))))))), (VSplitAll ((Npos
    (XO (XI (XO (XI (XI XH)))))), (VAnd ((VAnd (VNonEmpty, (VLenLe (S (S (S
    (S O))))))), (VAll (((Npos (XO (XO (XO (XO (XI XH)))))), (Npos (XI (XO
    (XO (XI (XI XH))))))) :: (((Npos (XI (XO (XO (XO (XO (XI XH))))))), (Npos
    (XO (XI (XI (XO (XO (XI XH)))))))) :: (((Npos (XI (XO (XO (XO (XO (XO
    XH))))))), (Npos (XO (XI (XI (XO (XO (XO XH)))))))) :: [])))))))))))

(** val v_17 : vexpr **)

let v_17 =
  VAnd ((VLenEq (S (S (S (S (S (S (S (S (S (S (S (S (S (S (S (S (S
    O)))))))))))))))))), (VSplitAll ((Npos (XO (XI (XO (XI (XI XH)))))),
    (VAnd ((VAnd ((VLenEq (S (S O))), (VAt (O, (((Npos (XO (XO (XO (XO (XI
    XH)))))), (Npos (XI (XO (XO (XI (XI XH))))))) :: (((Npos (XI (XO (XO (XO
    (XO (XI XH))))))), (Npos (XO (XI (XI (XO (XO (XI XH)))))))) :: (((Npos
    (XI (XO (XO (XO (XO (XO XH))))))), (Npos (XO (XI (XI (XO (XO (XO
    XH)))))))) :: []))))))), (VAt ((S O), (((Npos (XO (XO (XO (XO (XI
    XH)))))), (Npos (XI (XO (XO (XI (XI XH))))))) :: (((Npos (XI (XO (XO (XO
    (XO (XI XH))))))), (Npos (XO (XI (XI (XO (XO (XI XH)))))))) :: (((Npos
    (XI (XO (XO (XO (XO (XO XH))))))), (Npos (XO (XI (XI (XO (XO (XO
    XH)))))))) :: []))))))))))

(** val v_19 : vexpr **)

let v_19 =
  VAnd ((VAnd (VNonEmpty, (VAt (O, (((Npos (XI (XO (XO (XO (XO (XO XH))))))),
    (Npos (XO (XI (XO (XI (XI (XO XH)))))))) :: []))))), (VAll
    (app (((Npos (XO (XO (XO (XO (XI XH)))))), (Npos (XI (XO (XO (XI (XI
      XH))))))) :: (((Npos (XI (XO (XO (XO (XO (XO XH))))))), (Npos (XO (XI
      (XO (XI (XI (XO XH)))))))) :: (((Npos (XI (XO (XO (XO (XO (XI
      XH))))))), (Npos (XO (XI (XO (XI (XI (XI XH)))))))) :: []))) (((Npos
      (XI (XI (XI (XI (XI (XO XH))))))), (Npos (XI (XI (XI (XI (XI (XO
      XH)))))))) :: []))))

(** val v_20 : vexpr **)

let v_20 =
  VAnd ((VAnd (VNonEmpty, (VAt (O,
    (complement (((Npos (XO (XO (XO (XO (XI XH)))))), (Npos (XO (XO (XO (XO
      (XI XH))))))) :: [])))))), (VAll (((Npos (XO (XO (XO (XO (XI XH)))))),
    (Npos (XI (XO (XO (XI (XI XH))))))) :: [])))

(** val v_23 : vexpr **)

let v_23 =
  VStripOpt ((((Npos (XI (XO (XI (XI (XO XH)))))), (Npos (XI (XO (XI (XI (XO
    XH))))))) :: []), (VAnd (VNonEmpty, (VOr ((VOr ((VAll (((Npos (XO (XO (XO
    (XO (XI XH)))))), (Npos (XI (XO (XO (XI (XI XH))))))) :: [])), (VEq
    (bS (String ((Ascii (true, false, true, true, false, false, true,
      false)), (String ((Ascii (true, false, false, false, false, false,
      true, false)), (String ((Ascii (false, false, false, true, true, false,
      true, false)), (String ((Ascii (true, false, true, true, false, true,
      false, false)), (String ((Ascii (false, false, true, false, true,
      false, true, false)), (String ((Ascii (true, false, true, false, false,
      false, true, false)), (String ((Ascii (false, false, false, true, true,
      false, true, false)), (String ((Ascii (false, false, true, false, true,
      false, true, false)), (String ((Ascii (true, false, true, true, false,
      true, false, false)), (String ((Ascii (true, true, false, false, true,
      false, true, false)), (String ((Ascii (true, false, false, true, false,
      false, true, false)), (String ((Ascii (false, true, false, true, true,
      false, true, false)), (String ((Ascii (true, false, true, false, false,
      false, true, false)), EmptyString)))))))))))))))))))))))))))))), (VEq
    (bS (String ((Ascii (true, false, false, false, false, false, true,
      false)), (String ((Ascii (false, true, false, false, true, false, true,
      false)), (String ((Ascii (false, true, false, false, true, false, true,
      false)), (String ((Ascii (true, false, false, false, false, false,
      true, false)), (String ((Ascii (true, false, false, true, true, false,
      true, false)), (String ((Ascii (true, false, true, true, false, true,
      false, false)), (String ((Ascii (true, true, false, false, true, false,
      true, false)), (String ((Ascii (true, false, false, true, false, false,
      true, false)), (String ((Ascii (false, true, false, true, true, false,
      true, false)), (String ((Ascii (true, false, true, false, false, false,
      true, false)), EmptyString)))))))))))))))))))))))))))

(** val v_24 : vexpr **)

let v_24 =
  VAnd (VNonEmpty, (VStripOpt ((((Npos (XI (XI (XI (XI (XO XH)))))), (Npos
    (XI (XI (XI (XI (XO XH))))))) :: []), (VSplitAll ((Npos (XI (XI (XI (XI
    (XO XH)))))), (VAnd ((VLenLe (S (S (S (S (S (S (S (S (S (S (S (S (S (S (S
    (S (S (S (S (S (S (S (S (S (S (S (S (S (S (S (S (S (S (S (S (S (S (S (S
    (S (S (S (S (S (S (S (S (S (S (S (S (S (S (S (S (S (S (S (S (S (S (S (S
    (S (S (S (S (S (S (S (S (S (S (S (S (S (S (S (S (S (S (S (S (S (S (S (S
    (S (S (S (S (S (S (S (S (S (S (S (S (S (S (S (S (S (S (S (S (S (S (S (S
    (S (S (S (S (S (S (S (S (S (S (S (S (S (S (S (S (S
    O))))))))))))))))))))))))))))))))))))))))))))))))))))))))))))))))))))))))))))))))))))))))))))))))))))))))))))))))))))))))))))))))),
    (VAnd ((VAnd (VNonEmpty, (VAt (O, (((Npos (XI (XO (XO (XO (XO (XO
    XH))))))), (Npos (XO (XI (XO (XI (XI (XO XH)))))))) :: (((Npos (XI (XO
    (XO (XO (XO (XI XH))))))), (Npos (XO (XI (XO (XI (XI (XI
    XH)))))))) :: [])))))), (VAll
    (app (((Npos (XO (XO (XO (XO (XI XH)))))), (Npos (XI (XO (XO (XI (XI
      XH))))))) :: (((Npos (XI (XO (XO (XO (XO (XO XH))))))), (Npos (XO (XI
      (XO (XI (XI (XO XH)))))))) :: (((Npos (XI (XO (XO (XO (XO (XI
      XH))))))), (Npos (XO (XI (XO (XI (XI (XI XH)))))))) :: []))) (((Npos
      (XI (XI (XI (XI (XI (XO XH))))))), (Npos (XI (XI (XI (XI (XI (XO
      XH)))))))) :: []))))))))))))

(** val v_27 : vexpr **)

let v_27 =
  VAnd ((VLenEq (S O)), (VOr ((VAt (O, (((Npos (XO (XO (XO (XO (XI XH)))))),
    (Npos (XO (XO (XO (XO (XI XH))))))) :: []))), (VAt (O, (((Npos (XI (XO
    (XO (XO (XI XH)))))), (Npos (XI (XO (XO (XO (XI XH))))))) :: []))))))

(** val xml_vexpr : n -> vexpr option **)

let xml_vexpr = function
| N0 -> None
| Npos p ->
  (match p with
   | XI p0 ->
     (match p0 with
      | XI p1 ->
        (match p1 with
         | XI p2 ->
           (match p2 with
            | XI _ -> None
            | XO p3 -> (match p3 with
                        | XH -> Some v_23
                        | _ -> None)
            | XH -> Some v_15)
         | XO p2 ->
           (match p2 with
            | XI p3 -> (match p3 with
                        | XH -> Some v_27
                        | _ -> None)
            | XO p3 -> (match p3 with
                        | XH -> Some v_19
                        | _ -> None)
            | XH -> Some v_11)
         | XH -> Some v_7)
      | XO p1 ->
        (match p1 with
         | XI _ -> None
         | XO p2 ->
           (match p2 with
            | XO p3 -> (match p3 with
                        | XH -> Some v_17
                        | _ -> None)
            | _ -> None)
         | XH -> Some v_5)
      | XH -> None)
   | XO p0 ->
     (match p0 with
      | XI p1 ->
        (match p1 with
         | XI _ -> None
         | XO p2 -> (match p2 with
                     | XH -> Some v_10
                     | _ -> None)
         | XH -> Some v_6)
      | XO p1 ->
        (match p1 with
         | XI p2 ->
           (match p2 with
            | XO p3 -> (match p3 with
                        | XH -> Some v_20
                        | _ -> None)
            | _ -> None)
         | XO p2 ->
           (match p2 with
            | XI p3 -> (match p3 with
                        | XH -> Some v_24
                        | _ -> None)
            | XO _ -> None
            | XH -> Some v_8)
         | XH -> Some v_4)
      | XH -> None)
   | XH -> Some v_1)

(** val check_fn_model :
    (n -> (n list list * n list) option) -> n -> n list -> bool res **)

let check_fn_model dfas n0 s =
  match xml_vexpr n0 with
  | Some v ->
    (match veval v s with
     | Some b -> Val b
     | None ->
       Pan (String ((Ascii (false, true, false, false, true, true, true,
         false)), (String ((Ascii (true, false, true, false, false, true,
         true, false)), (String ((Ascii (true, true, true, false, false,
         true, true, false)), (String ((Ascii (true, false, true, false,
         false, true, true, false)), (String ((Ascii (false, false, false,
         true, true, true, true, false)), (String ((Ascii (false, true, true,
         true, false, true, false, false)), (String ((Ascii (false, true,
         false, false, true, true, true, false)), (String ((Ascii (true,
         true, false, false, true, true, true, false)), (String ((Ascii
         (false, true, false, true, true, true, false, false)), (String
         ((Ascii (false, false, false, false, false, true, false, false)),
         (String ((Ascii (false, false, false, true, false, true, true,
         false)), (String ((Ascii (true, false, false, false, false, true,
         true, false)), (String ((Ascii (false, true, true, true, false,
         true, true, false)), (String ((Ascii (false, false, true, false,
         false, true, true, false)), (String ((Ascii (true, false, true,
         true, false, true, false, false)), (String ((Ascii (true, true,
         true, false, true, true, true, false)), (String ((Ascii (false,
         true, false, false, true, true, true, false)), (String ((Ascii
         (true, false, false, true, false, true, true, false)), (String
         ((Ascii (false, false, true, false, true, true, true, false)),
         (String ((Ascii (false, false, true, false, true, true, true,
         false)), (String ((Ascii (true, false, true, false, false, true,
         true, false)), (String ((Ascii (false, true, true, true, false,
         true, true, false)), (String ((Ascii (false, false, false, false,
         false, true, false, false)), (String ((Ascii (false, true, true,
         false, true, true, true, false)), (String ((Ascii (true, false,
         false, false, false, true, true, false)), (String ((Ascii (false,
         false, true, true, false, true, true, false)), (String ((Ascii
         (true, false, false, true, false, true, true, false)), (String
         ((Ascii (false, false, true, false, false, true, true, false)),
         (String ((Ascii (true, false, false, false, false, true, true,
         false)), (String ((Ascii (false, false, true, false, true, true,
         true, false)), (String ((Ascii (true, true, true, true, false, true,
         true, false)), (String ((Ascii (false, true, false, false, true,
         true, true, false)), (String ((Ascii (false, false, false, false,
         false, true, false, false)), (String ((Ascii (true, false, false,
         true, false, true, true, false)), (String ((Ascii (false, true,
         true, true, false, true, true, false)), (String ((Ascii (false,
         false, true, false, false, true, true, false)), (String ((Ascii
         (true, false, true, false, false, true, true, false)), (String
         ((Ascii (false, false, false, true, true, true, true, false)),
         EmptyString)))))))))))))))))))))))))))))))))))))))))))))))))))))))))))))))))))))))))))))
  | None ->
    (match dfas n0 with
     | Some p ->
       let (tbl, acc) = p in
       (match dfa_run tbl acc s with
        | Some b -> Val b
        | None ->
          Pan (String ((Ascii (false, true, false, false, true, true, true,
            false)), (String ((Ascii (true, false, true, false, false, true,
            true, false)), (String ((Ascii (true, true, true, false, false,
            true, true, false)), (String ((Ascii (true, false, true, false,
            false, true, true, false)), (String ((Ascii (false, false, false,
            true, true, true, true, false)), (String ((Ascii (false, true,
            true, true, false, true, false, false)), (String ((Ascii (false,
            true, false, false, true, true, true, false)), (String ((Ascii
            (true, true, false, false, true, true, true, false)), (String
            ((Ascii (false, true, false, true, true, true, false, false)),
            (String ((Ascii (false, false, false, false, false, true, false,
            false)), (String ((Ascii (false, true, false, false, true, false,
            true, false)), (String ((Ascii (true, false, true, false, false,
            false, true, false)), (String ((Ascii (true, true, true, false,
            false, false, true, false)), (String ((Ascii (true, false, true,
            false, false, false, true, false)), (String ((Ascii (false,
            false, false, true, true, false, true, false)), (String ((Ascii
            (true, true, true, true, true, false, true, false)), (String
            ((Ascii (false, true, true, true, false, true, true, false)),
            (String ((Ascii (true, true, true, true, true, false, true,
            false)), (String ((Ascii (false, false, true, false, true, false,
            true, false)), (String ((Ascii (true, false, false, false, false,
            false, true, false)), (String ((Ascii (false, true, false, false,
            false, false, true, false)), (String ((Ascii (false, false, true,
            true, false, false, true, false)), (String ((Ascii (true, false,
            true, false, false, false, true, false)), (String ((Ascii (false,
            false, false, false, false, true, false, false)), (String ((Ascii
            (true, false, false, true, false, true, true, false)), (String
            ((Ascii (false, true, true, true, false, true, true, false)),
            (String ((Ascii (false, false, true, false, false, true, true,
            false)), (String ((Ascii (true, false, true, false, false, true,
            true, false)), (String ((Ascii (false, false, false, true, true,
            true, true, false)),
            EmptyString)))))))))))))))))))))))))))))))))))))))))))))))))))))))))))
     | None ->
       Pan (String ((Ascii (true, true, false, false, false, true, true,
         false)), (String ((Ascii (false, false, false, true, false, true,
         true, false)), (String ((Ascii (true, false, true, false, false,
         true, true, false)), (String ((Ascii (true, true, false, false,
         false, true, true, false)), (String ((Ascii (true, true, false,
         true, false, true, true, false)), (String ((Ascii (true, true, true,
         true, true, false, true, false)), (String ((Ascii (false, true,
         true, false, false, true, true, false)), (String ((Ascii (false,
         true, true, true, false, true, true, false)), (String ((Ascii
         (false, true, false, true, true, true, false, false)), (String
         ((Ascii (false, false, false, false, false, true, false, false)),
         (String ((Ascii (false, true, true, true, false, true, true,
         false)), (String ((Ascii (true, true, true, true, false, true, true,
         false)), (String ((Ascii (false, false, false, false, false, true,
         false, false)), (String ((Ascii (true, true, false, false, true,
         true, true, false)), (String ((Ascii (true, false, true, false,
         true, true, true, false)), (String ((Ascii (true, true, false,
         false, false, true, true, false)), (String ((Ascii (false, false,
         false, true, false, true, true, false)), (String ((Ascii (false,
         false, false, false, false, true, false, false)), (String ((Ascii
         (false, true, true, false, true, true, true, false)), (String
         ((Ascii (true, false, false, false, false, true, true, false)),
         (String ((Ascii (false, false, true, true, false, true, true,
         false)), (String ((Ascii (true, false, false, true, false, true,
         true, false)), (String ((Ascii (false, false, true, false, false,
         true, true, false)), (String ((Ascii (true, false, false, false,
         false, true, true, false)), (String ((Ascii (false, false, true,
         false, true, true, true, false)), (String ((Ascii (true, true, true,
         true, false, true, true, false)), (String ((Ascii (false, true,
         false, false, true, true, true, false)),
         EmptyString)))))))))))))))))))))))))))))))))))))))))))))))))))))))
