
val negb : bool -> bool

type nat =
| O
| S of nat

val option_map : ('a1 -> 'a2) -> 'a1 option -> 'a2 option

val fst : ('a1 * 'a2) -> 'a1

val snd : ('a1 * 'a2) -> 'a2

val length : 'a1 list -> nat

val app : 'a1 list -> 'a1 list -> 'a1 list

type comparison =
| Eq
| Lt
| Gt

val add : nat -> nat -> nat

val removelast : 'a1 list -> 'a1 list

val existsb : ('a1 -> bool) -> 'a1 list -> bool

val find : ('a1 -> bool) -> 'a1 list -> 'a1 option

type positive =
| XI of positive
| XO of positive
| XH

type n =
| N0
| Npos of positive

module Pos :
 sig
  type mask =
  | IsNul
  | IsPos of positive
  | IsNeg
 end

module Coq_Pos :
 sig
  val succ : positive -> positive

  val add : positive -> positive -> positive

  val add_carry : positive -> positive -> positive

  val pred_double : positive -> positive

  type mask = Pos.mask =
  | IsNul
  | IsPos of positive
  | IsNeg

  val succ_double_mask : mask -> mask

  val double_mask : mask -> mask

  val double_pred_mask : positive -> mask

  val sub_mask : positive -> positive -> mask

  val sub_mask_carry : positive -> positive -> mask

  val mul : positive -> positive -> positive

  val iter : ('a1 -> 'a1) -> 'a1 -> positive -> 'a1

  val compare_cont : comparison -> positive -> positive -> comparison

  val compare : positive -> positive -> comparison

  val eqb : positive -> positive -> bool

  val coq_Nsucc_double : n -> n

  val coq_Ndouble : n -> n

  val coq_lor : positive -> positive -> positive

  val coq_land : positive -> positive -> n

  val coq_lxor : positive -> positive -> n

  val shiftl : positive -> n -> positive

  val iter_op : ('a1 -> 'a1 -> 'a1) -> positive -> 'a1 -> 'a1

  val to_nat : positive -> nat

  val of_succ_nat : nat -> positive
 end

module N :
 sig
  val succ_double : n -> n

  val double : n -> n

  val add : n -> n -> n

  val sub : n -> n -> n

  val mul : n -> n -> n

  val compare : n -> n -> comparison

  val eqb : n -> n -> bool

  val leb : n -> n -> bool

  val ltb : n -> n -> bool

  val div2 : n -> n

  val pos_div_eucl : positive -> n -> n * n

  val div_eucl : n -> n -> n * n

  val modulo : n -> n -> n

  val coq_lor : n -> n -> n

  val coq_land : n -> n -> n

  val coq_lxor : n -> n -> n

  val shiftl : n -> n -> n

  val shiftr : n -> n -> n

  val to_nat : n -> nat

  val of_nat : nat -> n
 end

type ascii =
| Ascii of bool * bool * bool * bool * bool * bool * bool * bool

type string =
| EmptyString
| String of ascii * string

val bytes_eqb : n list -> n list -> bool

val nth_opt : 'a1 list -> nat -> 'a1 option

type 'a res =
| Val of 'a
| Pan of string
| Fuel

val bind : 'a1 res -> ('a1 -> 'a2 res) -> 'a2 res

val unwrap : string -> 'a1 option -> 'a1 res

val hASHCONST1 : n

val hASHCONST2 : n

val sEED1 : n

val sEED2 : n

val rOT1 : n

val rOT2 : n

val m32 : n

val rotl32 : n -> n -> n

val mix : n -> n -> n -> n -> n

val hash_loop : n list -> n -> n -> n * n

val hashfunc : n list -> (n * n) * n

type nametab = { nt_strtab : n list list; nt_disp : (n * n) list;
                 nt_mdisp : n; nt_mtab : n }

type 'a outcome =
| Ok of 'a
| Err
| Panic

val from_bytes : nametab -> n list -> n outcome

val to_str : nametab -> n -> n list option

type cdspec =
| CEnum of (n * n) list
| CPattern of n * n option
| CString of bool * n option
| CUInt
| CFloat

type elemdef = { ed_name : n; ed_type : n; ed_mult : n; ed_ordered : 
                 n; ed_split : n; ed_restrict : n }

type dtype = { dt_sub_start : n; dt_sub_end : n; dt_sub_ver : n;
               dt_attr_start : n; dt_attr_end : n; dt_attr_ver : n;
               dt_cdata : n; dt_mode : n; dt_ref_start : n; dt_ref_end : 
               n }

type tables = { t_elements : (n -> elemdef option); n_elements : n;
                t_subelements : (n -> (n * n) option); n_subelements : 
                n; t_attributes : (n -> ((n * n) * n) option);
                n_attributes : n; t_version_info : (n -> n option);
                n_version_info : n; t_datatypes : (n -> dtype option);
                n_datatypes : n; t_ref_items : (n -> n option);
                n_ref_items : n; t_cdata : (n -> cdspec option); n_cdata : 
                n; reference_type_idx : n; autosar_element : n;
                name_short_name : n; attr_dest : n }

type etype = n * n

val elem : tables -> n -> elemdef res

val dt : tables -> n -> dtype res

val vinfo : tables -> n -> n res

val subel : tables -> n -> (n * n) res

val et_new : tables -> n -> etype res

val slice_chk : string -> n -> n -> n -> unit res

val sub_slice : tables -> n -> ((n * n) * dtype) res

val find_sub : tables -> nat -> n -> n -> n -> (etype * n list) option res

val fUEL : nat

val find_sub_element :
  tables -> etype -> n -> n -> (etype * n list) option res

val short_name_version_mask : tables -> n -> n option res

val is_named : tables -> etype -> bool res

val is_named_in_version : tables -> etype -> n -> bool res

val list_sub : tables -> nat -> n -> (((n * etype) * n) * n) list res

val sub_element_spec_list :
  tables -> etype -> (((n * etype) * n) * n) list res

val walk_groups : tables -> n -> n list -> ((n * n) * n) option res

val get_sub_element_spec :
  tables -> etype -> n list -> ((n * n) * n) option res

val get_sub_element_version_mask : tables -> etype -> n list -> n option res

val get_sub_element_multiplicity : tables -> etype -> n list -> n option res

val get_sub_element_container_mode : tables -> etype -> n list -> n res

val common_group : tables -> n -> n list -> n list -> n res

val find_common_group : tables -> etype -> n list -> n list -> n res

val is_ref : tables -> etype -> bool res

val content_mode : tables -> etype -> n res

val chardata_spec : tables -> etype -> cdspec option res

val attr_slice : tables -> n -> ((n * n) * dtype) res

val find_attribute_spec :
  tables -> etype -> n -> (((n * cdspec) * n) * n) option res

val attribute_spec_list : tables -> etype -> (((n * n) * cdspec) * n) list res

val is_ordered : tables -> etype -> bool res

val splittable : tables -> etype -> n res

val splittable_in : tables -> etype -> n -> bool res

val std_restriction : tables -> etype -> n res

val ref_slice : tables -> n -> n list res

val verify_reference_dest : tables -> etype -> n -> bool res

val reference_dest_value : tables -> etype -> etype -> n option res
