(* tree_driver.ml — runs the extracted Coq element-tree model (Tree/Heap.v, Ops.v, Script.v) on the operation
   scripts the Rust harness generated (`avh tree gen`) and prints the same canonical observation lines as
   `avh tree run`.  Hand-written glue (trusted for the tie only, never for a theorem): table loading from the
   translator's text dump, N <-> int, script parsing, printing, hashing. *)
open Treemodel

let rec pos_of_int (i : int) : positive =
  if i = 1 then XH else if i land 1 = 0 then XO (pos_of_int (i lsr 1)) else XI (pos_of_int (i lsr 1))
let n_of_int (i : int) : n = if i = 0 then N0 else Npos (pos_of_int i)
let byte_n : n array = Array.init 256 n_of_int
let rec int_of_pos (p : positive) : int =
  match p with XH -> 1 | XO q -> 2 * int_of_pos q | XI q -> 2 * int_of_pos q + 1
let int_of_n (x : n) : int = match x with N0 -> 0 | Npos p -> int_of_pos p
(* u64 values do not fit OCaml's 63-bit int: decimal text <-> N through Int64 (unsigned) *)
let n_of_u64_string (s : String.t) : n =
  let v = Int64.of_string ("0u" ^ s) in
  let rec go (v : int64) : positive =
    if v = 1L then XH
    else let q = go (Int64.shift_right_logical v 1) in if Int64.logand v 1L = 0L then XO q else XI q in
  if v = 0L then N0 else Npos (go v)
let rec i64_of_pos (p : positive) : int64 =
  match p with XH -> 1L | XO q -> Int64.shift_left (i64_of_pos q) 1 | XI q -> Int64.logor (Int64.shift_left (i64_of_pos q) 1) 1L
let i64_of_n (x : n) : int64 = match x with N0 -> 0L | Npos p -> i64_of_pos p
let n_of_i64 (v : int64) : n =
  let rec go (v : int64) : positive =
    if v = 1L then XH
    else let q = go (Int64.shift_right_logical v 1) in if Int64.logand v 1L = 0L then XO q else XI q in
  if v = 0L then N0 else Npos (go v)
let u64_string (x : n) : String.t = Printf.sprintf "%Lu" (i64_of_n x)

let bytes_of_string (s : String.t) : n list =
  let rec go i acc = if i < 0 then acc else go (i - 1) (byte_n.(Char.code s.[i]) :: acc) in go (String.length s - 1) []
let string_of_bytes (l : n list) : String.t =
  let b = Buffer.create 64 in
  List.iter (fun x -> Buffer.add_char b (Char.chr ((int_of_n x) land 255))) l; Buffer.contents b
let rec coqstr (s : Treemodel.string) : String.t =
  match s with EmptyString -> "" | String (Ascii (a,b,c,d,e,f,g,h), r) ->
    let bit x k = if x then 1 lsl k else 0 in
    String.make 1 (Char.chr (bit a 0 + bit b 1 + bit c 2 + bit d 3 + bit e 4 + bit f 5 + bit g 6 + bit h 7)) ^ coqstr r
let hex_of_string (s : String.t) : String.t =
  let b = Buffer.create (2 * String.length s) in
  String.iter (fun c -> Buffer.add_string b (Printf.sprintf "%02x" (Char.code c))) s; Buffer.contents b
let unhex s = String.init (String.length s / 2) (fun i -> Char.chr (int_of_string ("0x" ^ String.sub s (2 * i) 2)))
let hexb (l : n list) = hex_of_string (string_of_bytes l)
let unhexb s = bytes_of_string (unhex s)
(* script arguments carry an 'x' prefix so that the empty string is still a token *)
let unxh s = if String.length s > 0 && s.[0] = 'x' then unhexb (String.sub s 1 (String.length s - 1)) else unhexb s

let fnv_init = 0xcbf29ce484222325L
let fnv_add (h : int64) (s : String.t) : int64 =
  let h = ref h in
  String.iter (fun c -> h := Int64.mul (Int64.logxor !h (Int64.of_int (Char.code c))) 0x100000001b3L) s; !h

let read_lines path =
  let ic = open_in path in
  let rec go acc = match input_line ic with l -> go (l :: acc) | exception End_of_file -> close_in ic; List.rev acc in
  go []
let split_ws s = List.filter (fun x -> x <> "") (String.split_on_char ' ' s)

(* ---------- specification tables from the translator's text dump (same loader as driver.ml) ---------- *)
let load_spec (dump : String.t) : tables =
  let lines = Array.of_list (read_lines (Filename.concat dump "spec_tables.txt")) in
  let pos = ref 0 in
  let next () = let l = lines.(!pos) in incr pos; l in
  let kv name = match split_ws (next ()) with [k; v] when k = name -> int_of_string v | _ -> failwith ("expected " ^ name) in
  let reference_type_idx = kv "REFERENCE_TYPE_IDX" in
  let autosar_element = kv "AUTOSAR_ELEMENT" in
  let short_name = kv "SHORT_NAME" in
  let attr_dest = kv "ATTR_DEST" in
  let ncd = kv "CDATA" in
  let optn i = if i < 0 then None else Some (n_of_int i) in
  let cdata = Array.init ncd (fun _ ->
    let l = next () in
    match l.[0] with
    | 'E' -> let items = List.map (fun it -> match String.split_on_char ':' it with
                 | [a; b] -> (n_of_int (int_of_string a), n_of_int (int_of_string b)) | _ -> failwith "enum item")
               (split_ws (String.sub l 1 (String.length l - 1))) in CEnum items
    | 'P' -> (match split_ws l with [_; f; m] -> CPattern (n_of_int (int_of_string f), optn (int_of_string m)) | _ -> failwith "P")
    | 'S' -> (match split_ws l with [_; p; m] -> CString (p = "1", optn (int_of_string m)) | _ -> failwith "S")
    | 'U' -> CUInt | 'F' -> CFloat | _ -> failwith "cdata kind") in
  let ints l = List.map int_of_string (split_ws l) in
  let nel = kv "ELEMENTS" in
  let elements = Array.init nel (fun _ -> match ints (next ()) with
    | [a;b;c;d;e;f] -> { ed_name = n_of_int a; ed_type = n_of_int b; ed_mult = n_of_int c; ed_ordered = n_of_int d;
                         ed_split = n_of_int e; ed_restrict = n_of_int f } | _ -> failwith "element") in
  let nsub = kv "SUBELEMENTS" in
  let subs = Array.init nsub (fun _ -> match ints (next ()) with [a;b] -> (n_of_int a, n_of_int b) | _ -> failwith "sub") in
  let nat = kv "ATTRIBUTES" in
  let attrs = Array.init nat (fun _ -> match ints (next ()) with [a;b;c] -> ((n_of_int a, n_of_int b), n_of_int c) | _ -> failwith "attr") in
  let ndt = kv "DATATYPES" in
  let dts = Array.init ndt (fun _ -> match ints (next ()) with
    | [a;b;c;d;e;f;g;h;i;j] -> { dt_sub_start = n_of_int a; dt_sub_end = n_of_int b; dt_sub_ver = n_of_int c;
        dt_attr_start = n_of_int d; dt_attr_end = n_of_int e; dt_attr_ver = n_of_int f; dt_cdata = n_of_int g;
        dt_mode = n_of_int h; dt_ref_start = n_of_int i; dt_ref_end = n_of_int j } | _ -> failwith "dt") in
  let nvi = kv "VERSION_INFO" in
  let vi = Array.of_list (List.map n_of_int (ints (next ()))) in
  assert (Array.length vi = nvi);
  let nri = kv "REF_ITEMS" in
  let ri = Array.of_list (List.map n_of_int (ints (next ()))) in
  assert (Array.length ri = nri);
  let get a = fun (i : n) -> let k = int_of_n i in if k < Array.length a then Some a.(k) else None in
  { t_elements = get elements; n_elements = n_of_int nel; t_subelements = get subs; n_subelements = n_of_int nsub;
    t_attributes = get attrs; n_attributes = n_of_int nat; t_version_info = get vi; n_version_info = n_of_int nvi;
    t_datatypes = get dts; n_datatypes = n_of_int ndt; t_ref_items = get ri; n_ref_items = n_of_int nri;
    t_cdata = get cdata; n_cdata = n_of_int ncd; reference_type_idx = n_of_int reference_type_idx;
    autosar_element = n_of_int autosar_element; name_short_name = n_of_int short_name; attr_dest = n_of_int attr_dest }

let load_names dump kind : nametab * String.t array =
  let strs = read_lines (Filename.concat dump ("names_" ^ kind ^ ".txt")) in
  let disp = List.map (fun l -> match split_ws l with [a; b] -> (n_of_int (int_of_string a), n_of_int (int_of_string b)) | _ -> failwith "disp")
      (read_lines (Filename.concat dump ("disp_" ^ kind ^ ".txt"))) in
  ({ nt_strtab = List.map bytes_of_string strs; nt_disp = disp;
     nt_mdisp = n_of_int (List.length disp); nt_mtab = n_of_int (List.length strs) }, Array.of_list strs)

let load_dfas dump : (int, n list list * n list) Hashtbl.t =
  let h = Hashtbl.create 32 in
  let lines = Array.of_list (read_lines (Filename.concat dump "regex_dfa.txt")) in
  let i = ref 0 in
  while !i < Array.length lines do
    (match split_ws lines.(!i) with
     | "D" :: n :: rows :: acc ->
       let rows = int_of_string rows in
       let tbl = List.init rows (fun k -> List.map (fun x -> n_of_int (int_of_string x)) (split_ws lines.(!i + 1 + k))) in
       Hashtbl.replace h (int_of_string n) (tbl, List.map (fun x -> n_of_int (int_of_string x)) acc);
       i := !i + 1 + rows
     | _ -> failwith "regex_dfa.txt")
  done; h

(* ---------- ORACLE: str::parse::<f64> (core::num::dec2flt grammar; value by strtod = correctly rounded) ---------- *)
let is_digit c = c >= '0' && c <= '9'
let float_parse_str (s : String.t) : int64 option =
  let len = String.length s in
  if len = 0 then None else
  let neg = s.[0] = '-' in
  let st = if s.[0] = '-' || s.[0] = '+' then 1 else 0 in
  if st = len then None else
  let rest = String.sub s st (len - st) in
  let n = String.length rest in
  let i = ref 0 in
  let nd = ref 0 in
  while !i < n && is_digit rest.[!i] do incr i; incr nd done;
  if !i < n && rest.[!i] = '.' then begin incr i; while !i < n && is_digit rest.[!i] do incr i; incr nd done end;
  let ok_number =
    if !nd = 0 then false
    else if !i = n then true
    else if rest.[!i] = 'e' || rest.[!i] = 'E' then begin
      incr i;
      if !i < n && (rest.[!i] = '+' || rest.[!i] = '-') then incr i;
      let d0 = !i in
      while !i < n && is_digit rest.[!i] do incr i done;
      !i > d0 && !i = n
    end else false in
  if ok_number then begin
    (* strtod does not like "1." followed by e? it does; ".5" fine.  OCaml's float_of_string needs a digit before an
       exponent and accepts "1." and ".5" *)
    let v = float_of_string (if rest.[0] = '.' then "0" ^ rest else rest) in
    let v = if neg then -. v else v in
    Some (Int64.bits_of_float v)
  end else begin
    let l = String.lowercase_ascii rest in
    if l = "nan" then Some (if neg then 0xfff8000000000000L else 0x7ff8000000000000L)
    else if l = "inf" || l = "infinity" then Some (if neg then 0xfff0000000000000L else 0x7ff0000000000000L)
    else None
  end
let float_parse (b : n list) : n option =
  match float_parse_str (string_of_bytes b) with Some bits -> Some (n_of_i64 bits) | None -> None

(* ---------- ORACLE: f64::to_string (Display: shortest digits that round-trip, positional notation) ---------- *)
let dec_bump (m : String.t) (d : int) : String.t option =
  (* decimal digit string +/- 1 *)
  let b = Bytes.of_string m in
  let n = Bytes.length b in
  if d = 1 then begin
    let i = ref (n - 1) in
    while !i >= 0 && Bytes.get b !i = '9' do Bytes.set b !i '0'; decr i done;
    if !i < 0 then Some ("1" ^ Bytes.to_string b)
    else (Bytes.set b !i (Char.chr (Char.code (Bytes.get b !i) + 1)); Some (Bytes.to_string b))
  end else begin
    let i = ref (n - 1) in
    while !i >= 0 && Bytes.get b !i = '0' do Bytes.set b !i '9'; decr i done;
    if !i < 0 then None
    else (Bytes.set b !i (Char.chr (Char.code (Bytes.get b !i) - 1));
          if Bytes.get b 0 = '0' then None else Some (Bytes.to_string b))
  end
let float_fmt_str (bits : int64) : String.t =
  let v = Int64.float_of_bits bits in
  if v <> v then "NaN"
  else if v = infinity then "inf" else if v = neg_infinity then "-inf"
  else begin
    let neg = Int64.compare bits 0L < 0 in
    let a = Float.abs v in
    if a = 0.0 then (if neg then "-0" else "0") else begin
      (* shortest p such that a p-digit decimal round-trips; prefer the correctly rounded one, else a neighbour *)
      let result = ref None in
      let p = ref 1 in
      while !result = None && !p <= 17 do
        let s = Printf.sprintf "%.*e" (!p - 1) a in
        (* s = d.ddddde[+-]XX *)
        let epos = String.index s 'e' in
        let mant = String.concat "" (String.split_on_char '.' (String.sub s 0 epos)) in
        let ex = int_of_string (String.sub s (epos + 1) (String.length s - epos - 1)) in
        let try_m (m : String.t) (ex : int) =
          let txt = Printf.sprintf "%s.%se%d" (String.sub m 0 1) (String.sub m 1 (String.length m - 1) ^ "0") ex in
          if float_of_string txt = a then Some (m, ex) else None in
        let bump (m : String.t) (d : int) : (String.t * int) option =
          (* m +/- 1 in the last place *)
          let z = dec_bump m d in
          match z with
          | None -> None
          | Some m' -> if String.length m' > String.length m then Some (String.sub m' 0 (String.length m), ex + 1) else Some (m', ex) in
        (match try_m mant ex with
         | Some r -> result := Some r
         | None ->
           (match bump mant 1 with Some (m', e') -> (match try_m m' e' with Some r -> result := Some r | None -> ()) | None -> ());
           if !result = None then
             (match bump mant (-1) with Some (m', e') -> (match try_m m' e' with Some r -> result := Some r | None -> ()) | None -> ()));
        incr p
      done;
      let (digits, ex) = match !result with Some r -> r | None -> failwith "float_fmt" in
      (* strip trailing zeros of the digit string *)
      let digits = let k = ref (String.length digits) in
        while !k > 1 && digits.[!k - 1] = '0' do decr k done; String.sub digits 0 !k in
      let nd = String.length digits in
      let e = ex + 1 in   (* value = 0.digits * 10^e *)
      let body =
        if e <= 0 then "0." ^ String.make (-e) '0' ^ digits
        else if e >= nd then digits ^ String.make (e - nd) '0'
        else String.sub digits 0 e ^ "." ^ String.sub digits e (nd - e) in
      (if neg then "-" else "") ^ body
    end
  end
let float_fmt (b : n) : n list = bytes_of_string (float_fmt_str (i64_of_n b))


let index_of_name (arr : String.t array) (s : String.t) : int =
  let r = ref (-1) in Array.iteri (fun i x -> if x = s then r := i) arr;
  if !r < 0 then failwith ("name not in table: " ^ s) else !r

(* ---------- values ---------- *)
let parse_val (s : String.t) : cdata =
  let body = String.sub s 1 (String.length s - 1) in
  match s.[0] with
  | 'E' -> DEnum (n_of_int (int_of_string body))
  | 'S' -> DString (unhexb body)
  | 'U' -> DUInt (n_of_u64_string body)
  | 'F' -> DFloat (n_of_u64_string (Printf.sprintf "%Lu" (Int64.of_string ("0x" ^ body))))
  | _ -> failwith ("value " ^ s)
let show_val (v : cdata) : String.t =
  match v with
  | DEnum e -> Printf.sprintf "E%d" (int_of_n e)
  | DString s -> "S" ^ hexb s
  | DUInt n -> "U" ^ u64_string n
  | DFloat b -> Printf.sprintf "F%016Lx" (i64_of_n b)

let err_name (e : err) : String.t = match e with
  | ItemDeleted -> "ItemDeleted" | ParentElementLocked -> "ParentElementLocked" | ElementNotIdentifiable -> "ElementNotIdentifiable"
  | ItemNameRequired -> "ItemNameRequired" | IncorrectContentType -> "IncorrectContentType"
  | ElementInsertionConflict -> "ElementInsertionConflict" | InvalidSubElement -> "InvalidSubElement"
  | ElementNotFound -> "ElementNotFound" | ShortNameRemovalForbidden -> "ShortNameRemovalForbidden"
  | NotReferenceElement -> "NotReferenceElement" | InvalidReference -> "InvalidReference" | DuplicateItemName -> "DuplicateItemName"
  | ForbiddenMoveToSubElement -> "ForbiddenMoveToSubElement" | ForbiddenCopyOfParent -> "ForbiddenCopyOfParent"
  | InvalidPosition -> "InvalidPosition" | VersionMismatch -> "VersionMismatch" | VersionIncompatibleData -> "VersionIncompatibleData"
  | InvalidAttribute -> "InvalidAttribute" | InvalidAttributeValue -> "InvalidAttributeValue" | NoFilesInModel -> "NoFilesInModel"
  | InvalidFile -> "InvalidFile" | FilesetModificationForbidden -> "FilesetModificationForbidden"
  | DuplicateFilenameError -> "DuplicateFilenameError" | EmptyFile -> "EmptyFile" | InvalidFileMerge -> "InvalidFileMerge"
  | OverlappingDataError -> "OverlappingDataError" | LoadError -> "LoadError"

let pkind_name (k : pkind) : String.t = match k with
  | InvalidArxmlFileHeader -> "InvalidArxmlFileHeader"
  | UnexpectedXmlFileHeader -> "UnexpectedXmlFileHeader"
  | UnknownAutosarVersion -> "UnknownAutosarVersion"
  | InvalidAutosarVersion -> "InvalidAutosarVersion"
  | IncorrectBeginElement -> "IncorrectBeginElement"
  | InvalidBeginElement -> "InvalidBeginElement"
  | IncorrectEndElement -> "IncorrectEndElement"
  | InvalidEndElement -> "InvalidEndElement"
  | ElementChoiceConflict -> "ElementChoiceConflict"
  | ElementVersionError -> "ElementVersionError"
  | TooManySubElements -> "TooManySubElements"
  | RequiredSubelementMissing -> "RequiredSubelementMissing"
  | AttributeValueError -> "AttributeValueError"
  | UnknownAttributeError -> "UnknownAttributeError"
  | AttributeVersionError -> "AttributeVersionError"
  | RequiredAttributeMissing -> "RequiredAttributeMissing"
  | CharacterContentForbidden -> "CharacterContentForbidden"
  | EnumItemVersionError -> "EnumItemVersionError"
  | UnknownEnumItem -> "UnknownEnumItem"
  | InvalidEnumItem -> "InvalidEnumItem"
  | StringValueTooLong -> "StringValueTooLong"
  | RegexMatchError -> "RegexMatchError"
  | Utf8Error -> "Utf8Error"
  | UnexpectedEndOfFile -> "UnexpectedEndOfFile"
  | InvalidNumber -> "InvalidNumber"
  | AdditionalDataError -> "AdditionalDataError"
  | InvalidXmlEntity -> "InvalidXmlEntity"

exception Stop of String.t   (* PANIC / HANG / FUEL in a query or op *)
type ('a, 'b) rr = ROk of 'a | RErr of 'b

(* run a query that must not change the world *)
let q (w : world) (m : 'a w) : ('a, String.t) rr =
  match m w with
  | Val (OK a, _) -> ROk a
  | Val (ER e, _) -> RErr (err_name e)
  | Pan s -> let s = coqstr s in raise (Stop (if String.length s >= 4 && String.sub s 0 4 = "HANG" then "HANG" else "PANIC"))
  | Fuel -> raise (Stop "HANG")

let () =
  let args = Array.to_list Sys.argv in
  let dump, script, verbose = match args with
    | [_; d; s] -> d, s, false
    | [_; d; s; "-v"] -> d, s, true
    | _ -> prerr_endline "usage: avm_tree <dump dir> <script file> [-v]"; exit 2 in
  let t = load_spec dump in
  let (tab_el, el_names) = load_names dump "Element" in
  let (tab_en, _) = load_names dump "Enum" in
  let (tab_at, at_names) = load_names dump "Attr" in
  let dfas = load_dfas dump in
  let dfa_fn (k : n) = Hashtbl.find_opt dfas (int_of_n k) in
  let check_fn = check_fn_model dfa_fn in
  let versions = List.map (fun l -> match split_ws l with [v; f] -> (int_of_string v, f) | _ -> failwith "versions.txt")
      (read_lines (Filename.concat dump "versions.txt")) in
  (* AutosarVersion::LATEST: the translator writes it as the line "LATEST <value>" when known, else the largest value *)
  let latest_v = List.fold_left (fun a (v, _) -> max a v) 0 versions in
  let latest_v = match List.filter (fun l -> match split_ws l with ["LATEST"; _] -> true | _ -> false)
                        (try read_lines (Filename.concat dump "latest.txt") with _ -> []) with
    | l :: _ -> int_of_string (List.nth (split_ws l) 1) | [] -> latest_v in
  let latest_file = List.assoc latest_v versions in
  let aid s = n_of_int (index_of_name at_names s) in
  let root_attrs = [ (aid "xsi:schemaLocation", DString (bytes_of_string ("http://autosar.org/schema/r4.0 " ^ latest_file)));
                     (aid "xmlns", DString (bytes_of_string "http://autosar.org/schema/r4.0"));
                     (aid "xmlns:xsi", DString (bytes_of_string "http://www.w3.org/2001/XMLSchema-instance")) ] in
  let name_index = n_of_int (index_of_name el_names "INDEX") in
  let name_defref = n_of_int (index_of_name el_names "DEFINITION-REF") in
  let attr_schema = aid "xsi:schemaLocation" in
  let latest = n_of_int latest_v in
  let lines = read_lines script in
  (* per-script state *)
  let empty_world = { w_nodes = (fun _ -> None); w_next = N0; w_files = []; w_models = [] } in
  let w = ref empty_world in
  let handles : n list ref = ref [] in       (* handle k = k-th element *)
  let probes : n list list ref = ref [] in
  let stopped = ref false in
  let serialize_obs = ref false in
  let hsh = ref fnv_init in
  let nlines = ref 0 in
  let out (s : String.t) = hsh := fnv_add (fnv_add !hsh s) "\n"; incr nlines; if verbose then print_endline s in
  let hnum (i : n) : String.t =
    let rec go k = function [] -> "h?" | x :: r -> if x = i then Printf.sprintf "h%d" k else go (k + 1) r in go 0 !handles in
  let hid (k : int) : n = match List.nth_opt !handles k with Some i -> i | None -> failwith (Printf.sprintf "script uses unknown handle %d" k) in
  let ints_sorted l = String.concat "," (List.map string_of_int (List.sort compare l)) in
  (* a file id >= 2^16 stands for a WeakArxmlFile whose file was dropped (Tree/Load.v drop_file): the harness prints -1 *)
  let fidx (x : n) : int = let k = int_of_n x in if k >= 65535 then -1 else k in
  let handle_index (i : n) : int = let rec go k = function [] -> 1000000 | x :: r -> if x = i then k else go (k + 1) r in go 0 !handles in
  let hlist_sorted (l : n list) = String.concat "," (List.map (fun k -> if k = 1000000 then "h?" else Printf.sprintf "h%d" k) (List.sort compare (List.map handle_index l))) in
  let text_digest (s : n list) = let t = string_of_bytes s in Printf.sprintf "%d:%016Lx" (String.length t) (fnv_add fnv_init t) in
  let res_str f = function ROk a -> "ok:" ^ f a | RErr e -> "err:" ^ e in
  let observe () =
    let wv = !w in
    List.iteri (fun mi m ->
      out (Printf.sprintf "M %d root=%s files=[%s]" mi (hnum m.m_root) (String.concat "," (List.map (fun f -> string_of_int (int_of_n f)) m.m_files)));
      (* tree dump *)
      let rec dump depth (i : n) =
        match wv.w_nodes i with
        | None -> out (Printf.sprintf "N %d %s MISSING" depth (hnum i))
        | Some nd ->
          let attrs = String.concat "," (List.map (fun (a, v) -> Printf.sprintf "%d=%s" (int_of_n a) (show_val v)) nd.n_attrs) in
          let content = String.concat "," (List.map (function CElem c -> "e" ^ hnum c | CData d -> show_val d) nd.n_content) in
          out (Printf.sprintf "N %d %s n=%d a=[%s] c=[%s] f=[%s] cm=%s" depth (hnum i) (int_of_n nd.n_name) attrs content
                 (ints_sorted (List.map fidx nd.n_files)) (match nd.n_comment with Some c -> hexb c | None -> "-"));
          if depth < 200 then List.iter (function CElem c -> dump (depth + 1) c | CData _ -> ()) nd.n_content in
      dump 0 m.m_root;
      let idents = List.sort compare (List.map (fun (p, i) -> (hexb p, hnum i)) m.m_idents) in
      List.iter (fun (p, h) -> out (Printf.sprintf "I %d %s %s" mi p h)) idents;
      List.iter (fun p ->
        let r = match q wv (q_get_by_path_live (n_of_int mi) p) with ROk (Some i) -> hnum i | _ -> "-" in
        let o = match q wv (q_refs_to (n_of_int mi) p) with ROk l -> hlist_sorted l | RErr e -> e in
        if r <> "-" || o <> "" then out (Printf.sprintf "P %d %s %s [%s]" mi (hexb p) r o)) !probes;
      (match q wv (q_check_references_live t (n_of_int mi)) with
       | ROk l -> out (Printf.sprintf "B %d [%s]" mi (hlist_sorted l)) | RErr e -> out (Printf.sprintf "B %d err:%s" mi e))
    ) wv.w_models;
    List.iteri (fun k i ->
      let par = res_str (function Some p -> hnum p | None -> "-") (q wv (q_parent i)) in
      let pos = match q wv (q_position i) with ROk (Some p) -> string_of_int (int_of_n p) | _ -> "-" in
      let path = res_str hexb (q wv (q_path t i)) in
      let md = res_str (fun m -> string_of_int (int_of_n m)) (q wv (q_model i)) in
      let fm = res_str (fun (l, fs) -> Printf.sprintf "%d:[%s]" (if l then 1 else 0) (ints_sorted (List.map fidx fs))) (q wv (q_file_membership i)) in
      let nm = match q wv (q_item_name t i) with ROk (Some s) -> hexb s | _ -> "-" in
      let ident = match q wv (q_is_identifiable t i) with ROk true -> 1 | _ -> 0 in
      let cd = match q wv (q_character_data t i) with ROk (Some d) -> show_val d | _ -> "-" in
      let reft = res_str hnum (q wv (q_get_reference_target t i)) in
      let mv = res_str (fun v -> string_of_int (int_of_n v)) (q wv (q_min_version latest i)) in
      out (Printf.sprintf "H %d par=%s pos=%s path=%s model=%s fm=%s name=%s ident=%d cd=%s reft=%s minver=%s" k par pos path md fm nm ident cd reft mv)
    ) !handles;
    List.iteri (fun k f -> out (Printf.sprintf "F %d model=%d ver=%d" k (int_of_n f.f_model) (int_of_n f.f_version))) wv.w_files;
    (* the depth-first iterators (Tree/Iter.v): model- and file-scoped, unlimited and max_depth 2 *)
    let rec nat_of_int (i : int) : nat = if i <= 0 then O else S (nat_of_int (i - 1)) in
    let rec int_of_nat (x : nat) : int = match x with O -> 0 | S y -> 1 + int_of_nat y in
    let ifuel = nat_of_int (4 * (int_of_n wv.w_next) + 4000) in
    let show_dfs r = match r with
      | Val l -> String.concat "," (List.map (fun (d, i) -> Printf.sprintf "%d:%s" (int_of_nat d) (hnum i)) l)
      | Pan _ -> raise (Stop "PANIC") | Fuel -> raise (Stop "HANG") in
    List.iteri (fun mi _ ->
      List.iter (fun md -> out (Printf.sprintf "D %d md=%d [%s]" mi md (show_dfs (model_elements_dfs ifuel (n_of_int mi) (n_of_int md) wv)))) [0; 2]) wv.w_models;
    List.iteri (fun k f ->
      if int_of_n f.f_model < List.length wv.w_models then
        List.iter (fun md -> out (Printf.sprintf "DF %d md=%d [%s]" k md (show_dfs (file_elements_dfs ifuel (n_of_int k) (n_of_int md) wv)))) [0; 2]) wv.w_files;
    if !serialize_obs then
      List.iteri (fun k _ ->
        match q_serialize_file t tab_el tab_at tab_en check_fn float_fmt attr_schema (n_of_int k) !w with
        | Val (OK s, w') -> w := w'; out (Printf.sprintf "X %d ok:%s" k (text_digest s));
          if verbose then print_endline ("  text: " ^ String.escaped (string_of_bytes s))
        | Val (ER e, w') -> w := w'; out (Printf.sprintf "X %d err:%s" k (err_name e))
        | Pan _ -> raise (Stop "PANIC")
        | Fuel -> raise (Stop "HANG")) wv.w_files
  in
  let show_perror (e : perror) : String.t = match e with
    | ErrLex (line, _) -> Printf.sprintf "L@%d" (int_of_n line)
    | ErrParse (line, k, _, _) -> Printf.sprintf "P%s@%d" (pkind_name k) (int_of_n line) in
  let run1 (o : op2) =
      (try
        let w_before = !w in
        (match run_op2 t tab_el tab_at tab_en check_fn float_parse float_fmt latest name_index name_defref attr_schema root_attrs o !w with
         | Val (r, w') ->
           w := w';
           (* C09: every load into a model that has files is also merged PURELY (Tree/MergePure.v pmerge on the trees read
              back from the heap); a difference is printed, so it surfaces as a correspondence failure *)
           (match o with
            | OpLoad (m, buffer, _, strict) ->
              let rr = (match r with OK (VLoad (f, _)) -> Some (OK f) | ER e -> Some (ER e) | _ -> None) in
              (match rr with
               | Some rr ->
                 (match check_load_buffer t latest name_defref tab_el tab_at tab_en check_fn float_parse w_before m buffer strict rr w' with
                  | Some msg -> out ("REFINE " ^ coqstr msg)
                  | None -> ())
               | None -> ())
            | _ -> ());
           let res_elem = match r with OK (V1 (VElem e)) -> Some e | _ -> None in
           handles := discover !w !handles res_elem;
           (match r with
            | OK (V1 VUnit) -> out "R OK"
            | OK (V1 (VElem e)) -> out ("R OK " ^ hnum e)
            | OK (V1 (VBool b)) -> out (if b then "R OK b1" else "R OK b0")
            | OK (V1 (VFile f)) -> out (Printf.sprintf "R OK f%d" (int_of_n f))
            | OK (V1 (VModel m)) -> out (Printf.sprintf "R OK m%d" (int_of_n m))
            | OK (VText s) -> out ("R OK text " ^ text_digest s); if verbose then print_endline ("  text: " ^ String.escaped (string_of_bytes s))
            | OK (VCompat (errs, mask)) ->
              out (Printf.sprintf "R OK compat mask=%d [%s]" (int_of_n mask)
                     (String.concat ";" (List.map (function
                        | CEAttr (e, a, m) -> Printf.sprintf "A:%s:%d:%d" (hnum e) (int_of_n a) (int_of_n m)
                        | CEAttrValue (e, a, m) -> Printf.sprintf "V:%s:%d:%d" (hnum e) (int_of_n a) (int_of_n m)
                        | CEElem (e, m) -> Printf.sprintf "E:%s:%d" (hnum e) (int_of_n m)) errs)))
            | OK (VLoad (f, ws)) -> out (Printf.sprintf "R OK f%d warn=[%s]" (int_of_n f) (String.concat ";" (List.map show_perror ws)))
            | ER e -> out ("R ERR " ^ err_name e));
           observe ()
         | Pan s -> let s = coqstr s in
           out (if String.length s >= 4 && String.sub s 0 4 = "HANG" then "R HANG" else "R PANIC");
           if verbose then print_endline ("  model site: " ^ s);
           stopped := true
         | Fuel -> out "R HANG"; stopped := true)
      with Stop what -> out ("Q " ^ what); stopped := true) in
  let flush_script idx = if idx >= 0 then Printf.printf "S %d lines=%d %016Lx\n" idx !nlines !hsh in
  let cur = ref (-1) in
  let opt_hex s = if s = "-" then None else Some (unxh s) in
  List.iter (fun line ->
    (* a script recorded against a library that behaves differently from the model can name handles the model never
       created: that ends THIS script with a Q line (a correspondence difference), not the whole run *)
    try
    match split_ws line with
    | ["SCRIPT"; k] ->
      flush_script !cur; cur := int_of_string k;
      w := empty_world; handles := []; probes := []; stopped := false; serialize_obs := false; hsh := fnv_init; nlines := 0;
      if verbose then Printf.printf "SCRIPT %d\n" !cur
    | "PATHS" :: ps -> probes := List.map unhexb ps
    | "PATHS-EMPTY" :: _ -> probes := [[]]
    | ["OBSERVE"; "serialize"] -> serialize_obs := true
    | "OP" :: name :: a when not !stopped ->
      let i k = int_of_string (List.nth a k) in
      let ni k = n_of_int (i k) in
      let h k = hid (i k) in
      let o = (match name with
        | "create_sub" -> OpCreateSub (h 0, ni 1)
        | "create_sub_at" -> OpCreateSubAt (h 0, ni 1, ni 2)
        | "create_named" -> OpCreateNamed (h 0, ni 1, unxh (List.nth a 2))
        | "create_named_at" -> OpCreateNamedAt (h 0, ni 1, unxh (List.nth a 2), ni 3)
        | "copy" -> OpCopy (h 0, h 1)
        | "copy_at" -> OpCopyAt (h 0, h 1, ni 2)
        | "move" -> OpMove (h 0, h 1)
        | "move_at" -> OpMoveAt (h 0, h 1, ni 2)
        | "remove" -> OpRemove (h 0, h 1)
        | "remove_kind" -> OpRemoveKind (h 0, ni 1)
        | "set_item_name" -> OpSetItemName (h 0, unxh (List.nth a 1))
        | "set_cdata" -> OpSetCData (h 0, parse_val (List.nth a 1))
        | "remove_cdata" -> OpRemoveCData (h 0)
        | "insert_citem" -> OpInsertCItem (h 0, unxh (List.nth a 1), ni 2)
        | "remove_citem" -> OpRemoveCItem (h 0, ni 1)
        | "set_ref_target" -> OpSetRefTarget (h 0, h 1)
        | "set_attr" -> OpSetAttr (h 0, ni 1, parse_val (List.nth a 2))
        | "remove_attr" -> OpRemoveAttr (h 0, ni 1)
        | "set_comment" -> OpSetComment (h 0, opt_hex (List.nth a 1))
        | "get_or_create" -> OpGetOrCreate (h 0, ni 1)
        | "get_or_create_named" -> OpGetOrCreateNamed (h 0, ni 1, unxh (List.nth a 2))
        | "new_model" -> OpNewModel
        | "create_file" -> OpCreateFile (ni 0, unxh (List.nth a 1), ni 2)
        | "remove_file" -> OpRemoveFile (ni 0, ni 1)
        | "add_to_file" -> OpAddToFile (h 0, ni 1)
        | "remove_from_file" -> OpRemoveFromFile (h 0, ni 1)
        | _ -> failwith ("unknown op " ^ name)) in
      run1 (Op1 o)
    | ["OP2"; "cmp_kids"; k] when not !stopped ->
      (* C14: Element::cmp (Tree/Sort.v elem_cmp) on every ordered pair of sub-elements of the handle *)
      (try
        let i = hid (int_of_string k) in
        let kids = match (!w).w_nodes i with
          | Some nd -> List.filter_map (function CElem c -> Some c | CData _ -> None) nd.n_content | None -> [] in
        let cell a b = match q !w (q_cmp t tab_el tab_at tab_en name_index name_defref a b) with
          | ROk Lt -> "<" | ROk Eq -> "=" | ROk Gt -> ">" | RErr _ -> "!" in
        out ("R OK cmp " ^ String.concat "/" (List.map (fun a -> String.concat "" (List.map (cell a) kids)) kids));
        observe ()
      with Stop what -> out ("Q " ^ what); stopped := true)
    | "OP2" :: name :: a when not !stopped ->
      let i k = int_of_string (List.nth a k) in
      let ni k = n_of_int (i k) in
      let h k = hid (i k) in
      let o = (match name with
        | "sort" -> OpSort (h 0)
        | "sort_model" -> OpSortModel (ni 0)
        | "duplicate" -> OpDuplicate (ni 0)
        | "load" -> OpLoad (ni 0, unxh (List.nth a 1), unxh (List.nth a 2), List.nth a 3 = "1")
        | "set_version" -> OpSetVersion (ni 0, ni 1)
        | "check_compat" -> OpCheckCompat (ni 0, ni 1)
        | "serialize_file" -> OpSerializeFile (ni 0)
        | "serialize_elem" -> OpSerializeElem (h 0)
        | _ -> failwith ("unknown op2 " ^ name)) in
      run1 o
    | _ -> ()
    with Failure msg -> out ("Q driver: " ^ msg); stopped := true
       | Not_found -> out "Q driver: Not_found"; stopped := true
       | Invalid_argument msg -> out ("Q driver: " ^ msg); stopped := true) lines;
  flush_script !cur
