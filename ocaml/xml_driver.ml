(* xml_driver.ml — runs the extracted Coq models of the loader (Xml/Lexer.v, Xml/Parser.v) and the writer
   (Xml/Serializer.v) on the same cases as `avh xml run` and prints the same canonical observation lines.
   Hand-written glue (trusted for the tie only, never for a theorem): table loading from the translator's text
   dump, N <-> int, printing, hashing, the two float oracles (str::parse::<f64>, f64::to_string), the
   duplicate-path check of load_buffer_internal (ERR overlap), the enumeration of the exhaustive strings. *)
open Xmlmodel

(* ---------- N / positive <-> int ---------- *)
let rec pos_of_int (i : int) : positive =
  if i = 1 then XH else if i land 1 = 0 then XO (pos_of_int (i lsr 1)) else XI (pos_of_int (i lsr 1))
let n_of_int (i : int) : n = if i = 0 then N0 else Npos (pos_of_int i)
let byte_n : n array = Array.init 256 n_of_int
let rec int_of_pos (p : positive) : int =
  match p with XH -> 1 | XO q -> 2 * int_of_pos q | XI q -> 2 * int_of_pos q + 1
let int_of_n (x : n) : int = match x with N0 -> 0 | Npos p -> int_of_pos p
let rec int_of_nat (x : nat) : int = match x with O -> 0 | S y -> 1 + int_of_nat y
(* unsigned 64-bit values: N -> Int64 bit pattern and decimal text *)
let rec i64_of_pos (p : positive) : int64 =
  match p with XH -> 1L | XO q -> Int64.shift_left (i64_of_pos q) 1 | XI q -> Int64.logor (Int64.shift_left (i64_of_pos q) 1) 1L
let i64_of_n (x : n) : int64 = match x with N0 -> 0L | Npos p -> i64_of_pos p
let n_of_i64 (v : int64) : n =
  let rec go (v : int64) : positive =
    if v = 1L then XH
    else let q = go (Int64.shift_right_logical v 1) in if Int64.logand v 1L = 0L then XO q else XI q in
  if v = 0L then N0 else Npos (go v)

let bytes_of_string (s : String.t) : n list =
  let rec go i acc = if i < 0 then acc else go (i - 1) (byte_n.(Char.code s.[i]) :: acc) in go (String.length s - 1) []
let string_of_bytes (l : n list) : String.t =
  let b = Buffer.create 64 in
  List.iter (fun x -> Buffer.add_char b (Char.chr ((int_of_n x) land 255))) l; Buffer.contents b
let rec coqstr (s : Xmlmodel.string) : String.t =
  match s with EmptyString -> "" | String (Ascii (a,b,c,d,e,f,g,h), r) ->
    let bit x k = if x then 1 lsl k else 0 in
    String.make 1 (Char.chr (bit a 0 + bit b 1 + bit c 2 + bit d 3 + bit e 4 + bit f 5 + bit g 6 + bit h 7)) ^ coqstr r

let hex_of_string (s : String.t) : String.t =
  let b = Buffer.create (2 * String.length s) in
  String.iter (fun c -> Buffer.add_string b (Printf.sprintf "%02x" (Char.code c))) s; Buffer.contents b
let unhex s = String.init (String.length s / 2) (fun i -> Char.chr (int_of_string ("0x" ^ String.sub s (2 * i) 2)))

(* ---------- FNV-1a 64 ---------- *)
let fnv_init = 0xcbf29ce484222325L
let fnv_add (h : int64) (s : String.t) : int64 =
  let h = ref h in
  String.iter (fun c -> h := Int64.mul (Int64.logxor !h (Int64.of_int (Char.code c))) 0x100000001b3L) s; !h
let fnv (s : String.t) : int64 = fnv_add fnv_init s

let read_lines path =
  let ic = open_in path in
  let rec go acc = match input_line ic with l -> go (l :: acc) | exception End_of_file -> close_in ic; List.rev acc in
  go []
let split_ws s = List.filter (fun x -> x <> "") (String.split_on_char ' ' s)

(* ---------- specification tables from the translator's text dump (same loader as driver.ml) ---------- *)
let load_spec (dump : String.t) : tables =
  let lines = Array.of_list (read_lines (Filename.concat dump "spec_tables.txt")) in
  let pos = ref 0 in
  let next () = let l = lines.(!pos) in incr pos; l in
  let kv name = match split_ws (next ()) with [k; v] when k = name -> int_of_string v | _ -> failwith ("expected " ^ name) in
  let reference_type_idx = kv "REFERENCE_TYPE_IDX" in
  let autosar_element = kv "AUTOSAR_ELEMENT" in
  let short_name = kv "SHORT_NAME" in
  let attr_dest = kv "ATTR_DEST" in
  let ncd = kv "CDATA" in
  let optn i = if i < 0 then None else Some (n_of_int i) in
  let cdata = Array.init ncd (fun _ ->
    let l = next () in
    match l.[0] with
    | 'E' -> let items = List.map (fun it -> match String.split_on_char ':' it with
                 | [a; b] -> (n_of_int (int_of_string a), n_of_int (int_of_string b)) | _ -> failwith "enum item")
               (split_ws (String.sub l 1 (String.length l - 1))) in CEnum items
    | 'P' -> (match split_ws l with [_; f; m] -> CPattern (n_of_int (int_of_string f), optn (int_of_string m)) | _ -> failwith "P")
    | 'S' -> (match split_ws l with [_; p; m] -> CString (p = "1", optn (int_of_string m)) | _ -> failwith "S")
    | 'U' -> CUInt | 'F' -> CFloat | _ -> failwith "cdata kind") in
  let ints l = List.map int_of_string (split_ws l) in
  let nel = kv "ELEMENTS" in
  let elements = Array.init nel (fun _ -> match ints (next ()) with
    | [a;b;c;d;e;f] -> { ed_name = n_of_int a; ed_type = n_of_int b; ed_mult = n_of_int c; ed_ordered = n_of_int d;
                         ed_split = n_of_int e; ed_restrict = n_of_int f } | _ -> failwith "element") in
  let nsub = kv "SUBELEMENTS" in
  let subs = Array.init nsub (fun _ -> match ints (next ()) with [a;b] -> (n_of_int a, n_of_int b) | _ -> failwith "sub") in
  let nat = kv "ATTRIBUTES" in
  let attrs = Array.init nat (fun _ -> match ints (next ()) with [a;b;c] -> ((n_of_int a, n_of_int b), n_of_int c) | _ -> failwith "attr") in
  let ndt = kv "DATATYPES" in
  let dts = Array.init ndt (fun _ -> match ints (next ()) with
    | [a;b;c;d;e;f;g;h;i;j] -> { dt_sub_start = n_of_int a; dt_sub_end = n_of_int b; dt_sub_ver = n_of_int c;
        dt_attr_start = n_of_int d; dt_attr_end = n_of_int e; dt_attr_ver = n_of_int f; dt_cdata = n_of_int g;
        dt_mode = n_of_int h; dt_ref_start = n_of_int i; dt_ref_end = n_of_int j } | _ -> failwith "dt") in
  let nvi = kv "VERSION_INFO" in
  let vi = Array.of_list (List.map n_of_int (ints (next ()))) in
  assert (Array.length vi = nvi);
  let nri = kv "REF_ITEMS" in
  let ri = Array.of_list (List.map n_of_int (ints (next ()))) in
  assert (Array.length ri = nri);
  let get a = fun (i : n) -> let k = int_of_n i in if k < Array.length a then Some a.(k) else None in
  { t_elements = get elements; n_elements = n_of_int nel; t_subelements = get subs; n_subelements = n_of_int nsub;
    t_attributes = get attrs; n_attributes = n_of_int nat; t_version_info = get vi; n_version_info = n_of_int nvi;
    t_datatypes = get dts; n_datatypes = n_of_int ndt; t_ref_items = get ri; n_ref_items = n_of_int nri;
    t_cdata = get cdata; n_cdata = n_of_int ncd; reference_type_idx = n_of_int reference_type_idx;
    autosar_element = n_of_int autosar_element; name_short_name = n_of_int short_name; attr_dest = n_of_int attr_dest }

let load_names dump kind : nametab * String.t array =
  let strs = read_lines (Filename.concat dump ("names_" ^ kind ^ ".txt")) in
  let disp = List.map (fun l -> match split_ws l with [a; b] -> (n_of_int (int_of_string a), n_of_int (int_of_string b)) | _ -> failwith "disp")
      (read_lines (Filename.concat dump ("disp_" ^ kind ^ ".txt"))) in
  ({ nt_strtab = List.map bytes_of_string strs; nt_disp = disp;
     nt_mdisp = n_of_int (List.length disp); nt_mtab = n_of_int (List.length strs) }, Array.of_list strs)

let load_dfas dump : (int, n list list * n list) Hashtbl.t =
  let h = Hashtbl.create 32 in
  let lines = Array.of_list (read_lines (Filename.concat dump "regex_dfa.txt")) in
  let i = ref 0 in
  while !i < Array.length lines do
    (match split_ws lines.(!i) with
     | "D" :: n :: rows :: acc ->
       let rows = int_of_string rows in
       let tbl = List.init rows (fun k -> List.map (fun x -> n_of_int (int_of_string x)) (split_ws lines.(!i + 1 + k))) in
       Hashtbl.replace h (int_of_string n) (tbl, List.map (fun x -> n_of_int (int_of_string x)) acc);
       i := !i + 1 + rows
     | _ -> failwith "regex_dfa.txt")
  done; h

(* ---------- ORACLE: str::parse::<f64> (core::num::dec2flt grammar; value by strtod = correctly rounded) ---------- *)
let is_digit c = c >= '0' && c <= '9'
let float_parse_str (s : String.t) : int64 option =
  let len = String.length s in
  if len = 0 then None else
  let neg = s.[0] = '-' in
  let st = if s.[0] = '-' || s.[0] = '+' then 1 else 0 in
  if st = len then None else
  let rest = String.sub s st (len - st) in
  let n = String.length rest in
  let i = ref 0 in
  let nd = ref 0 in
  while !i < n && is_digit rest.[!i] do incr i; incr nd done;
  if !i < n && rest.[!i] = '.' then begin incr i; while !i < n && is_digit rest.[!i] do incr i; incr nd done end;
  let ok_number =
    if !nd = 0 then false
    else if !i = n then true
    else if rest.[!i] = 'e' || rest.[!i] = 'E' then begin
      incr i;
      if !i < n && (rest.[!i] = '+' || rest.[!i] = '-') then incr i;
      let d0 = !i in
      while !i < n && is_digit rest.[!i] do incr i done;
      !i > d0 && !i = n
    end else false in
  if ok_number then begin
    (* strtod does not like "1." followed by e? it does; ".5" fine.  OCaml's float_of_string needs a digit before an
       exponent and accepts "1." and ".5" *)
    let v = float_of_string (if rest.[0] = '.' then "0" ^ rest else rest) in
    let v = if neg then -. v else v in
    Some (Int64.bits_of_float v)
  end else begin
    let l = String.lowercase_ascii rest in
    if l = "nan" then Some (if neg then 0xfff8000000000000L else 0x7ff8000000000000L)
    else if l = "inf" || l = "infinity" then Some (if neg then 0xfff0000000000000L else 0x7ff0000000000000L)
    else None
  end
let float_parse (b : n list) : n option =
  match float_parse_str (string_of_bytes b) with Some bits -> Some (n_of_i64 bits) | None -> None

(* ---------- ORACLE: f64::to_string (Display: shortest digits that round-trip, positional notation) ---------- *)
let dec_bump (m : String.t) (d : int) : String.t option =
  (* decimal digit string +/- 1 *)
  let b = Bytes.of_string m in
  let n = Bytes.length b in
  if d = 1 then begin
    let i = ref (n - 1) in
    while !i >= 0 && Bytes.get b !i = '9' do Bytes.set b !i '0'; decr i done;
    if !i < 0 then Some ("1" ^ Bytes.to_string b)
    else (Bytes.set b !i (Char.chr (Char.code (Bytes.get b !i) + 1)); Some (Bytes.to_string b))
  end else begin
    let i = ref (n - 1) in
    while !i >= 0 && Bytes.get b !i = '0' do Bytes.set b !i '9'; decr i done;
    if !i < 0 then None
    else (Bytes.set b !i (Char.chr (Char.code (Bytes.get b !i) - 1));
          if Bytes.get b 0 = '0' then None else Some (Bytes.to_string b))
  end
let float_fmt_str (bits : int64) : String.t =
  let v = Int64.float_of_bits bits in
  if v <> v then "NaN"
  else if v = infinity then "inf" else if v = neg_infinity then "-inf"
  else begin
    let neg = Int64.compare bits 0L < 0 in
    let a = Float.abs v in
    if a = 0.0 then (if neg then "-0" else "0") else begin
      (* shortest p such that a p-digit decimal round-trips; prefer the correctly rounded one, else a neighbour *)
      let result = ref None in
      let p = ref 1 in
      while !result = None && !p <= 17 do
        let s = Printf.sprintf "%.*e" (!p - 1) a in
        (* s = d.ddddde[+-]XX *)
        let epos = String.index s 'e' in
        let mant = String.concat "" (String.split_on_char '.' (String.sub s 0 epos)) in
        let ex = int_of_string (String.sub s (epos + 1) (String.length s - epos - 1)) in
        let try_m (m : String.t) (ex : int) =
          let txt = Printf.sprintf "%s.%se%d" (String.sub m 0 1) (String.sub m 1 (String.length m - 1) ^ "0") ex in
          if float_of_string txt = a then Some (m, ex) else None in
        let bump (m : String.t) (d : int) : (String.t * int) option =
          (* m +/- 1 in the last place *)
          let z = dec_bump m d in
          match z with
          | None -> None
          | Some m' -> if String.length m' > String.length m then Some (String.sub m' 0 (String.length m), ex + 1) else Some (m', ex) in
        (match try_m mant ex with
         | Some r -> result := Some r
         | None ->
           (match bump mant 1 with Some (m', e') -> (match try_m m' e' with Some r -> result := Some r | None -> ()) | None -> ());
           if !result = None then
             (match bump mant (-1) with Some (m', e') -> (match try_m m' e' with Some r -> result := Some r | None -> ()) | None -> ()));
        incr p
      done;
      let (digits, ex) = match !result with Some r -> r | None -> failwith "float_fmt" in
      (* strip trailing zeros of the digit string *)
      let digits = let k = ref (String.length digits) in
        while !k > 1 && digits.[!k - 1] = '0' do decr k done; String.sub digits 0 !k in
      let nd = String.length digits in
      let e = ex + 1 in   (* value = 0.digits * 10^e *)
      let body =
        if e <= 0 then "0." ^ String.make (-e) '0' ^ digits
        else if e >= nd then digits ^ String.make (e - nd) '0'
        else String.sub digits 0 e ^ "." ^ String.sub digits e (nd - e) in
      (if neg then "-" else "") ^ body
    end
  end
let float_fmt (b : n) : n list = bytes_of_string (float_fmt_str (i64_of_n b))

(* ---------- environment ---------- *)
type env = { t : tables; tel : nametab; tat : nametab; ten : nametab;
             sel : String.t array; sat : String.t array; sen : String.t array;
             check_fn : n -> n list -> bool res }

let make_env dump : env =
  let t = load_spec dump in
  let (tel, sel) = load_names dump "Element" and (tat, sat) = load_names dump "Attr" and (ten, sen) = load_names dump "Enum" in
  let dfas = load_dfas dump in
  let dfa_of (k : n) = Hashtbl.find_opt dfas (int_of_n k) in
  { t; tel; tat; ten; sel; sat; sen; check_fn = check_fn_model dfa_of }

let name_of (a : String.t array) (i : n) = let k = int_of_n i in if k < Array.length a then a.(k) else Printf.sprintf "?%d" k

let lexerr_name = function
  | IncompleteData -> "IncompleteData" | InvalidElement -> "InvalidElement"
  | InvalidProcessingInstruction -> "InvalidProcessingInstruction" | InvalidXmlHeader -> "InvalidXmlHeader"
  | InvalidComment -> "InvalidComment"
let pkind_name = function
  | InvalidArxmlFileHeader -> "InvalidArxmlFileHeader" | UnexpectedXmlFileHeader -> "UnexpectedXmlFileHeader"
  | UnknownAutosarVersion -> "UnknownAutosarVersion" | InvalidAutosarVersion -> "InvalidAutosarVersion"
  | IncorrectBeginElement -> "IncorrectBeginElement" | InvalidBeginElement -> "InvalidBeginElement"
  | IncorrectEndElement -> "IncorrectEndElement" | InvalidEndElement -> "InvalidEndElement"
  | ElementChoiceConflict -> "ElementChoiceConflict" | ElementVersionError -> "ElementVersionError"
  | TooManySubElements -> "TooManySubElements" | RequiredSubelementMissing -> "RequiredSubelementMissing"
  | AttributeValueError -> "AttributeValueError" | UnknownAttributeError -> "UnknownAttributeError"
  | AttributeVersionError -> "AttributeVersionError" | RequiredAttributeMissing -> "RequiredAttributeMissing"
  | CharacterContentForbidden -> "CharacterContentForbidden" | EnumItemVersionError -> "EnumItemVersionError"
  | UnknownEnumItem -> "UnknownEnumItem" | InvalidEnumItem -> "InvalidEnumItem"
  | StringValueTooLong -> "StringValueTooLong" | RegexMatchError -> "RegexMatchError" | Utf8Error -> "Utf8Error"
  | UnexpectedEndOfFile -> "UnexpectedEndOfFile" | InvalidNumber -> "InvalidNumber"
  | AdditionalDataError -> "AdditionalDataError" | InvalidXmlEntity -> "InvalidXmlEntity"

let perror_str (e : perror) : String.t =
  match e with
  | ErrLex (line, k) -> Printf.sprintf "lex %d %s" (int_of_n line) (lexerr_name k)
  | ErrParse (line, k, el, it) -> Printf.sprintf "parse %d %s %d %d" (int_of_n line) (pkind_name k) (int_of_n el) (int_of_n it)

let cdata_str (e : env) (c : cdata) : String.t =
  match c with
  | DEnum i -> "E:" ^ name_of e.sen i
  | DString s -> "S:" ^ hex_of_string (string_of_bytes s)
  | DUInt v -> Printf.sprintf "U:%Lu" (i64_of_n v)
  | DFloat b -> Printf.sprintf "F:%016Lx" (i64_of_n b)

let pos_str (p : nat list) : String.t =
  match p with [] -> "root" | _ -> String.concat "." (List.map (fun x -> string_of_int (int_of_nat x)) p)

(* canonical dump of a loaded file: returns (text, number of elements) *)
let dump_loaded (e : env) (root : etree) (st : pstate) : String.t * int =
  let b = Buffer.create 4096 in
  let ne = ref 0 in
  let elem_names : (String.t, n) Hashtbl.t = Hashtbl.create 64 in  (* position -> element name, for the overlap check *)
  let rec go depth (pos : int list) (ENode (name, ty, attrs, content, comment)) =
    incr ne;
    Hashtbl.replace elem_names (String.concat "." (List.rev_map string_of_int pos)) name;
    Buffer.add_string b (Printf.sprintf "E %d %s %d,%d %s\n" depth (name_of e.sel name) (int_of_n (fst ty)) (int_of_n (snd ty))
      (match comment with None -> "-" | Some c -> "c" ^ hex_of_string (string_of_bytes c)));
    List.iter (fun (an, v) -> Buffer.add_string b (Printf.sprintf "A %s=%s\n" (name_of e.sat an) (cdata_str e v))) attrs;
    List.iteri (fun i item ->
      match item with
      | Inl sub -> go (depth + 1) (i :: pos) sub
      | Inr cd -> Buffer.add_string b (Printf.sprintf "C %s\n" (cdata_str e cd))) content in
  go 0 [] root;
  Buffer.add_string b (Printf.sprintf "V %d\n" (int_of_n st.p_version));
  Buffer.add_string b (Printf.sprintf "SA %s\n" (match st.p_standalone with None -> "-" | Some true -> "yes" | Some false -> "no"));
  let seen = Hashtbl.create 16 in
  List.iter (fun (path, pos) ->
    let p = string_of_bytes path in
    if not (Hashtbl.mem seen p) then begin
      Hashtbl.replace seen p ();
      Buffer.add_string b (Printf.sprintf "I %s %s\n" (hex_of_string p) (pos_str pos)) end) (List.rev st.p_idents);
  let order = ref [] in
  let groups : (String.t, String.t list) Hashtbl.t = Hashtbl.create 16 in
  List.iter (fun (path, pos) ->
    let p = string_of_bytes path in
    (match Hashtbl.find_opt groups p with
     | None -> order := p :: !order; Hashtbl.replace groups p [pos_str pos]
     | Some l -> Hashtbl.replace groups p (pos_str pos :: l))) (List.rev st.p_refs);
  List.iter (fun p -> Buffer.add_string b (Printf.sprintf "R %s %s\n" (hex_of_string p) (String.concat ";" (List.rev (Hashtbl.find groups p)))))
    (List.rev !order);
  (Buffer.contents b, !ne)

(* load_buffer_internal (since fix b692965): every Autosar path must be unique in the new data -> OverlappingDataError
   (the model is fresh, so there is no existing identifiable to compare with) *)
let overlap (_root : etree) (st : pstate) : bool =
  let seen : (String.t, unit) Hashtbl.t = Hashtbl.create 16 in
  List.exists (fun (path, _pos) ->
    let p = string_of_bytes path in
    if Hashtbl.mem seen p then true else (Hashtbl.replace seen p (); false)) (List.rev st.p_idents)

let warnings_str (st : pstate) : String.t =
  let ws = List.rev st.p_warnings in
  Printf.sprintf "nw=%d w=[%s]" (List.length ws) (String.concat ";" (List.map perror_str ws))

(* switched to `Some knownb` by build_xmlk.sh (C01 variant): the recorded-classes predicate of Xml/RoundTripCanon.v on the loaded tree *)
let knownb_hook : (tables -> etree -> bool) option = None (* KNOWNB-HOOK *)

type outcome_line = { line : String.t; site : String.t; dump : String.t; ser : String.t option }

(* one observation: load + check_arxml_header + serialize + reload + reserialize *)
let observe (e : env) (strict : bool) (input : String.t) (with_rt : bool) : outcome_line =
  let buf = bytes_of_string input in
  let chk = match check_arxml_header false e.t e.tel e.tat e.ten e.check_fn float_parse buf with
    | Val true -> "1" | Val false -> "0" | Pan _ -> "P" | Fuel -> "FUEL" in
  let ld s b = load s e.t e.tel e.tat e.ten e.check_fn float_parse b in
  match ld strict buf with
  | Pan s -> { line = "PANIC chk=" ^ chk; site = coqstr s; dump = ""; ser = None }
  | Fuel -> { line = "FUEL chk=" ^ chk; site = ""; dump = ""; ser = None }
  | Val (Raise (err, _)) -> { line = Printf.sprintf "ERR %s chk=%s" (perror_str err) chk; site = ""; dump = ""; ser = None }
  | Val (Ret (root, st)) ->
    if overlap root st then { line = "ERR overlap chk=" ^ chk; site = ""; dump = ""; ser = None } else
    let (d, ne) = dump_loaded e root st in
    let head = Printf.sprintf "OK t=%016Lx ne=%d %s chk=%s" (fnv d) ne (warnings_str st) chk in
    let kn = match knownb_hook with Some f -> if f e.t root then "kn=1" else "kn=0" | None -> "" in
    if not with_rt then { line = head; site = kn; dump = d; ser = None } else
    match serialize_file e.t e.tel e.tat e.ten e.check_fn float_fmt st.p_version st.p_standalone root with
    | Pan s -> { line = head ^ " ser=PANIC"; site = coqstr s; dump = d; ser = None }
    | Fuel -> { line = head ^ " ser=FUEL"; site = ""; dump = d; ser = None }
    | Val text ->
      let txt = string_of_bytes text in
      let rt =
        match ld strict text with
        | Pan s -> "rt=PANIC"
        | Fuel -> "rt=FUEL"
        | Val (Raise (err, _)) -> Printf.sprintf "rt=ERR(%s)" (String.concat "_" (split_ws (perror_str err)))
        | Val (Ret (root2, st2)) ->
          if overlap root2 st2 then "rt=ERR(overlap)" else
          let (d2, _) = dump_loaded e root2 st2 in
          let s2 = match serialize_file e.t e.tel e.tat e.ten e.check_fn float_fmt st2.p_version st2.p_standalone root2 with
            | Val t2 -> Printf.sprintf "%016Lx" (fnv (string_of_bytes t2)) | Pan _ -> "PANIC" | Fuel -> "FUEL" in
          Printf.sprintf "rt=%016Lx/%d/%s" (fnv d2) (List.length st2.p_warnings) s2 in
      { line = Printf.sprintf "%s ser=%016Lx %s" head (fnv txt) rt; site = kn; dump = d; ser = Some txt }

(* ---------- output modes ---------- *)
type sink = { mutable blk : int64; mutable blk_n : int; mutable blk_idx : int; blksize : int;
              stats : (String.t, int) Hashtbl.t; mode : int (* 0 full, 1 verbose, 2 digest *) }

let stat_key (l : String.t) : String.t =
  match split_ws l with
  | "OK" :: _ :: _ :: nw :: _ -> if nw = "nw=0" then "OK" else "OK+warnings"
  | "ERR" :: "lex" :: _ :: k :: _ -> "ERR.lex." ^ k
  | "ERR" :: "parse" :: _ :: k :: _ -> "ERR.parse." ^ k
  | "ERR" :: k :: _ -> "ERR." ^ k
  | k :: _ -> k
  | [] -> "?"

let emit (s : sink) (id : String.t) (o : outcome_line) =
  let k = stat_key o.line in
  Hashtbl.replace s.stats k (1 + (try Hashtbl.find s.stats k with Not_found -> 0));
  if s.mode = 2 then begin
    s.blk <- fnv_add s.blk (id ^ " " ^ o.line ^ "\n"); s.blk_n <- s.blk_n + 1;
    if s.blk_n = s.blksize then begin
      Printf.printf "B %d %016Lx %d\n" s.blk_idx s.blk s.blk_n; s.blk <- fnv_init; s.blk_n <- 0; s.blk_idx <- s.blk_idx + 1 end
  end else begin
    print_string (id ^ " " ^ o.line); if o.site <> "" then print_string (" @" ^ o.site); print_newline ();
    if s.mode = 1 then begin
      print_string o.dump;
      (match o.ser with Some t -> Printf.printf "SER %s\n" (hex_of_string t) | None -> ())
    end
  end

let finish (s : sink) =
  if s.mode = 2 && s.blk_n > 0 then Printf.printf "B %d %016Lx %d\n" s.blk_idx s.blk s.blk_n;
  let keys = List.sort compare (Hashtbl.fold (fun k _ acc -> k :: acc) s.stats []) in
  List.iter (fun k -> Printf.printf "STAT %s %d\n" k (Hashtbl.find s.stats k)) keys

(* ---------- exhaustive strings over the 15-symbol token alphabet ---------- *)
let alphabet = "<>/?!-=\"'&;# \nx"
let exh_count maxlen = let rec go k p acc = if k > maxlen then acc else go (k + 1) (p * 15) (acc + p) in go 0 1 0
let exh_string (c : int) : String.t =
  let rec find k p off = if c < off + p then (k, c - off) else find (k + 1) (p * 15) (off + p) in
  let (k, r) = find 0 1 0 in
  let b = Bytes.make k ' ' in
  let r = ref r in
  for i = k - 1 downto 0 do Bytes.set b i alphabet.[!r mod 15]; r := !r / 15 done;
  Bytes.to_string b

let parse_opts (args : String.t list) =
  let mode = ref 0 and blk = ref 4096 and shard = ref (0, 1) and rt = ref true and only = ref (-1) in
  let rec go = function
    | "-v" :: r -> mode := 1; go r
    | "-d" :: n :: r -> mode := 2; blk := int_of_string n; go r
    | "--shard" :: k :: n :: r -> shard := (int_of_string k, int_of_string n); go r
    | "--nort" :: r -> rt := false; go r
    | "--only" :: k :: r -> only := int_of_string k; go r
    | _ :: r -> go r
    | [] -> () in
  go args; (!mode, !blk, !shard, !rt, !only)

let () =
  match Array.to_list Sys.argv with
  | _ :: "run" :: dump :: cases :: opts ->
    let (mode, blksize, (sk, sn), rt, only) = parse_opts opts in
    let e = make_env dump in
    let s = { blk = fnv_init; blk_n = 0; blk_idx = 0; blksize; stats = Hashtbl.create 32; mode } in
    let ic = open_in cases in
    let idx = ref 0 in
    (try while true do
      let l = input_line ic in
      if !idx mod sn = sk && (only < 0 || only = !idx) then begin
        match split_ws l with
        | st :: rest ->
          let is_hex h = String.length h mod 2 = 0 && String.for_all (fun c -> (c >= '0' && c <= '9') || (c >= 'a' && c <= 'f')) h in
          let hx = match rest with h :: _ when is_hex h -> h | _ -> "" in
          emit s (string_of_int !idx) (observe e (st = "1") (unhex hx) rt)
        | [] -> ()
      end;
      incr idx
    done with End_of_file -> close_in ic);
    finish s
  | _ :: "exh" :: dump :: maxlen :: prefixhex :: opts ->
    let (mode, blksize, (sk, sn), rt, only) = parse_opts opts in
    let e = make_env dump in
    let s = { blk = fnv_init; blk_n = 0; blk_idx = 0; blksize; stats = Hashtbl.create 32; mode } in
    let prefix = unhex (if prefixhex = "-" then "" else prefixhex) in
    let total = exh_count (int_of_string maxlen) in
    let c = ref sk in
    while !c < total do
      if only < 0 || only = !c then begin
        let str = prefix ^ exh_string !c in
        emit s (Printf.sprintf "%d/0" !c) (observe e false str rt);
        emit s (Printf.sprintf "%d/1" !c) (observe e true str rt)
      end;
      c := !c + sn
    done;
    finish s
  | _ :: "float" :: rest ->
    (* self-test of the two float oracles: prints bits and text for each argument *)
    List.iter (fun a -> match float_parse_str a with
      | Some b -> Printf.printf "%s -> %016Lx -> %s\n" a b (float_fmt_str b) | None -> Printf.printf "%s -> None\n" a) rest
  | _ -> prerr_endline "usage: avm_xml run <dump> <cases> [-v|-d <blk>] [--shard k n] [--nort] [--only i] | exh <dump> <maxlen> <prefixhex|-> ..."; exit 2
