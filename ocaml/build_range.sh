#!/bin/sh
# builds the C07 sweep model runner `_build/avm_range` from the extracted Coq model + range_driver.ml
set -e
cd "$(dirname "$0")"
python3 ../tools/coqmake.py Tree/Range.vo Tree/ValidSubs.vo Tree/Script.vo Tree/CheckFn.vo >/dev/null || { echo "coq build of Tree/Range failed"; python3 ../tools/coqmake.py Tree/Range.vo Tree/ValidSubs.vo Tree/Script.vo Tree/CheckFn.vo | tail -20; exit 1; }
mkdir -p gen _build/range
stamp=$(cat ../coq/Tree/Heap.v ../coq/Tree/Ops.v ../coq/Tree/Script.v ../coq/Tree/Range.v ../coq/Tree/ValidSubs.v ../coq/Tree/CheckFn.v \
        ../coq/Gen/XmlVexprs.v ../coq/Spec/SpecOps.v ../coq/Hash/HashModel.v ../coq/Base/*.v ../coq/Regex/Vexpr.v ../coq/Regex/Bisim.v \
        extract_range.v range_driver.ml | md5sum | cut -d' ' -f1)
if [ -f _build/range/stamp ] && [ "$(cat _build/range/stamp)" = "$stamp" ] && [ -x _build/avm_range ]; then exit 0; fi
( cd gen && cp ../extract_range.v extract_range_run.v && coqc -w none -Q ../../coq AV extract_range_run.v >/dev/null && rm -f extract_range_run.vo extract_range_run.glob extract_range_run.vok extract_range_run.vos .extract_range_run.aux )
cp gen/rangemodel.ml gen/rangemodel.mli range_driver.ml _build/range/
cd _build/range
ocamlfind ocamlopt -O3 -w -a -c rangemodel.mli
ocamlfind ocamlopt -O3 -w -a -c rangemodel.ml
ocamlfind ocamlopt -O3 -w -a -c range_driver.ml
ocamlfind ocamlopt -O3 -w -a rangemodel.cmx range_driver.cmx -o ../avm_range
echo "$stamp" > stamp
