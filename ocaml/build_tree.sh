#!/bin/sh
# builds the element-tree model runner `_build/avm_tree` from the extracted Coq model + tree_driver.ml
set -e
cd "$(dirname "$0")"
python3 ../tools/coqmake.py Tree/Script2.vo Tree/CheckFn.vo Tree/MergePure.vo >/dev/null || { echo "coq build of Tree/ failed"; python3 ../tools/coqmake.py Tree/Script2.vo Tree/CheckFn.vo Tree/MergePure.vo | tail -20; exit 1; }
mkdir -p gen _build/tree
stamp=$(cat ../coq/Tree/*.v ../coq/Xml/Parser.v ../coq/Xml/Lexer.v ../coq/Xml/Serializer.v ../coq/Gen/XmlVexprs.v \
        ../coq/Spec/SpecOps.v ../coq/Hash/HashModel.v ../coq/Base/*.v ../coq/Regex/Vexpr.v ../coq/Regex/Bisim.v \
        extract_tree.v tree_driver.ml | md5sum | cut -d' ' -f1)
if [ -f _build/tree/stamp ] && [ "$(cat _build/tree/stamp)" = "$stamp" ] && [ -x _build/avm_tree ]; then exit 0; fi
( cd gen && cp ../extract_tree.v extract_tree_run.v && coqc -w none -Q ../../coq AV extract_tree_run.v >/dev/null && rm -f extract_tree_run.vo extract_tree_run.glob extract_tree_run.vok extract_tree_run.vos .extract_tree_run.aux )
cp gen/treemodel.ml gen/treemodel.mli tree_driver.ml _build/tree/
cd _build/tree
ocamlfind ocamlopt -O3 -w -a -c treemodel.mli
ocamlfind ocamlopt -O3 -w -a -c treemodel.ml
ocamlfind ocamlopt -O3 -w -a -c tree_driver.ml
ocamlfind ocamlopt -O3 -w -a treemodel.cmx tree_driver.cmx -o ../avm_tree
echo "$stamp" > stamp
