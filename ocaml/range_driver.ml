(* range_driver.ml — the model side of the C07 sweep (`avh range sweep` is the implementation side): for every plan line
   (ElementType, version) a node of that type is placed in a one-file model and the extracted Coq functions
   (Tree/Ops.v calc_element_insert_range + create_*, Tree/ValidSubs.v list_valid_sub_elements, Tree/Range.v orderedb) print the
   same canonical lines.  Hand-written glue (trusted for the tie only): table loading, N <-> int, enumeration, printing, hashing. *)
open Rangemodel

let rec pos_of_int (i : int) : positive =
  if i = 1 then XH else if i land 1 = 0 then XO (pos_of_int (i lsr 1)) else XI (pos_of_int (i lsr 1))
let n_of_int (i : int) : n = if i = 0 then N0 else Npos (pos_of_int i)
let byte_n : n array = Array.init 256 n_of_int
let rec int_of_pos (p : positive) : int =
  match p with XH -> 1 | XO q -> 2 * int_of_pos q | XI q -> 2 * int_of_pos q + 1
let int_of_n (x : n) : int = match x with N0 -> 0 | Npos p -> int_of_pos p
let rec nat_of_int (i : int) : nat = if i = 0 then O else S (nat_of_int (i - 1))

let bytes_of_string (s : String.t) : n list =
  let rec go i acc = if i < 0 then acc else go (i - 1) (byte_n.(Char.code s.[i]) :: acc) in go (String.length s - 1) []
let rec coqstr (s : Rangemodel.string) : String.t =
  match s with EmptyString -> "" | String (Ascii (a,b,c,d,e,f,g,h), r) ->
    let bit x k = if x then 1 lsl k else 0 in
    String.make 1 (Char.chr (bit a 0 + bit b 1 + bit c 2 + bit d 3 + bit e 4 + bit f 5 + bit g 6 + bit h 7)) ^ coqstr r

let fnv_init = 0xcbf29ce484222325L
let fnv_add (h : int64) (s : String.t) : int64 =
  let h = ref h in
  String.iter (fun c -> h := Int64.mul (Int64.logxor !h (Int64.of_int (Char.code c))) 0x100000001b3L) s; !h

let read_lines path =
  let ic = open_in path in
  let rec go acc = match input_line ic with l -> go (l :: acc) | exception End_of_file -> close_in ic; List.rev acc in
  go []
let split_ws s = List.filter (fun x -> x <> "") (String.split_on_char ' ' s)

(* ---------- specification tables from the translator's text dump (same loader as tree_driver.ml) ---------- *)
let load_spec (dump : String.t) : tables =
  let lines = Array.of_list (read_lines (Filename.concat dump "spec_tables.txt")) in
  let pos = ref 0 in
  let next () = let l = lines.(!pos) in incr pos; l in
  let kv name = match split_ws (next ()) with [k; v] when k = name -> int_of_string v | _ -> failwith ("expected " ^ name) in
  let reference_type_idx = kv "REFERENCE_TYPE_IDX" in
  let autosar_element = kv "AUTOSAR_ELEMENT" in
  let short_name = kv "SHORT_NAME" in
  let attr_dest = kv "ATTR_DEST" in
  let ncd = kv "CDATA" in
  let optn i = if i < 0 then None else Some (n_of_int i) in
  let cdata = Array.init ncd (fun _ ->
    let l = next () in
    match l.[0] with
    | 'E' -> let items = List.map (fun it -> match String.split_on_char ':' it with
                 | [a; b] -> (n_of_int (int_of_string a), n_of_int (int_of_string b)) | _ -> failwith "enum item")
               (split_ws (String.sub l 1 (String.length l - 1))) in CEnum items
    | 'P' -> (match split_ws l with [_; f; m] -> CPattern (n_of_int (int_of_string f), optn (int_of_string m)) | _ -> failwith "P")
    | 'S' -> (match split_ws l with [_; p; m] -> CString (p = "1", optn (int_of_string m)) | _ -> failwith "S")
    | 'U' -> CUInt | 'F' -> CFloat | _ -> failwith "cdata kind") in
  let ints l = List.map int_of_string (split_ws l) in
  let nel = kv "ELEMENTS" in
  let elements = Array.init nel (fun _ -> match ints (next ()) with
    | [a;b;c;d;e;f] -> { ed_name = n_of_int a; ed_type = n_of_int b; ed_mult = n_of_int c; ed_ordered = n_of_int d;
                         ed_split = n_of_int e; ed_restrict = n_of_int f } | _ -> failwith "element") in
  let nsub = kv "SUBELEMENTS" in
  let subs = Array.init nsub (fun _ -> match ints (next ()) with [a;b] -> (n_of_int a, n_of_int b) | _ -> failwith "sub") in
  let nat = kv "ATTRIBUTES" in
  let attrs = Array.init nat (fun _ -> match ints (next ()) with [a;b;c] -> ((n_of_int a, n_of_int b), n_of_int c) | _ -> failwith "attr") in
  let ndt = kv "DATATYPES" in
  let dts = Array.init ndt (fun _ -> match ints (next ()) with
    | [a;b;c;d;e;f;g;h;i;j] -> { dt_sub_start = n_of_int a; dt_sub_end = n_of_int b; dt_sub_ver = n_of_int c;
        dt_attr_start = n_of_int d; dt_attr_end = n_of_int e; dt_attr_ver = n_of_int f; dt_cdata = n_of_int g;
        dt_mode = n_of_int h; dt_ref_start = n_of_int i; dt_ref_end = n_of_int j } | _ -> failwith "dt") in
  let nvi = kv "VERSION_INFO" in
  let vi = Array.of_list (List.map n_of_int (ints (next ()))) in
  assert (Array.length vi = nvi);
  let nri = kv "REF_ITEMS" in
  let ri = Array.of_list (List.map n_of_int (ints (next ()))) in
  assert (Array.length ri = nri);
  let get a = fun (i : n) -> let k = int_of_n i in if k < Array.length a then Some a.(k) else None in
  { t_elements = get elements; n_elements = n_of_int nel; t_subelements = get subs; n_subelements = n_of_int nsub;
    t_attributes = get attrs; n_attributes = n_of_int nat; t_version_info = get vi; n_version_info = n_of_int nvi;
    t_datatypes = get dts; n_datatypes = n_of_int ndt; t_ref_items = get ri; n_ref_items = n_of_int nri;
    t_cdata = get cdata; n_cdata = n_of_int ncd; reference_type_idx = n_of_int reference_type_idx;
    autosar_element = n_of_int autosar_element; name_short_name = n_of_int short_name; attr_dest = n_of_int attr_dest }

let load_dfas dump : (int, n list list * n list) Hashtbl.t =
  let h = Hashtbl.create 32 in
  let lines = Array.of_list (read_lines (Filename.concat dump "regex_dfa.txt")) in
  let i = ref 0 in
  while !i < Array.length lines do
    (match split_ws lines.(!i) with
     | "D" :: n :: rows :: acc ->
       let rows = int_of_string rows in
       let tbl = List.init rows (fun k -> List.map (fun x -> n_of_int (int_of_string x)) (split_ws lines.(!i + 1 + k))) in
       Hashtbl.replace h (int_of_string n) (tbl, List.map (fun x -> n_of_int (int_of_string x)) acc);
       i := !i + 1 + rows
     | _ -> failwith "regex_dfa.txt")
  done; h

let err_char (e : err) : String.t = match e with
  | InvalidPosition -> "p" | ElementInsertionConflict -> "c" | InvalidSubElement -> "i" | ItemNameRequired -> "n"
  | IncorrectContentType -> "t" | ElementNotIdentifiable -> "u" | DuplicateItemName -> "d"
  | ItemDeleted -> "[ItemDeleted]" | ParentElementLocked -> "[ParentElementLocked]" | NoFilesInModel -> "[NoFilesInModel]"
  | _ -> "[other]"

(* indices 0..l sampled down to at most cap: floor(j*l/cap) *)
let sample (l : int) (cap : int) : int list =
  if l <= cap then List.init l (fun i -> i) else List.init cap (fun j -> j * l / cap)

type 'a rr = ROk of 'a * world | RErr of err | RPanic

let run (m : 'a w) (wd : world) : 'a rr =
  match m wd with
  | Val (OK a, w') -> ROk (a, w')
  | Val (ER e, _) -> RErr e
  | Pan _ -> RPanic
  | Fuel -> RPanic

let () =
  let args = Array.to_list Sys.argv in
  let dump, plan, tier, shard, nshards, only = match args with
    | [_; d; p; t; s; n] -> d, p, t, int_of_string s, int_of_string n, None
    | [_; d; p; t; s; n; "-v"; k] -> d, p, t, int_of_string s, int_of_string n, Some (int_of_string k)
    | _ -> prerr_endline "usage: avm_range <dump dir> <plan> <tier> <shard> <nshards> [-v <plan line>]"; exit 2 in
  let t = load_spec dump in
  let dfas = load_dfas dump in
  let dfa_fn (k : n) = Hashtbl.find_opt dfas (int_of_n k) in
  let check_fn = check_fn_model dfa_fn in
  let versions = List.map (fun l -> match split_ws l with [v; f] -> (int_of_string v, f) | _ -> failwith "versions.txt")
      (read_lines (Filename.concat dump "versions.txt")) in
  let latest_v = List.fold_left (fun a (v, _) -> max a v) 0 versions in
  let latest = n_of_int latest_v in
  let short = t.name_short_name in
  let verbose = only <> None in
  let (cap1, cap2) = if tier = "thorough" then (64, 12) else (16, 3) in
  let item s = bytes_of_string s in
  List.iteri (fun k line ->
    let take = match only with Some o -> o = k | None -> k mod nshards = shard in
    if take then begin
      match split_ws line with
      | def :: typ :: v :: rest_cols ->
        (* 5th column D: the element starts with one character data item (the SHORT-NAME made by create_named_sub_element) *)
        let base_data = (match rest_cols with _ :: "D" :: _ -> true | _ -> false) in
        let def = int_of_string def and typ = int_of_string typ and v = int_of_string v in
        let hsh = ref fnv_init and nlines = ref 0 in
        let out (s : String.t) = hsh := fnv_add (fnv_add !hsh s) "\n"; incr nlines; if verbose then print_endline s in
        let ty = (n_of_int def, n_of_int typ) in
        let name = match elem t (n_of_int def) with Val e -> e.ed_name | _ -> failwith "plan: no such element definition" in
        let h = N0 in
        let node0 = { n_parent = PModel N0; n_name = name; n_type = ty; n_content = (if base_data then [CData (DString (bytes_of_string "n"))] else []); n_attrs = []; n_files = [N0]; n_comment = None } in
        let w0 = { w_nodes = (fun i -> if i = N0 then Some node0 else None); w_next = n_of_int 1;
                   w_files = [ { f_model = N0; f_name = bytes_of_string "sweep.arxml"; f_version = n_of_int v; f_standalone = None } ];
                   w_models = [ { m_root = h; m_files = [N0]; m_idents = []; m_origins = [] } ] } in
        let vn = n_of_int v in
        (* a named type starts with its SHORT-NAME, as create_named_sub_element leaves it *)
        let w0 = match is_named_in_version t ty vn with
          | Val true -> (match run (e_create_sub_element t latest h short) w0 with ROk (_, w') -> w' | _ -> w0)
          | _ -> w0 in
        let create (wd : world) (nm : n) (named : bool) (it : String.t) (pos : int option) : id rr =
          match named, pos with
          | true, Some p -> run (e_create_named_sub_element_at t check_fn latest h nm (item it) (n_of_int p)) wd
          | true, None -> run (e_create_named_sub_element t check_fn latest h nm (item it)) wd
          | false, Some p -> run (e_create_sub_element_at t latest h nm (n_of_int p)) wd
          | false, None -> run (e_create_sub_element t latest h nm) wd in
        let content_names (wd : world) : n option list =
          match wd.w_nodes h with
          | None -> []
          | Some nd -> List.map (function CElem c -> (match wd.w_nodes c with Some cn -> Some cn.n_name | None -> Some N0) | CData _ -> None) nd.n_content in
        let position_of (wd : world) (c : id) : String.t =
          match wd.w_nodes h with
          | None -> "?"
          | Some nd -> let rec go i = function [] -> "?" | CElem x :: r -> if x = c then string_of_int i else go (i + 1) r | _ :: r -> go (i + 1) r in go 0 nd.n_content in
        let listing (wd : world) : valid_info list =
          match run (list_valid_sub_elements t latest h) wd with ROk (l, _) -> l | _ -> [] in
        let scenario (wd : world) (tag : String.t) =
          let content = content_names wd in
          let len = List.length content in
          out (Printf.sprintf "C %s [%s]" tag (String.concat "," (List.map (function Some x -> string_of_int (int_of_n x) | None -> "-") content)));
          let lst = listing wd in
          out ("V " ^ String.concat " " (List.map (fun vi -> Printf.sprintf "%d:%d:%d" (int_of_n vi.vi_name) (if vi.vi_named then 1 else 0) (if vi.vi_allowed then 1 else 0)) lst));
          List.iter (fun vi ->
            let nm = vi.vi_name in
            let ni = int_of_n nm in
            (match run (q_insert_range t h nm vn) wd with
             | ROk ((lo, hi), _) -> out (Printf.sprintf "R %d %d %d" ni (int_of_n lo) (int_of_n hi))
             | RErr e -> out (Printf.sprintf "R %d E:%s" ni (err_char e))
             | RPanic -> out (Printf.sprintf "R %d PANIC" ni));
            let b = Buffer.create 16 in
            for p = 0 to len + 1 do
              match create wd nm vi.vi_named "zz9" (Some p) with
              | ROk _ -> Buffer.add_char b '1'
              | RErr e -> Buffer.add_string b (err_char e)
              | RPanic -> Buffer.add_char b '!'
            done;
            out (Printf.sprintf "P %d %s" ni (Buffer.contents b));
            (match create wd nm vi.vi_named "zz9" None with
             | ROk (c, w') -> out (Printf.sprintf "D %d %s" ni (position_of w' c))
             | RErr e -> out (Printf.sprintf "D %d %s" ni (err_char e))
             | RPanic -> out (Printf.sprintf "D %d !" ni));
            let ob = Buffer.create 16 in
            for p = 0 to len do
              Buffer.add_char ob (if orderedb t ty vn (ins content (nat_of_int p) (Some nm)) then '1' else '0')
            done;
            out (Printf.sprintf "O %d %s" ni (Buffer.contents ob))
          ) lst in
        scenario w0 "0";
        let lst = Array.of_list (listing w0) in
        let l = Array.length lst in
        (* names that the type lists more than once (with different version masks) are always part of the contents *)
        let all_names = match sub_element_spec_list t ty with Val x -> List.map (fun (((nm, _), _), _) -> nm) x | _ -> [] in
        let count nm = List.length (List.filter (fun x -> x = nm) all_names) in
        let rec take k = function [] -> [] | x :: r -> if k = 0 then [] else x :: take (k - 1) r in
        let split = take 8 (List.filter (fun i -> count lst.(i).vi_name > 1) (List.init l (fun i -> i))) in
        let s1 = List.sort_uniq compare (sample l cap1 @ split) in
        List.iter (fun i ->
          let v1 = lst.(i) in
          match create w0 v1.vi_name v1.vi_named "aa1" None with
          | ROk (_, w1) -> scenario w1 (Printf.sprintf "1.%d" i)
          | RErr e -> out (Printf.sprintf "C 1.%d FAIL %s" i (err_char e))
          | RPanic -> out (Printf.sprintf "C 1.%d FAIL !" i)) s1;
        let s2 = List.sort_uniq compare (sample l cap2 @ take 2 split) in
        List.iter (fun i ->
          let v1 = lst.(i) in
          List.iter (fun j ->
            let v2 = lst.(j) in
            match create w0 v1.vi_name v1.vi_named "aa1" None with
            | ROk (_, w1) ->
              (match create w1 v2.vi_name v2.vi_named "bb2" None with
               | ROk (_, w2) -> scenario w2 (Printf.sprintf "2.%d.%d" i j)
               | RErr e -> out (Printf.sprintf "C 2.%d.%d FAIL %s" i j (err_char e))
               | RPanic -> out (Printf.sprintf "C 2.%d.%d FAIL !" i j))
            | _ -> ()) s2) s2;
        Printf.printf "T %d %d %d %d %d %016Lx\n" k def typ v !nlines !hsh
      | _ -> ()
    end) (read_lines plan)
