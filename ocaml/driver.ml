(* driver.ml — runs the extracted Coq models (Avmodel) on the same inputs as the Rust harness `avh`
   and prints the same canonical observations.  Hand-written glue: table loading, N <-> int, printing,
   hashing.  Trusted only for the tie (correspondence), never for a theorem. *)
open Avmodel

(* ---------- N / positive <-> int ---------- *)
let rec pos_of_int (i : int) : positive =
  if i = 1 then XH else if i land 1 = 0 then XO (pos_of_int (i lsr 1)) else XI (pos_of_int (i lsr 1))
let n_of_int (i : int) : n = if i = 0 then N0 else Npos (pos_of_int i)
let rec int_of_pos (p : positive) : int =
  match p with XH -> 1 | XO q -> 2 * int_of_pos q | XI q -> 2 * int_of_pos q + 1
let int_of_n (x : n) : int = match x with N0 -> 0 | Npos p -> int_of_pos p
let rec nat_of_int (i : int) : nat = if i = 0 then O else S (nat_of_int (i - 1))

let bytes_of_string (s : String.t) : n list = List.init (String.length s) (fun i -> n_of_int (Char.code s.[i]))
let rec coqstr (s : Avmodel.string) : String.t =
  match s with EmptyString -> "" | String (Ascii (a,b,c,d,e,f,g,h), r) ->
    let bit x k = if x then 1 lsl k else 0 in
    String.make 1 (Char.chr (bit a 0 + bit b 1 + bit c 2 + bit d 3 + bit e 4 + bit f 5 + bit g 6 + bit h 7)) ^ coqstr r

(* ---------- FNV-1a 64 line hasher (same as util.rs) ---------- *)
type lh = { mutable h : int64; mutable cnt : int; verbose : bool }
let lh_new v = { h = 0xcbf29ce484222325L; cnt = 0; verbose = v }
let lh_line (l : lh) (s : String.t) =
  let f c = l.h <- Int64.mul (Int64.logxor l.h (Int64.of_int (Char.code c))) 0x100000001b3L in
  String.iter f s; f '\n'; l.cnt <- l.cnt + 1;
  if l.verbose then print_endline s

let read_lines path =
  let ic = open_in path in
  let rec go acc = match input_line ic with l -> go (l :: acc) | exception End_of_file -> close_in ic; List.rev acc in
  go []

let split_ws s = List.filter (fun x -> x <> "") (String.split_on_char ' ' s)

(* ---------- specification tables from the translator's text dump ---------- *)


let load_spec (dump : String.t) : tables =
  let lines = Array.of_list (read_lines (Filename.concat dump "spec_tables.txt")) in
  let pos = ref 0 in
  let next () = let l = lines.(!pos) in incr pos; l in
  let kv name = match split_ws (next ()) with [k; v] when k = name -> int_of_string v | _ -> failwith ("expected " ^ name) in
  let reference_type_idx = kv "REFERENCE_TYPE_IDX" in
  let autosar_element = kv "AUTOSAR_ELEMENT" in
  let short_name = kv "SHORT_NAME" in
  let attr_dest = kv "ATTR_DEST" in
  let ncd = kv "CDATA" in
  let optn i = if i < 0 then None else Some (n_of_int i) in
  let cdata = Array.init ncd (fun _ ->
    let l = next () in
    match l.[0] with
    | 'E' -> let items = List.map (fun it -> match String.split_on_char ':' it with
                 | [a; b] -> (n_of_int (int_of_string a), n_of_int (int_of_string b)) | _ -> failwith "enum item")
               (split_ws (String.sub l 1 (String.length l - 1))) in CEnum items
    | 'P' -> (match split_ws l with [_; f; m] -> CPattern (n_of_int (int_of_string f), optn (int_of_string m)) | _ -> failwith "P")
    | 'S' -> (match split_ws l with [_; p; m] -> CString (p = "1", optn (int_of_string m)) | _ -> failwith "S")
    | 'U' -> CUInt | 'F' -> CFloat | _ -> failwith "cdata kind") in
  let ints l = List.map int_of_string (split_ws l) in
  let nel = kv "ELEMENTS" in
  let elements = Array.init nel (fun _ -> match ints (next ()) with
    | [a;b;c;d;e;f] -> { ed_name = n_of_int a; ed_type = n_of_int b; ed_mult = n_of_int c; ed_ordered = n_of_int d;
                         ed_split = n_of_int e; ed_restrict = n_of_int f } | _ -> failwith "element") in
  let nsub = kv "SUBELEMENTS" in
  let subs = Array.init nsub (fun _ -> match ints (next ()) with [a;b] -> (n_of_int a, n_of_int b) | _ -> failwith "sub") in
  let nat = kv "ATTRIBUTES" in
  let attrs = Array.init nat (fun _ -> match ints (next ()) with [a;b;c] -> ((n_of_int a, n_of_int b), n_of_int c) | _ -> failwith "attr") in
  let ndt = kv "DATATYPES" in
  let dts = Array.init ndt (fun _ -> match ints (next ()) with
    | [a;b;c;d;e;f;g;h;i;j] -> { dt_sub_start = n_of_int a; dt_sub_end = n_of_int b; dt_sub_ver = n_of_int c;
        dt_attr_start = n_of_int d; dt_attr_end = n_of_int e; dt_attr_ver = n_of_int f; dt_cdata = n_of_int g;
        dt_mode = n_of_int h; dt_ref_start = n_of_int i; dt_ref_end = n_of_int j } | _ -> failwith "dt") in
  let nvi = kv "VERSION_INFO" in
  let vi = Array.of_list (List.map n_of_int (ints (next ()))) in
  assert (Array.length vi = nvi);
  let nri = kv "REF_ITEMS" in
  let ri = Array.of_list (List.map n_of_int (ints (next ()))) in
  assert (Array.length ri = nri);
  let get a = fun (i : n) -> let k = int_of_n i in if k < Array.length a then Some a.(k) else None in
  { t_elements = get elements; n_elements = n_of_int nel; t_subelements = get subs; n_subelements = n_of_int nsub;
    t_attributes = get attrs; n_attributes = n_of_int nat; t_version_info = get vi; n_version_info = n_of_int nvi;
    t_datatypes = get dts; n_datatypes = n_of_int ndt; t_ref_items = get ri; n_ref_items = n_of_int nri;
    t_cdata = get cdata; n_cdata = n_of_int ncd; reference_type_idx = n_of_int reference_type_idx;
    autosar_element = n_of_int autosar_element; name_short_name = n_of_int short_name; attr_dest = n_of_int attr_dest }

let regex_texts (dump : String.t) : (int, String.t) Hashtbl.t =
  let h = Hashtbl.create 32 in
  List.iter (fun l -> match String.index_opt l ' ' with
    | Some i -> Hashtbl.replace h (int_of_string (String.sub l 0 i)) (String.sub l (i + 1) (String.length l - i - 1))
    | None -> ()) (read_lines (Filename.concat dump "regex_texts.txt"));
  h

exception Model_panic of String.t
let valr (r : 'a res) : 'a = match r with Val a -> a | Pan s -> raise (Model_panic (coqstr s)) | Fuel -> raise (Model_panic "OUT-OF-FUEL")

let cdata_summary rx (c : cdspec) : String.t =
  let o = function None -> "-" | Some m -> string_of_int (int_of_n m) in
  match c with
  | CEnum items -> "E:" ^ String.concat "," (List.map (fun (a, b) -> Printf.sprintf "%d:%d" (int_of_n a) (int_of_n b)) items)
  | CPattern (f, m) -> Printf.sprintf "P:%s:%s" (o m) (try Hashtbl.find rx (int_of_n f) with Not_found -> "?")
  | CString (p, m) -> Printf.sprintf "S:%d:%s" (if p then 1 else 0) (o m)
  | CUInt -> "U" | CFloat -> "F"

let b2i b = if b then 1 else 0

let spec_main (args : String.t list) =
  let dump = List.hd args in
  let only = match args with [_; d; y] -> Some (int_of_string d, int_of_string y) | _ -> None in
  let t = load_spec dump in
  let rx = regex_texts dump in
  let n_names = List.length (read_lines (Filename.concat dump "names_Element.txt")) in
  let attr_lines = read_lines (Filename.concat dump "names_Attr.txt") in
  let uuid = let rec f i = function [] -> failwith "UUID" | x :: r -> if x = "UUID" then i else f (i + 1) r in f 0 attr_lines in
  let versions = List.map (fun l -> int_of_string (List.hd (split_ws l))) (read_lines (Filename.concat dump "versions.txt")) in
  let vers = versions @ [0xFFFFFFFF; 0] in
  (* BFS over reachable types *)
  let root = valr (et_new t t.autosar_element) in
  let seen = Hashtbl.create 10000 in
  let key (e : etype) = (int_of_n (fst e), int_of_n (snd e)) in
  let q = Queue.create () in
  Queue.add root q; Hashtbl.replace seen (key root) ();
  let order = ref [] in
  while not (Queue.is_empty q) do
    let e = Queue.pop q in
    order := e :: !order;
    List.iter (fun (((_, ct), _), _) ->
      if not (Hashtbl.mem seen (key ct)) then begin Hashtbl.replace seen (key ct) (); Queue.add ct q end)
      (valr (sub_element_spec_list t e))
  done;
  let types = List.rev !order in
  let observe (e : etype) (h : lh) =
    let cd = match valr (chardata_spec t e) with Some c -> cdata_summary rx c | None -> "-" in
    lh_line h (Printf.sprintf "H named=%d ref=%d mode=%d ordered=%d split=%d restrict=%d cdata=%s"
      (b2i (valr (is_named t e))) (b2i (valr (is_ref t e))) (int_of_n (valr (content_mode t e)))
      (b2i (valr (is_ordered t e))) (int_of_n (valr (splittable t e))) (int_of_n (valr (std_restriction t e))) cd);
    List.iter (fun v ->
      lh_line h (Printf.sprintf "NV %d %d %d" v (b2i (valr (is_named_in_version t e (n_of_int v))))
        (b2i (valr (splittable_in t e (n_of_int v)))))) versions;
    let probe = ref [] in
    let add x = if not (List.mem x !probe) then probe := !probe @ [x] in
    List.iter (fun (((name, ct), mask), named) ->
      lh_line h (Printf.sprintf "L %d %d %d %d %d" (int_of_n name) (int_of_n (fst ct)) (int_of_n (snd ct)) (int_of_n mask) (int_of_n named));
      add (int_of_n name)) (valr (sub_element_spec_list t e));
    let listed = !probe in
    List.iter (fun nme -> add ((nme + 1) mod n_names)) listed;
    add (int_of_n t.name_short_name); add 0;
    List.iter (fun nme ->
      List.iter (fun v ->
        match valr (find_sub_element t e (n_of_int nme) (n_of_int v)) with
        | Some (ct, idx) ->
          let o f = function None -> "-" | Some x -> f x in
          let vm = o (fun m -> string_of_int (int_of_n m)) (valr (get_sub_element_version_mask t e idx)) in
          let mu = o (fun m -> string_of_int (int_of_n m)) (valr (get_sub_element_multiplicity t e idx)) in
          let cm = int_of_n (valr (get_sub_element_container_mode t e idx)) in
          lh_line h (Printf.sprintf "F %d %d %d %d %s %s %s %d" nme v (int_of_n (fst ct)) (int_of_n (snd ct))
            (String.concat "." (List.map (fun i -> string_of_int (int_of_n i)) idx)) vm mu cm)
        | None -> lh_line h (Printf.sprintf "F %d %d -" nme v)) vers) !probe;
    let aprobe = ref [] in
    let adda x = if not (List.mem x !aprobe) then aprobe := !aprobe @ [x] in
    List.iter (fun (((name, _), c), req) ->
      lh_line h (Printf.sprintf "A %d %d %s" (int_of_n name) (int_of_n req) (cdata_summary rx c));
      adda (int_of_n name)) (valr (attribute_spec_list t e));
    adda (int_of_n t.attr_dest); adda uuid; adda 0;
    List.iter (fun a ->
      match valr (find_attribute_spec t e (n_of_int a)) with
      | Some (((_, c), req), ver) -> lh_line h (Printf.sprintf "G %d %s %d %d" a (cdata_summary rx c) (int_of_n req) (int_of_n ver))
      | None -> lh_line h (Printf.sprintf "G %d -" a)) !aprobe
  in
  List.iter (fun e ->
    let (d, y) = key e in
    if only = None || only = Some (d, y) then begin
      let h = lh_new (only <> None) in
      match observe e h with
      | () -> Printf.printf "T %d %d %d %016Lx\n" d y h.cnt h.h
      | exception Model_panic m -> Printf.printf "T %d %d PANIC %s\n" d y m
    end) types;
  let refs = List.filter (fun e -> valr (is_ref t e)) types in
  let named = Array.of_list (List.filter (fun e -> valr (is_named t e)) types) in
  if only = None then begin
    let h = lh_new false in
    let npairs = ref 0 and nsome = ref 0 in
    let st = ref 12345L in
    let next () =
      st := Int64.add !st 0x9E3779B97F4A7C15L;
      let z = ref !st in
      z := Int64.mul (Int64.logxor !z (Int64.shift_right_logical !z 30)) 0xBF58476D1CE4E5B9L;
      z := Int64.mul (Int64.logxor !z (Int64.shift_right_logical !z 27)) 0x94D049BB133111EBL;
      Int64.logxor !z (Int64.shift_right_logical !z 31) in
    let below n = Int64.to_int (Int64.unsigned_rem (next ()) (Int64.of_int n)) in
    List.iter (fun r ->
      for _ = 1 to 40 do
        let o = named.(below (Array.length named)) in
        incr npairs;
        let (rd, ry) = key r and (od, oy) = key o in
        match valr (reference_dest_value t r o) with
        | Some d -> incr nsome; lh_line h (Printf.sprintf "D %d %d %d %d %d" rd ry od oy (int_of_n d))
        | None -> lh_line h (Printf.sprintf "D %d %d %d %d -" rd ry od oy)
      done) refs;
    Printf.printf "DEST %d %d %016Lx\n" !npairs !nsome h.h
  end;
  Printf.printf "STAT types %d refs %d named %d\n" (List.length types) (List.length refs) (Array.length named)

(* names: evaluate the from_bytes model on SAMPLE lines of the harness: "SAMPLE kind hex result" *)
let unhex s = String.init (String.length s / 2) (fun i -> Char.chr (int_of_string ("0x" ^ String.sub s (2 * i) 2)))

let names_main (args : String.t list) =
  let dump = List.nth args 0 and samples = List.nth args 1 in
  let load kind mdisp_mtab =
    let strs = read_lines (Filename.concat dump ("names_" ^ kind ^ ".txt")) in
    let disp = List.map (fun l -> match split_ws l with [a; b] -> (n_of_int (int_of_string a), n_of_int (int_of_string b)) | _ -> failwith "disp")
        (read_lines (Filename.concat dump ("disp_" ^ kind ^ ".txt"))) in
    ignore mdisp_mtab;
    { nt_strtab = List.map bytes_of_string strs; nt_disp = disp;
      nt_mdisp = n_of_int (List.length disp); nt_mtab = n_of_int (List.length strs) } in
  let tabs = [ ("Element", load "Element" ()); ("Attr", load "Attr" ()); ("Enum", load "Enum" ()) ] in
  List.iter (fun l ->
    match split_ws l with
    | "SAMPLE" :: kind :: rest when List.mem_assoc kind tabs ->
      let hx = match rest with h :: _ when String.length h > 0 && (match h.[0] with '0'..'9' | 'a'..'f' -> true | _ -> false) && (List.length rest >= 2) -> h | _ -> "" in
      (* an empty input prints as an empty hex field, which split_ws drops *)
      let input = unhex hx in
      let r = match from_bytes (List.assoc kind tabs) (bytes_of_string input) with
        | Ok i -> Printf.sprintf "Ok %d" (int_of_n i) | Err -> "Err" | Panic -> "Panic" in
      Printf.printf "SAMPLE %s %s %s\n" kind hx r
    | _ -> ()) (read_lines samples)

let () =
  match Array.to_list Sys.argv with
  | _ :: "spec" :: rest -> spec_main rest
  | _ :: "names" :: rest -> names_main rest
  | _ -> prerr_endline "usage: avm <spec|names> ..."; exit 2
