#!/usr/bin/env python3
"""Generates coq/Tree/InvL_{3,4,5,6,Main}.v from InvProofsDetFiles{3,4,5,6,Main}.v: the same proofs for DFL
(DetFiles with the dead-node exception) over TreeInvL / PresE (Tree/InvL_Base.v, Tree/InvEBase.v)."""
import re
SRC='/verif/coq/Tree/'
files=['3','4','5','6','Main']
def src(f): return SRC+('InvProofsDetFilesMain.v' if f=='Main' else 'InvProofsDetFiles%s.v'%f)
texts={f:open(src(f)).read() for f in files}
defined=set()
for f,t in texts.items():
    for m in re.finditer(r'^\s*(?:Lemma|Theorem|Definition|Fixpoint|Ltac|Corollary|Example|Inductive|Record|Let)\s+([A-Za-z_][A-Za-z0-9_\']*)', t, re.M):
        defined.add(m.group(1))
# names of the E-port (Pres lemmas over NoOrphanP)
efiles=['Create','Remove','Files','Move','Copy']
edefined=set()
for f in efiles:
    t=open(SRC+'InvProofs%s.v'%f).read()
    for m in re.finditer(r'^\s*(?:Lemma|Theorem)\s+(Pres_[A-Za-z0-9_\']*)', t, re.M):
        edefined.add(m.group(1))
inv=[('TreeInv_same_tree','TreeInvL_same_tree'),('TreeInv_Pres','TreeInvL_PresE'),('TreeInv_step','TreeInvL_step'),
     ('Pres_stp','PresE_stp'),('Pres_ro','PresE_ro'),('Pres_bind','PresE_bind'),('Pres_try','PresE_try'),
     ('pres_tac','presE_tac'),('DF_pframe','DFL_pframe'),('DF_empty','DFL_empty'),('DF_DetFiles','DFL_DetFilesL'),
     ('DetFiles','DetFilesL'),('TreeInv','TreeInvL'),('Pres','PresE'),('DF','DFL')]
for f in files:
    t=texts[f]
    for name in sorted(defined, key=len, reverse=True):
        t=re.sub(r'(?<![A-Za-z0-9_\'])'+re.escape(name)+r'(?![A-Za-z0-9_\'])', name+'__L', t)
    for name in sorted(edefined, key=len, reverse=True):
        t=re.sub(r'(?<![A-Za-z0-9_\'])'+re.escape(name)+r'(?![A-Za-z0-9_\'])', name+'E', t)
    for a,b in inv:
        t=re.sub(r'(?<![A-Za-z0-9_\'])'+re.escape(a)+r'(?![A-Za-z0-9_\'])', b, t)
    t=t.replace('(proj1 O)','O').replace('__L','L')
    lines=t.split('\n'); head='\n'.join(lines[:14]); rest='\n'.join(lines[14:])
    for g in ['3','4','5','6']:
        head=re.sub(r'Tree\.InvProofsDetFiles%s(?![A-Za-z0-9_])'%g, 'Tree.InvProofsDetFiles%s Tree.InvL_%s'%(g,g), head)
    head=head.replace('Tree.InvProofsPrim','Tree.InvProofsPrim Tree.InvEBase Tree.InvE_Create Tree.InvE_Remove Tree.InvE_Files Tree.InvE_Move Tree.InvE_Copy Tree.InvE_Main Tree.Load Tree.InvL_Base',1)
    t=head+'\n'+rest
    if f=='6':
        t=t.replace("n_files n <> [] -> exists m0, Top w x (PModel m0).\nProof.\n  intros C D Hn Hf.",
                    "n_files n <> [] -> n_files n <> [DEAD] -> exists m0, Top w x (PModel m0).\nProof.\n  intros C D Hn Hf Hnd.")
        t=t.replace("  - exfalso. apply Hf. eapply D; eauto.\n  - eauto.","  - exfalso. destruct (D _ _ Ht Hn); auto.\n  - eauto.")
        t=t.replace("      destruct (DF_nonempty_topL _ _ _ (proj1 I) D Hn Hf) as (m0 & Ht).\n      assert (D1 : DFL (wset w s (set_files n (set_remove f (n_files n))))) by\n        (apply (DF_set_filesL w s n _ m0); [exact Hn | reflexivity | reflexivity | exact Ht | exact D]).",
                    "      assert (D1 : DFL (wset w s (set_files n (set_remove f (n_files n))))).\n      { destruct (list_eq_dec N.eq_dec (n_files n) [DEAD]) as [Hdead|Hnd].\n        - apply DFL_set_files_dead; [exact Hn| |exact D]. rewrite Hdead. unfold set_remove. cbn [filter]. match goal with |- context [if ?b then _ else _] => destruct b end; auto.\n        - destruct (DF_nonempty_topL _ _ _ (proj1 I) D Hn Hf Hnd) as (m0 & Ht).\n          apply (DF_set_filesL w s n _ m0); [exact Hn | reflexivity | reflexivity | exact Ht | exact D]. }")
        t=t.replace("(* ---------- remove_from_file ---------- *)\nLemma DF_nonempty_topL",
                    "(* ---------- remove_from_file ---------- *)\nLemma DFL_set_files_dead w s n fs : w_nodes w s = Some n -> (fs = [] \\/ fs = [DEAD]) -> DFL w -> DFL (wset w s (set_files n fs)).\nProof.\n  intros Hn Hfs D x nx Hd Hx.\n  assert (S : same_tree w (wset w s (set_files n fs))) by (eapply st_wset; eauto; reflexivity).\n  assert (Hd0 : Detached w x) by (unfold Detached in *; eapply top_same_tree; [apply same_tree_sym; exact S|exact Hd]).\n  destruct (N.eq_dec x s) as [->|Hxs].\n  - rewrite nodes_wset_eq in Hx. injection Hx as <-. exact Hfs.\n  - rewrite nodes_wset_neq in Hx by auto. eapply D; eauto.\nQed.\n\nLemma DF_nonempty_topL")
    if f=='Main':
        k=t.index("Corollary DetFiles_reachableL")
        t=t[:k]+"End Main.\n"
    t="(* GENERATED from %s by tools/c03_gen_invL.py: the same proof for DFL over TreeInvL, see Tree/InvL_Base.v *)\n"%src(f).split('/')[-1]+t
    open(SRC+'InvL_%s.v'%f,'w').write(t)
