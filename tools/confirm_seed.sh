#!/bin/bash
# confirm_seed.sh <seeded-dir-name>: in a scratch worktree of /repo (outside /repo and /verif) check that the seeded change
# (a) applies and compiles, (b) passes the complete existing test suite, (c) makes its demo fail, and (d) the demo passes without it.
# Prints CONFIRMED or NOT-CONFIRMED; removes the worktree and its build output.
set -u
name=$1
S=/verif/seeded/$name
W=/tmp/seedconfirm/$name
rm -rf $W; mkdir -p /tmp/seedconfirm
git -C /repo worktree prune
git -C /repo worktree add --detach -q $W HEAD || exit 2
export CARGO_TARGET_DIR=$W/target CARGO_NET_OFFLINE=true
cd $W
res="CONFIRMED"
demo=$(ls $S/demo/*.rs | head -1)
crate=autosar-data
grep -q "autosar-data-specification/tests" $S/demo/RUN.md $S/meta.json 2>/dev/null && crate=autosar-data-specification
(git apply $S/patch.diff || patch -p1 -F3 < $S/patch.diff) >/dev/null 2>&1 || { echo "patch does not apply"; res="NOT-CONFIRMED"; }
if [ $res = CONFIRMED ]; then
  cargo test --workspace --offline > $W.suite.log 2>&1 && echo "suite with change: green" || { echo "suite with change: RED"; res="NOT-CONFIRMED"; }
  mkdir -p $crate/tests; cp $demo $crate/tests/seed_demo.rs
  timeout 900 cargo test -p $crate --offline --test seed_demo > $W.demo1.log 2>&1 && { echo "demo with change: passes (expected failure)"; res="NOT-CONFIRMED"; } || echo "demo with change: fails (expected)"
  git checkout -q -- . 
  timeout 900 cargo test -p $crate --offline --test seed_demo > $W.demo0.log 2>&1 && echo "demo without change: passes (expected)" || { echo "demo without change: FAILS"; res="NOT-CONFIRMED"; }
fi
cd /; git -C /repo worktree remove --force $W; rm -rf $W
echo "$res $name"
