#!/usr/bin/env python3
"""tools/coqmake.py <target.vo> ...  — build Coq targets of /verif/coq under the shared build lock
(regenerates _CoqProject/Makefile when the file list changed).  Use THIS instead of calling coqc/make in coq/ directly:
several people build in parallel and a bare coqc produces 'inconsistent assumptions' errors.
Prints the tail of the make output; exit code 0 iff all targets built."""
import sys, os
sys.path.insert(0, os.path.join(os.path.dirname(os.path.dirname(os.path.abspath(__file__))), "checks"))
import lib
ok, out, dt = lib.coq_make(sys.argv[1:], timeout=int(os.environ.get("COQMAKE_TIMEOUT", "3000")), jobs=8, lock_build=False)
lines = out.strip().split("\n")
print("\n".join(lines[-int(os.environ.get("COQMAKE_TAIL", "60")):]))
print("[coqmake] ok=%s %.0fs" % (ok, dt))
sys.exit(0 if ok else 1)
