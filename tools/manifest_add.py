"""tools/manifest_add.py <id> <technique> <level text> <level note> [design_ref] — add/replace a check entry, keep not_applicable current."""
import json, sys
pid, technique, text, note = sys.argv[1:5]
ref = sys.argv[5] if len(sys.argv) > 5 else "DESIGN.md section 7, %s" % pid
m = json.load(open('/verif/MANIFEST.json'))
m['checks'] = [c for c in m['checks'] if c['property_id'] != pid]
m['checks'].append({
    "property_id": pid, "quick_cmd": "./check %s --tier quick" % pid, "thorough_cmd": "./check %s --tier thorough" % pid,
    "evidence_file": "evidence/%s.json" % pid, "replay_cmd_template": "./check %s --replay {path}" % pid, "engine": "coq",
    "level_claimed": {"category": "proof", "text": text, "design_ref": ref}, "level_note": note, "technique": technique})
m['checks'].sort(key=lambda c: c['property_id'])
claimed = {c['property_id'] for c in m['checks']}
m['not_applicable'] = [e for e in m.get('not_applicable', []) if e['property_id'] not in claimed]
json.dump(m, open('/verif/MANIFEST.json', 'w'), indent=1)
print(sorted(claimed))
