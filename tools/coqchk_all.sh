#!/bin/bash
# tools/coqchk_all.sh [ids...]: re-checks the compiled Properties/<id>.vo and everything it depends on with Coq's independent checker
# (coqchk -o prints the axioms the checked libraries rely on).  Slow (1 min to 30 min per property file): run once on the final tree, not
# in the quick tier.  Result: coqchk/<id>.txt (the CONTEXT SUMMARY) and a line in coqchk/SUMMARY.txt.
# The compiled files are checked in a private copy (COQCHK_DIR, default /tmp/coqchk_copy/coq, made by rsync when absent) so that a
# check that rebuilds /verif/coq at the same time cannot make coqchk read half-written files.
# ids: property file names without .v (C04Load, C12Locks, ... are separate closures and are checked separately).
src=/verif/coq
dir=${COQCHK_DIR:-/tmp/coqchk_copy/coq}
if [ ! -d "$dir" ]; then mkdir -p "$dir" && rsync -a --include='*/' --include='*.vo' --exclude='*' $src/ $dir/ || exit 2; fi
cd "$dir" || exit 2
ids=${@:-$(cd $src/Properties && ls *.v | sed 's/\.v$//')}
for id in $ids; do
  start=$(date +%s)
  timeout 28000 nice -n 15 coqchk -silent -o -Q . AV AV.Properties.$id > /verif/coqchk/$id.txt 2>&1
  rc=$?
  ax=$(grep -A3 "^\* Axioms" /verif/coqchk/$id.txt | tr '\n' ' ' | cut -c1-300)
  echo "$id rc=$rc seconds=$(( $(date +%s) - start )) commit=$(git -C /verif rev-parse --short HEAD) $ax" >> /verif/coqchk/SUMMARY.txt
done
