#!/bin/bash
# tools/coqchk_all.sh [ids...]: re-checks the compiled Properties/<id>.vo and everything it depends on with Coq's independent checker
# (coqchk -o prints the axioms the checked libraries rely on).  Slow (20 min to hours per property): run once on the final tree, not in
# the quick tier.  Result: coqchk/<id>.txt (the CONTEXT SUMMARY) and a line in coqchk/SUMMARY.txt.
cd /verif/coq || exit 2
ids=${@:-C01 C02 C03 C04 C05 C06 C07 C08 C09 C10 C11 C12 C13 C14 C15 C16 C17 C18 C19 C20}
for id in $ids; do
  start=$(date +%s)
  timeout 28000 nice -n 15 coqchk -silent -o -Q . AV AV.Properties.$id > ../coqchk/$id.txt 2>&1
  rc=$?
  ax=$(grep -A3 "^\* Axioms" ../coqchk/$id.txt | tr '\n' ' ' | cut -c1-300)
  echo "$id rc=$rc seconds=$(( $(date +%s) - start )) commit=$(git -C /verif rev-parse --short HEAD) $ax" >> ../coqchk/SUMMARY.txt
done
