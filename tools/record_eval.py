#!/usr/bin/env python3
"""record_eval.py <seeded-dir-name> <sandbox log> <result text> [key]: stores what the mutation sandbox run printed into meta.json"""
import json, sys, re
name, log, result = sys.argv[1:4]
key = sys.argv[4] if len(sys.argv) > 4 else "evaluation"
p = "/verif/seeded/%s/meta.json" % name
m = json.load(open(p))
lines = [l.rstrip()[:600] for l in open(log, errors="replace") if re.match(r"^===|.*obligation BROKEN|^VIOLATION|^exit=", l)]
checks = [re.search(r"check (C\d+)", l).group(1) for l in lines if l.startswith("===")]
m[key] = {"how": "tools/mutation_sandbox.sh <name> seeded/%s/patch.diff %s  (patched worktree of /repo + copy of /verif; /repo untouched)" % (name, " ".join(checks)),
          "checks": checks, "result": result, "output": lines[:14]}
json.dump(m, open(p, "w"), indent=1)
print(name, "->", result)
