#!/usr/bin/env python3
"""mutation self-test driver for C07 (sandbox only: a git worktree copy of /repo and a copy of /verif under /tmp/mt/c07seed;
/repo and /verif are never touched).  Set-up (what tools/mutation_sandbox.sh does, kept between mutations so that cargo builds
incrementally):
  MT=/tmp/mt/c07seed; mkdir -p $MT; git -C /repo worktree add -q --detach $MT/repo HEAD
  rsync -a --exclude 'harness/target*' --exclude .git --exclude 'work/tree/cache-*' --exclude replays --exclude work/c07 /verif/ $MT/verif/
  sed -i "s#/repo/#$MT/repo/#g" $MT/verif/harness/Cargo.toml; cp /repo/Cargo.lock $MT/verif/harness/Cargo.lock; mkdir -p $MT/verif/replays
  python3 tools/c07_mutation_selftest.py [M1-... ...]
  git -C /repo worktree remove --force $MT/repo; rm -rf $MT
Result 2026-10-01: all five mutations and seeded/C07-range-existing-lookup-unrestricted give exit 1, VIOLATION with a failing-input
replay (sweep plan line + DISAGREE line) and `./check C07 --replay` reproduces the failure."""
import subprocess, sys, os, re, json, glob
MT = "/tmp/mt/c07seed"
ER = "autosar-data/src/elementraw.rs"
EL = "autosar-data/src/element.rs"
MUTS = {
 "M1-start-pos-idx": (ER, "                                    start_pos = idx + 1;\n                                    end_pos = idx + 1;", "                                    start_pos = idx;\n                                    end_pos = idx + 1;"),
 "M2-choice-accepts-other-alternative": (ER, """                                end_pos = idx + 1;
                            } else {
                                return Err(AutosarDataError::ElementInsertionConflict {
                                    parent: self.element_name(),
                                    element: element_name,
                                });
                            }""", """                                end_pos = idx + 1;
                            } else {
                                end_pos = idx + 1;
                            }"""),
 "M3-multiplicity-eq-any": (ER, """                                        elemtype.get_sub_element_multiplicity(&new_element_indices)
                                    {
                                        if multiplicity != ElementMultiplicity::Any {""", """                                        elemtype.get_sub_element_multiplicity(&new_element_indices)
                                    {
                                        if multiplicity == ElementMultiplicity::Any {"""),
 "M4-create-at-position-lt-end": (ER, """        let (start_pos, end_pos) = self.calc_element_insert_range(element_name, version)?;
        if start_pos <= position && position <= end_pos {
            self.create_sub_element_inner(self_weak, element_name, position, version)""", """        let (start_pos, end_pos) = self.calc_element_insert_range(element_name, version)?;
        if start_pos <= position && position < end_pos {
            self.create_sub_element_inner(self_weak, element_name, position, version)"""),
 "M5-list-valid-ignores-version": (EL, "                if version.compatible(version_mask) {\n                    let is_named = version.compatible(named_mask);", "                if true || version.compatible(version_mask) {\n                    let is_named = version.compatible(named_mask);"),
}
def sh(cmd, **kw):
    return subprocess.run(cmd, shell=True, capture_output=True, text=True, **kw)
which = sys.argv[1:] or list(MUTS)
for name in which:
    f, old, new = MUTS[name]
    sh("git -C %s/repo checkout -q -- ." % MT)
    p = os.path.join(MT, "repo", f)
    s = open(p).read()
    assert s.count(old) == 1, (name, s.count(old))
    open(p, "w").write(s.replace(old, new))
    for r in glob.glob(MT + "/verif/replays/C07-*.json"):
        os.remove(r)
    env = dict(os.environ, VERIF_REPO=MT + "/repo")
    r = subprocess.run("cd %s/verif && timeout 3000 ./check C07 --tier quick" % MT, shell=True, capture_output=True, text=True, env=env)
    out = r.stdout + r.stderr
    open("%s/%s.log" % (MT, name), "w").write(out)
    print("=== %s exit=%d" % (name, r.returncode))
    for l in out.split("\n"):
        if l.startswith("VIOLATION") or "obligation BROKEN" in l:
            print("   ", l[:330])
    reps = re.findall(r"replay=(\S+)", out)
    if reps:
        o = json.load(open(reps[0]))
        print("    replay[0]:", {k: (str(v)[:300]) for k, v in o.items() if k in ("kind", "disagree", "plan_line", "hfail")})
        rr = subprocess.run("cd %s/verif && timeout 900 ./check C07 --replay %s | tail -3" % (MT, reps[0]), shell=True, capture_output=True, text=True, env=env)
        print("    replay run:", rr.stdout.strip().split("\n")[-1][:200])
sh("git -C %s/repo checkout -q -- ." % MT)
