#!/usr/bin/env python3
"""tools/c12_mutants.py [name ...] — mutation self-test of ./check C12 WITHOUT touching /repo or the shared harness build:
a private copy of /repo (sources only) gets one seeded defect, a private copy of the harness is built against it (plain and
with the lock hooks), and `./check C12 --tier quick` runs with C12_MUTANT_AVH / C12_MUTANT_AVH_HOOKS pointing to those
binaries (checks/c12.py swaps lib.harness_build for them).  Expected: exit 1 and a VIOLATION line with a replay per mutant.
Afterwards run `./check C12 --tier quick` once more so that evidence/C12.json is the one of the unchanged tree."""
import os, sys, subprocess, shutil, re, json, time

ROOT = "/tmp/c12mut"
MUTANTS = {
    # (file, old, new, what)
    "insert-range-check": ("autosar-data/src/elementraw.rs",
        """        let (start_pos, end_pos) = self.calc_element_insert_range(element_name, version)?;
        if start_pos <= position && position <= end_pos {
            self.create_sub_element_inner(self_weak, element_name, position, version)""",
        """        let (start_pos, end_pos) = self.calc_element_insert_range(element_name, version)?;
        if start_pos <= position || position <= end_pos {
            self.create_sub_element_inner(self_weak, element_name, position, version)""",
        "create_sub_element_at: range check before content.insert disabled (&& -> ||)"),
    "extra-unwrap": ("autosar-data/src/element.rs",
        """                let model = self.model()?;
                let version = self.min_version()?;
                let mut element = self.0.write();
                // set the DEST attribute first""",
        """                let model = self.model()?;
                let _registered = model.get_element_by_path(&new_ref).unwrap();
                let version = self.min_version()?;
                let mut element = self.0.write();
                // set the DEST attribute first""",
        "set_reference_target: extra .unwrap() on get_element_by_path(target path)"),
    "position-underflow": ("autosar-data/src/elementraw.rs",
        """            if current_position < position {
                // the first element in the subslice is moved to the last position by rotate_left
                self.content[current_position..=position].rotate_left(1);""",
        """            if current_position < position {
                // the first element in the subslice is moved to the last position by rotate_left
                self.content[current_position..=position].rotate_left(1);
            } else if current_position == position {
                self.content[position - 1..=current_position].rotate_right(1);""",
        "move_element_position: `position - 1` (underflow / wrong slice when moving to the own position 0)"),
    "model-loop": ("autosar-data/src/element.rs",
        """                    ElementOrModel::None => return Err(AutosarDataError::ItemDeleted),
                }
            };
            cur_elem = parent;""",
        """                    ElementOrModel::None => cur_elem.clone(),
                }
            };
            cur_elem = parent;""",
        "Element::model(): the None case keeps looping (a removed element never reports ItemDeleted)"),
}


def sh(cmd, cwd=None, env=None, timeout=3000):
    e = dict(os.environ)
    e["CARGO_NET_OFFLINE"] = "true"
    if env:
        e.update(env)
    p = subprocess.run(cmd, cwd=cwd, env=e, stdout=subprocess.PIPE, stderr=subprocess.STDOUT, text=True, timeout=timeout)
    return p.returncode, p.stdout


def main():
    names = sys.argv[1:] or list(MUTANTS)
    os.makedirs(ROOT, exist_ok=True)
    results = {}
    for name in names:
        f, old, new, what = MUTANTS[name]
        repo = os.path.join(ROOT, "repo")
        har = os.path.join(ROOT, "harness")
        sh(["rsync", "-a", "--delete", "--exclude", "target", "--exclude", ".git", "/repo/", repo + "/"])
        sh(["rsync", "-a", "--delete", "--exclude", "target*", "/verif/harness/", har + "/"])
        ct = open(os.path.join(har, "Cargo.toml")).read().replace('"/repo/', '"%s/' % repo)
        open(os.path.join(har, "Cargo.toml"), "w").write(ct)
        p = os.path.join(repo, f)
        src = open(p).read()
        assert src.count(old) == 1, "mutation site of %s not found exactly once" % name
        open(p, "w").write(src.replace(old, new))
        t0 = time.time()
        rc1, o1 = sh(["cargo", "build", "--offline", "--quiet"], cwd=har, env={"CARGO_TARGET_DIR": os.path.join(ROOT, "target")})
        rc2, o2 = sh(["cargo", "build", "--offline", "--quiet"], cwd=har,
                     env={"CARGO_TARGET_DIR": os.path.join(ROOT, "target-hooks"), "RUSTFLAGS": "--cfg autosar_data_verif"})
        if rc1 or rc2:
            print("MUTANT %s: build failed\n%s\n%s" % (name, o1[-800:], o2[-800:]))
            results[name] = "build-failed"
            continue
        # the binary must not change while the check runs: copy it
        a = os.path.join(ROOT, "avh_%s" % name)
        b = os.path.join(ROOT, "avh_hooks_%s" % name)
        shutil.copy(os.path.join(ROOT, "target", "debug", "avh"), a)
        shutil.copy(os.path.join(ROOT, "target-hooks", "debug", "avh"), b)
        print("MUTANT %s built in %.0fs: %s" % (name, time.time() - t0, what), flush=True)
        rc, out = sh(["./check", "C12", "--tier", "quick"], cwd="/verif", env={"C12_MUTANT_AVH": a, "C12_MUTANT_AVH_HOOKS": b, "C12_WORKDIR": "panics-mut"})
        viol = [l for l in out.split("\n") if l.startswith("VIOLATION")]
        open(os.path.join(ROOT, "check_%s.log" % name), "w").write(out)
        print("MUTANT %s: exit=%d %s" % (name, rc, viol[:3]), flush=True)
        first = None
        for l in viol:
            m = re.search(r"replay=(\S+)", l)
            if m and os.path.exists(m.group(1)):
                r = json.load(open(m.group(1)))
                first = {"replay": m.group(1), "oracle_line": r.get("oracle_line"), "steps": len(r.get("script", []))}
                keep = os.path.join(ROOT, "replay_%s.json" % name)
                shutil.copy(m.group(1), keep)
                first["kept"] = keep
                break
        results[name] = {"exit": rc, "violations": len(viol), "first": first}
    print(json.dumps(results, indent=1))


if __name__ == "__main__":
    main()
