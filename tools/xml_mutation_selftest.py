#!/usr/bin/env python3
"""Mutation self-test of ./check C01 / C02 / C08: applies seeded behavioural changes to a SCRATCH COPY of /repo
(/tmp/xmlmut/repo, with a scratch copy of the harness crate path-depending on it), runs the quick checks against the copy
(VERIF_REPO) and reports which check flags which mutation and with what replay.  /repo itself is never touched.
usage: tools/xml_mutation_selftest.py [name ...]        (no name: all mutations);   --keep keeps /tmp/xmlmut"""
import os, sys, shutil, subprocess, json, re, time, io, contextlib

SCR = "/tmp/xmlmut"
os.environ["VERIF_REPO"] = os.path.join(SCR, "repo")
VERIF = os.path.dirname(os.path.dirname(os.path.abspath(__file__)))
sys.path.insert(0, os.path.join(VERIF, "checks"))
sys.path.insert(0, os.path.join(VERIF, "translator"))

MUTATIONS = {
    # name: (file, old text, new text, checks to run, what it is)
    "lexer-comment-end-off-by-one": ("autosar-data/src/lexer.rs", "let comment = &self.buffer[startpos + 4..endpos - 2];",
                                     "let comment = &self.buffer[startpos + 4..endpos - 1];", ["C01", "C02"],
                                     "read_comment keeps one byte too many (the first '-' of '-->')"),
    "parser-strict-swallows-multiplicity": ("autosar-data/src/parser.rs", "        if self.strict {\n            Err(wrapped_err)",
                                            "        if self.strict && !matches!(wrapped_err, AutosarDataError::ParserError { source: ArxmlParserError::TooManySubElements { .. }, .. }) {\n            Err(wrapped_err)",
                                            ["C08"], "optional_error turns TooManySubElements into a warning even in strict mode"),
    "escape-text-drops-gt": ("autosar-data/src/chardata.rs", "'>' => escaped.push_str(\"&gt;\"),", "'>' => escaped.push('>'),", ["C01"],
                             "escape_text writes '>' literally"),
    "attribute-single-quote-rejected": ("autosar-data/src/parser.rs", "if quote_char != b'\"' && quote_char != b'\\'' {", "if quote_char != b'\"' {",
                                        ["C01", "C08"], "parse_attribute_text accepts only double-quoted values"),
    "multiplicity-skips-first-child": ("autosar-data/src/parser.rs", "if element.content.iter().any(|ec| {", "if element.content.iter().skip(1).any(|ec| {",
                                       ["C08"], "check_multiplicity ignores the first content item"),
    "lexer-line-count-start-tag": ("autosar-data/src/lexer.rs", "        self.line += count_lines(text);\n        self.bufpos = endpos + 1;\n        ArxmlEvent::BeginElement(elemname, attributes)",
                                   "        self.bufpos = endpos + 1;\n        ArxmlEvent::BeginElement(elemname, attributes)", ["C02"],
                                   "line feeds inside a start tag are not counted"),
    "trim-panic-returns": ("autosar-data/src/parser.rs", "while len > 0 && input[len - 1].is_ascii_whitespace()", "while input[len - 1].is_ascii_whitespace()", ["C02"],
                           "the fix 84da333 (trim_byte_string) is reverted"),
    "unescape-hex-as-decimal": ("autosar-data/src/parser.rs", "u32::from_str_radix(hextxt, 16)", "u32::from_str_radix(hextxt, 10)", ["C01"],
                                "hexadecimal character references are read with radix 10"),
    "version-check-dropped-for-attributes": ("autosar-data/src/parser.rs", "                    self.check_version(\n                        version_mask,\n                        ArxmlParserError::AttributeVersionError {",
                                             "                    if false { self.check_version(\n                        version_mask,\n                        ArxmlParserError::AttributeVersionError {", ["C08"],
                                             "(placeholder, see code) attribute version check disabled"),
}
# the last one needs a matching closing brace: handled specially below
del MUTATIONS["version-check-dropped-for-attributes"]


def sh(cmd, **kw):
    return subprocess.run(cmd, shell=True, stdout=subprocess.PIPE, stderr=subprocess.STDOUT, text=True, **kw)


def prepare():
    os.makedirs(SCR, exist_ok=True)
    repo = os.path.join(SCR, "repo")
    if os.path.exists(repo):
        shutil.rmtree(repo)
    # the current working tree of /repo (tracked files + the uncommitted hook files), without build output
    r = sh("mkdir -p %s && cd /repo && git ls-files -z --cached --others --exclude-standard | xargs -0 cp --parents -t %s" % (repo, repo))
    assert r.returncode == 0, r.stdout
    h = os.path.join(SCR, "harness")
    os.makedirs(h, exist_ok=True)
    if os.path.exists(os.path.join(h, "src")):
        shutil.rmtree(os.path.join(h, "src"))
    shutil.copytree(os.path.join(VERIF, "harness", "src"), os.path.join(h, "src"))
    toml = open(os.path.join(VERIF, "harness", "Cargo.toml")).read().replace("/repo/", repo + "/")
    open(os.path.join(h, "Cargo.toml"), "w").write(toml)
    shutil.copy(os.path.join(VERIF, "harness", "Cargo.lock"), os.path.join(h, "Cargo.lock"))


def run_checks(pids):
    import lib, xmlcommon
    lib.REPO = os.environ["VERIF_REPO"]
    xmlcommon.REPO = lib.REPO
    lib.HARNESS = os.path.join(SCR, "harness")
    lib.EVID = os.path.join(SCR, "evidence")
    lib.REPLAYS = os.path.join(SCR, "replays")
    xmlcommon.XW = os.path.join(SCR, "work")          # case files of the scratch runs
    xmlcommon.MCACHE = os.path.join(VERIF, "work", "xml", "mcache")   # the model side is the same: share its cache
    os.makedirs(lib.EVID, exist_ok=True)
    os.makedirs(lib.REPLAYS, exist_ok=True)
    res = {}
    for pid in pids:
        buf = io.StringIO()
        t0 = time.time()
        with contextlib.redirect_stdout(buf):
            try:
                rc = xmlcommon.run_check(pid, "quick", 1)
            except Exception as ex:   # a crash of the check is reported, not hidden
                rc = "crash %r" % ex
        out = buf.getvalue()
        viol = [l for l in out.split("\n") if l.startswith("VIOLATION")]
        broken = [l for l in out.split("\n") if "obligation BROKEN" in l]
        res[pid] = {"rc": rc, "violations": viol, "broken": [b[:260] for b in broken], "secs": round(time.time() - t0)}
    return res


def main():
    args = [a for a in sys.argv[1:] if not a.startswith("--")]
    names = args or list(MUTATIONS)
    prepare()
    report = {}
    # baseline on the unmodified copy: must be green (otherwise the self-test says nothing)
    base = run_checks(["C02", "C08", "C01"])
    report["baseline"] = base
    print("baseline:", {k: (v["rc"], len(v["violations"])) for k, v in base.items()}, flush=True)
    for name in names:
        f, old, new, pids, what = MUTATIONS[name]
        p = os.path.join(SCR, "repo", f)
        src = open(p).read()
        if src.count(old) != 1:
            report[name] = {"error": "anchor found %d times" % src.count(old)}
            print(name, report[name], flush=True)
            continue
        open(p, "w").write(src.replace(old, new))
        try:
            res = run_checks(pids)
        finally:
            open(p, "w").write(src)
        for pid, r in res.items():
            for v in r["violations"]:
                m = re.search(r"replay=(\S+)", v)
                if m and os.path.exists(m.group(1)):
                    d = json.load(open(m.group(1)))
                    r.setdefault("replays", []).append({k: (d[k][:300] if isinstance(d[k], str) else d[k]) for k in d
                                                        if k in ("kind", "oracle", "batch", "input_text", "observed", "expected", "mode", "tag", "broken_obligations")})
        report[name] = {"what": what, "results": res}
        print(name, {k: (v["rc"], v["violations"][:3]) for k, v in res.items()}, flush=True)
    json.dump(report, open(os.path.join(VERIF, "work", "xml", "mutation_selftest.json"), "w"), indent=1)
    if "--keep" not in sys.argv:
        shutil.rmtree(SCR, ignore_errors=True)
    return 0


if __name__ == "__main__":
    sys.exit(main())
