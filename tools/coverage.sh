#!/bin/bash
# tools/coverage.sh [check ids...]: which lines of /repo do the correspondence / oracle streams of the quick tier execute?
# Runs the quick checks in a scratch copy of /verif with an instrumented harness (-C instrument-coverage, nightly llvm-tools),
# merges the profiles and writes coverage/summary.txt (per file) and coverage/uncovered_functions.txt.  Not part of any tier;
# a measurement of generator quality (DESIGN.md 3.3), used to find shapes the generators never build.
set -u
ids=${@:-C01 C02 C03 C04 C05 C06 C07 C08 C09 C10 C11 C12 C13 C14 C15 C16 C17 C18 C19 C20}
C=/tmp/cov
LT=$(dirname $(find ~/.rustup/toolchains/nightly-x86_64-unknown-linux-gnu -name llvm-profdata | head -1))
# COV_KEEP=1 keeps the profiles of an earlier run (to add checks); result caches under work/ are NOT copied: every stream really runs
if [ "${COV_KEEP:-0}" != "1" ]; then rm -rf $C; fi
mkdir -p $C/raw
rsync -a --exclude 'harness/target' --exclude 'harness/target-hooks' --exclude '.git' --exclude 'work' --exclude 'replays' /verif/ $C/verif/
cd $C/verif
export VERIF_COV=1 LLVM_PROFILE_FILE="$C/raw/%p-%8m.profraw"
for id in $ids; do
  timeout 3000 ./check $id --tier quick > $C/$id.log 2>&1; echo "$id exit=$?" >> $C/runs.txt
done
cd $C
find raw -name '*.profraw' -size +0 > list.txt
$LT/llvm-profdata merge -sparse -f list.txt -o all.profdata 2> merge.err
objs=""
for b in verif/harness/target-cov/debug/avh verif/harness/target-hooks-cov/debug/avh; do [ -f $b ] && objs="$objs -object $b"; done
first=$(echo $objs | awk '{print $2}')
rest=$(echo $objs | cut -d' ' -f3-)
mkdir -p /verif/coverage
$LT/llvm-cov report $first $rest -instr-profile=all.profdata /repo/autosar-data/src /repo/autosar-data-specification/src > /verif/coverage/summary.txt 2> cov.err
$LT/llvm-cov report $first $rest -instr-profile=all.profdata -show-functions /repo/autosar-data/src/*.rs /repo/autosar-data-specification/src/lib.rs 2>> cov.err > $C/functions.txt
python3 - <<'PY'
import re
out=[]
cur=None
for l in open('/tmp/cov/functions.txt'):
    if l.startswith('File '):
        cur=l.strip().split("'")[1] if "'" in l else l.strip()
        continue
    w=l.split()
    if len(w)>=7 and w[-1].endswith('%') and w[3].endswith('%'):
        # name regions miss cover lines miss cover ...
        try:
            regions=int(w[1]); miss=int(w[2])
        except ValueError:
            continue
        if regions==miss and regions>0:
            out.append("%s  %s (%d regions)" % (cur, w[0], regions))
open('/verif/coverage/uncovered_functions.txt','w').write("\n".join(out)+"\n")
PY
$LT/llvm-cov show $first $rest -instr-profile=all.profdata -show-line-counts-or-regions /repo/autosar-data/src/elementraw.rs /repo/autosar-data/src/element.rs /repo/autosar-data/src/autosarmodel.rs /repo/autosar-data/src/parser.rs /repo/autosar-data/src/lexer.rs /repo/autosar-data/src/chardata.rs /repo/autosar-data/src/arxmlfile.rs /repo/autosar-data/src/iterators.rs /repo/autosar-data-specification/src/lib.rs > $C/show.txt 2>> cov.err
cat runs.txt; tail -3 /verif/coverage/summary.txt
