import re,sys
SRC='/verif/coq/Tree/'
files=['Create','Remove','Files','Move','Copy']
texts={f:open(SRC+'InvProofs%s.v'%f).read() for f in files}
defined=set()
for f,t in texts.items():
    for m in re.finditer(r'^\s*(?:Lemma|Theorem|Definition|Fixpoint|Ltac|Corollary|Example|Inductive|Record|Let)\s+([A-Za-z_][A-Za-z0-9_\']*)', t, re.M):
        defined.add(m.group(1))
    for m in re.finditer(r'^\s*Tactic Notation\s+"(\w+)"', t, re.M):
        pass
print(sorted(defined))
inv=[('NoOrphan_OrphSub','NoOrphanP_OrphSubE'),('OrphSub_weaken','OrphSubE_weaken'),('OrphSub_same_tree','OrphSubE_same_tree'),
     ('NoOrphan_same_tree','NoOrphanP_same_tree'),('TreeInv_same_tree','TreeInvL_same_tree'),('TreeInv_Pres','TreeInvL_PresE'),
     ('Pres_stp','PresE_stp'),('Pres_ro','PresE_ro'),('Pres_bind','PresE_bind'),('Pres_try','PresE_try'),
     ('pres_tac','presE_tac'),('pres_step','presE_step'),
     ('NoOrphan','NoOrphanP'),('OrphSub','OrphSubE'),('TreeInv','TreeInvL'),('Pres','PresE')]
for f in files:
    t=texts[f]
    # rename defined names first (suffix E), whole words
    for name in sorted(defined, key=len, reverse=True):
        t=re.sub(r'(?<![A-Za-z0-9_\'])'+re.escape(name)+r'(?![A-Za-z0-9_\'])', name+'__E', t)
    for a,b in inv:
        t=re.sub(r'(?<![A-Za-z0-9_\'])'+re.escape(a)+r'(?![A-Za-z0-9_\'])', b, t)
    t=re.sub(r'orphsub_(\w+)', r'orphsubE_\1', t)
    t=t.replace(': pres.',': presE.').replace('with pres','with presE')
    t=t.replace('__E','E')
    # imports: add base and E-copies of predecessors (header lines only)
    lines=t.split('\n')
    head='\n'.join(lines[:12]); rest='\n'.join(lines[12:])
    for g in files:
        head=re.sub(r'Tree\.InvProofs%s(?![A-Za-z0-9_])'%g, 'Tree.InvProofs%s Tree.InvE_%s'%(g,g), head)
    head=head.replace('Tree.InvProofsPrim','Tree.InvProofsPrim Tree.InvEBase')
    t=head+'\n'+rest
    t="(* GENERATED from Tree/InvProofs%s.v by tools/c03_gen_invE.py: the same proof over NoOrphanP (no RootsOnly), see Tree/InvEBase.v *)\n"%f+t
    open(SRC+'InvE_%s.v'%f,'w').write(t)
