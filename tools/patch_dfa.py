"""Patch entries of a REGEX_n_TABLE in /repo/autosar-data-specification/src/regex.rs, re-emitting only the
changed rows in rustfmt's fill style. Usage: see the fix scripts below (used once, to prepare fix: commits)."""
import re, sys
PATH = "/repo/autosar-data-specification/src/regex.rs"


def emit_row(row):
    lines, cur = [], "       "
    for x in row:
        tok = " %d," % x
        if len(cur) + len(tok) > 119:
            lines.append(cur)
            cur = "       "
        cur += tok
    lines.append(cur)
    return "    [\n" + "\n".join(lines) + "\n    ],"


def load(n):
    src = open(PATH).read()
    m = re.search(r"static REGEX_%d_TABLE: \[\[u8; 256\]; (\d+)usize\] = \[\n(.*?)\n\];" % n, src, re.S)
    rows_txt = re.findall(r"    \[\n.*?\n    \],", m.group(2), re.S)
    rows = [[int(x) for x in re.findall(r"\d+", r)] for r in rows_txt]
    return src, m, rows_txt, rows


def selftest(n):
    src, m, rows_txt, rows = load(n)
    for t, r in zip(rows_txt, rows):
        assert emit_row(r) == t, (n, t[:200], emit_row(r)[:200])


def patch(n, edits, new_rows=(), acc_old=None, acc_new=None):
    """edits: list of (state, byte-or-(lo,hi), newval); new_rows: list of dict byte->target (default 255)"""
    src, m, rows_txt, rows = load(n)
    body = m.group(2)
    changed = set()
    for (q, b, v) in edits:
        rng = range(b[0], b[1] + 1) if isinstance(b, tuple) else [b]
        for c in rng:
            rows[q][c] = v
        changed.add(q)
    assert "\n".join(rows_txt) == body
    body = "\n".join(emit_row(rows[q]) if q in changed else rows_txt[q] for q in range(len(rows)))
    for nr in new_rows:
        row = [255] * 256
        for k, v in nr.items():
            rng = range(k[0], k[1] + 1) if isinstance(k, tuple) else [k]
            for c in rng:
                row[c] = v
        body += "\n" + emit_row(row)
    nstates = int(m.group(1)) + len(new_rows)
    new = "static REGEX_%d_TABLE: [[u8; 256]; %dusize] = [\n%s\n];" % (n, nstates, body)
    src = src[:m.start()] + new + src[m.end():]
    if acc_old:
        f = "pub(crate) fn validate_regex_%d(" % n
        i = src.index(f)
        j = src.index("matches!(state, %s)" % acc_old, i)
        assert j - i < 400
        src = src[:j] + "matches!(state, %s)" % acc_new + src[j + len("matches!(state, %s)" % acc_old):]
    open(PATH, "w").write(src)


if __name__ == "__main__":
    for n in (2, 3, 9, 12, 13, 14, 16, 18, 21, 22, 25, 26, 28):
        selftest(n)
    print("formatter reproduces all rows")
