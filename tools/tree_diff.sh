#!/bin/sh
# tools/tree_diff.sh <script-file> <k> : run script k on both sides verbosely and show the first differences
S=$1; K=$2; W=/verif/work
awk -v k="$K" '$1=="SCRIPT"{on=($2==k)} on{print}' "$S" > $W/one_script.txt
$W/../harness/target/debug/avh tree run $W/dump $W/one_script.txt -v > $W/one_impl.txt
$W/../ocaml/_build/avm_tree $W/dump $W/one_script.txt -v > $W/one_model.txt
diff $W/one_impl.txt $W/one_model.txt | head -${3:-30}
