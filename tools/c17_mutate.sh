#!/bin/sh
# C17 mutation self-test: applies each mutation to a PRIVATE COPY of /repo (/tmp/c17mut/repo, so nobody else's build sees
# it), builds a private harness against it and runs ./check C17 with that binary.  Every mutation must end in VIOLATION.
set -e
M=/tmp/c17mut
rm -rf $M/repo $M/harness
mkdir -p $M/repo $M/harness
(cd /repo && tar cf - --exclude=target --exclude=.git .) | (cd $M/repo && tar xf -)
cp -r /verif/harness/src /verif/harness/Cargo.toml /verif/harness/Cargo.lock $M/harness/
sed -i "s#/repo/#$M/repo/#g" $M/harness/Cargo.toml
F=$M/repo/autosar-data/src/element.rs
A=$M/repo/autosar-data/src/arxmlfile.rs
cp $F $M/element.rs.orig; cp $A $M/arxmlfile.rs.orig
run() {
  name=$1
  (cd $M/harness && CARGO_TARGET_DIR=$M/target CARGO_NET_OFFLINE=true cargo build --offline --quiet 2>/dev/null) || { echo "MUTATION $name: does not compile"; return; }
  (cd $M/repo && CARGO_TARGET_DIR=$M/target-test CARGO_NET_OFFLINE=true cargo test --workspace --offline --quiet >/dev/null 2>&1) && t="tests pass" || t="TESTS FAIL"
  (cd /verif && C17_AVH_OVERRIDE=$M/target/debug/avh ./check C17 --tier quick > $M/out_$name.txt 2>&1 && echo "exit=0" >> $M/out_$name.txt || echo "exit=1" >> $M/out_$name.txt)
  nv=$(grep -c "^VIOLATION" $M/out_$name.txt || true)
  first=$(grep -m1 "^VIOLATION" $M/out_$name.txt || true)
  echo "MUTATION $name ($t): violations=$nv $(tail -1 $M/out_$name.txt)  first: $first"
  grep "obligation BROKEN" $M/out_$name.txt | cut -c1-150 | sed 's/^/    /'
  r=$(echo "$first" | sed -n 's/.*replay=\([^ ]*\).*/\1/p')
  if [ -n "$r" ]; then (cd /verif && C17_AVH_OVERRIDE=$M/target/debug/avh ./check C17 --replay $r 2>&1 | tail -1 | sed 's/^/    replay with the mutation: /' || true); fi
  cp $M/element.rs.orig $F; cp $M/arxmlfile.rs.orig $A
}
# 1 skip the attribute value check
python3 - "$F" <<'PY'
import sys; p=sys.argv[1]; s=open(p).read()
old="""                        if !is_compatible {
                            compat_errors.push(CompatibilityError::IncompatibleAttributeValue {"""
assert old in s
s=s.replace(old,"""                        if false && !is_compatible {
                            compat_errors.push(CompatibilityError::IncompatibleAttributeValue {""",1); open(p,"w").write(s)
PY
run skip-attribute-value-check
# 2 `>=` instead of the mask test for sub elements
python3 - "$F" <<'PY'
import sys; p=sys.argv[1]; s=open(p).read()
old="""                    overall_version_mask &= version_mask;
                    if !target_version.compatible(version_mask) {
                        compat_errors.push(CompatibilityError::IncompatibleElement {"""
assert old in s
s=s.replace(old,"""                    overall_version_mask &= version_mask;
                    if !(version_mask >= target_version as u32) {
                        compat_errors.push(CompatibilityError::IncompatibleElement {""",1); open(p,"w").write(s)
PY
run ge-instead-of-mask-test
# 3 forget the file filter
python3 - "$F" <<'PY'
import sys; p=sys.argv[1]; s=open(p).read()
old="if sub_element.0.read().file_membership.is_empty() || sub_element.0.read().file_membership.contains(file) {"
assert old in s
s=s.replace(old,"if true || sub_element.0.read().file_membership.contains(file) {",1); open(p,"w").write(s)
PY
run forget-file-filter
# 4 set_version ignores the errors
python3 - "$A" <<'PY'
import sys; p=sys.argv[1]; s=open(p).read()
old="""        let (compat_errors, _) = self.check_version_compatibility(new_ver);
        if compat_errors.is_empty() {"""
assert old in s
s=s.replace(old,"""        let (compat_errors, _) = self.check_version_compatibility(new_ver);
        if compat_errors.is_empty() || true {""",1); open(p,"w").write(s)
PY
run set-version-ignores-errors
# 5 (extra) the text enum check of fix dba6870 removed again
python3 - "$F" <<'PY'
import sys; p=sys.argv[1]; s=open(p).read()
old="            if let Some(value_spec) = elemtype_new.chardata_spec() {"
assert old in s
s=s.replace(old,"            if let Some(value_spec) = elemtype_new.chardata_spec().filter(|_| false) {",1); open(p,"w").write(s)
PY
run text-enum-check-removed
# 6 (extra) mask not narrowed by attribute masks
python3 - "$F" <<'PY'
import sys; p=sys.argv[1]; s=open(p).read()
old="""                {
                    overall_version_mask &= version_mask;
                    // check if the attribute is allowed at all"""
assert old in s
s=s.replace(old,"""                {
                    // check if the attribute is allowed at all""",1); open(p,"w").write(s)
PY
run attribute-mask-not-anded
echo done
