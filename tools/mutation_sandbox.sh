#!/bin/bash
# tools/mutation_sandbox.sh <name> <patch.diff> <check-id> [<check-id> ...]
# Runs the registered quick checks against a MUTATED copy of the repository without touching /repo or /verif:
#   /tmp/mt/<name>/repo   = git worktree of /repo HEAD with the patch applied
#   /tmp/mt/<name>/verif  = copy of /verif (Coq .vo and OCaml builds included, cargo target dirs excluded) whose harness
#                           path-depends on the mutated worktree; VERIF_REPO points the translator at it.
# Prints the tail of each check's output and its exit code; removes the sandbox afterwards (KEEP=1 keeps it).
set -u
NAME=$1; PATCH=$(readlink -f "$2"); shift 2
MT=/tmp/mt/$NAME
rm -rf "$MT"; mkdir -p "$MT"
git -C /repo worktree add -q --detach "$MT/repo" HEAD || exit 3
git -C "$MT/repo" apply "$PATCH" 2>/dev/null || ( cd "$MT/repo" && patch -p1 -F3 -s < "$PATCH" ) || { echo "patch does not apply"; git -C /repo worktree remove --force "$MT/repo"; exit 3; }
rsync -a --exclude 'harness/target*' --exclude '.git' --exclude 'work/tree/cache-*' --exclude 'replays' /verif/ "$MT/verif/"
sed -i "s#/repo/#$MT/repo/#g" "$MT/verif/harness/Cargo.toml"
cp /repo/Cargo.lock "$MT/verif/harness/Cargo.lock" 2>/dev/null
for id in "$@"; do
  echo "=== $NAME : ./check $id --tier quick"
  ( cd "$MT/verif" && VERIF_REPO="$MT/repo" timeout 3000 ./check "$id" --tier quick > "$MT/$id.log" 2>&1; echo "exit=$?" >> "$MT/$id.log" )
  grep -E "VIOLATION|KNOWN-FINDING|obligation BROKEN|exit=" "$MT/$id.log" | cut -c1-400 | head -20
  for r in $(grep -o "replay=[^ ]*" "$MT/$id.log" | cut -d= -f2); do echo "--- $r"; head -c 1500 "$r"; echo; done
done
if [ "${KEEP:-0}" != "1" ]; then
  git -C /repo worktree remove --force "$MT/repo"; rm -rf "$MT"
fi
