(* Properties/C04Load.v — what the loader records: the link between the parser theorems (C01/C02/C08) and the tree side
   (C04 IndexExact, C05 RefsExact, C09 StOf).  NOT imported by Properties/C04.v / C05.v.
   Models: Xml/Parser.v (p_idents / p_refs = ArxmlParser::identifiables / ::references, newest first);
   specification-side reading: Tree/MergeSpec.v idents_of / refs_of; StOf: Tree/LoadRefineIndex.v (both read-only).
   Proofs: Xml/LoadRecords.v, Xml/LoadRecordsRegular.v, Xml/LoadRecordsTree.v, Xml/LoadRecordsExamples.v.

   (a) identifiables.  The loader makes an entry (path ++ "/" ++ text, position of the PARENT element) at a SHORT-NAME
   sub-element that is the FIRST content item and whose first content item is a text; the following siblings are parsed
   under the extended path.  A SHORT-NAME without text makes no entry and leaves the path (so its element is not
   identifiable and its descendants are recorded under the parent's path - on both sides).  This is the function pidents
   of the returned tree: C04_load_records_identifiables_general, no hypothesis.  It coincides with the specification-side
   list idents_of (pre-order; an element is named iff its FIRST content item is a SHORT-NAME with text; path = names of
   the named ancestors) for every loaded tree, both modes: C04_load_records_identifiables_all.
   HISTORY: before the fix of the late SHORT-NAME defect (parser.rs made the entry at a SHORT-NAME at ANY child position,
   so a strictly accepted file could index /Pkg for an element whose item_name() is None) the coincidence needed
       LateFreeP : no SHORT-NAME with text at a child position >= 1   (decidable: late_freeb);
   the statements with that hypothesis (C04_load_records_identifiables, C04_C05_load_StOf, C04_idents_agree) are kept, they
   are now instances.  A late SHORT-NAME is now an ordinary sub-element: the element counts as having no SHORT-NAME
   (RequiredSubelementMissing: error in strict mode, warning in lenient mode), C04_records_example_late_fixed.
   (b) references: one entry (text, position) per text item of an element of the reference type = refs_of, for every
   loaded tree (C05_load_records_references), no condition on the tree.
   (c) C04_C05_load_StOf_all: StOf T st t for the final state of `load`, no condition on the tree.
   Table hypotheses: tables_ok (part of loader_hyps), sn_charsb, ref_charsb (SHORT-NAME elements / the reference type
   have content mode Characters) - all three true for the regenerated tables by evaluation (C04_real_record_tables). *)
From AV Require Import Base.Bytes Base.Outcome Hash.HashModel Spec.SpecTypes Spec.SpecOps Spec.SpecReal Xml.Lexer Xml.Parser
  Xml.TablesOk Xml.TablesOkReal Xml.StrictValidDef Xml.ParserExamples Xml.LoadRecords Xml.LoadRecordsRegular Xml.LoadRecordsTree Xml.LoadRecordsExamples.
From AV Require Import Hash.HashRealElement Hash.HashRealAttr Hash.HashRealEnum Tree.MergeSpec Tree.LoadRefineIndex.
Open Scope list_scope.
Open Scope N_scope.

(* [U] both modes, every table set, name table, validator, float oracle, byte string; no hypothesis.
   pidents / prefs : Xml/LoadRecords.v (functions of the tree only); linked: every sub-element was found by
   find_sub_element in its parent's type under its own name, with the type it carries *)
Theorem C04_load_records_identifiables_general :
  forall (T : tables) (tab_el tab_at tab_en : nametab) (check_fn : N -> list N -> res bool)
         (float_parse : list N -> option N) (s : bool) (bs : list N) (t : etree) (st : pstate),
  load s T tab_el tab_at tab_en check_fn float_parse bs = Val (Ret t st) ->
  p_idents st = rev (pidents T [] [] t) /\ p_refs st = rev (prefs T [] t) /\ linked T t /\
  et_new T (autosar_element T) = Val (e_type t).
Proof. exact load_records. Qed.

(* [U] (a) the recorded identifiables are the identifiable elements of the tree with their Autosar paths, in document
   order - every loaded tree *)
Theorem C04_load_records_identifiables_all :
  forall (T : tables) (tab_el tab_at tab_en : nametab) (check_fn : N -> list N -> res bool)
         (float_parse : list N -> option N) (s : bool) (bs : list N) (t : etree) (st : pstate),
  tables_ok T = true -> sn_charsb T = true ->
  load s T tab_el tab_at tab_en check_fn float_parse bs = Val (Ret t st) -> p_idents st = rev (idents_of T [] [] t).
Proof. exact load_idents_of_all. Qed.

(* [U] the statement as it was before the fix (LateFreeP is no longer needed) *)
Theorem C04_load_records_identifiables :
  forall (T : tables) (tab_el tab_at tab_en : nametab) (check_fn : N -> list N -> res bool)
         (float_parse : list N -> option N) (s : bool) (bs : list N) (t : etree) (st : pstate),
  tables_ok T = true -> sn_charsb T = true ->
  load s T tab_el tab_at tab_en check_fn float_parse bs = Val (Ret t st) ->
  AllNodes (LateFreeP T) t -> p_idents st = rev (idents_of T [] [] t).
Proof. exact load_idents_of. Qed.

(* [U] (b) the recorded references are the reference elements of the tree with their text, in document order *)
Theorem C05_load_records_references :
  forall (T : tables) (tab_el tab_at tab_en : nametab) (check_fn : N -> list N -> res bool)
         (float_parse : list N -> option N) (s : bool) (bs : list N) (t : etree) (st : pstate),
  tables_ok T = true -> ref_charsb T = true ->
  load s T tab_el tab_at tab_en check_fn float_parse bs = Val (Ret t st) -> p_refs st = rev (refs_of T [] t).
Proof. exact load_refs_of. Qed.

(* [U] (c) in the form of C09_merge_union_total's hypothesis - every loaded tree *)
Theorem C04_C05_load_StOf_all :
  forall (T : tables) (tab_el tab_at tab_en : nametab) (check_fn : N -> list N -> res bool)
         (float_parse : list N -> option N) (s : bool) (bs : list N) (t : etree) (st : pstate),
  tables_ok T = true -> sn_charsb T = true -> ref_charsb T = true ->
  load s T tab_el tab_at tab_en check_fn float_parse bs = Val (Ret t st) -> StOf T st t.
Proof. exact load_StOf_all. Qed.

(* [U] the statement as it was before the fix *)
Theorem C04_C05_load_StOf :
  forall (T : tables) (tab_el tab_at tab_en : nametab) (check_fn : N -> list N -> res bool)
         (float_parse : list N -> option N) (s : bool) (bs : list N) (t : etree) (st : pstate),
  tables_ok T = true -> sn_charsb T = true -> ref_charsb T = true ->
  load s T tab_el tab_at tab_en check_fn float_parse bs = Val (Ret t st) ->
  AllNodes (LateFreeP T) t -> StOf T st t.
Proof. exact load_StOf. Qed.

(* [U] the two conditions that hold for every loaded tree: a SHORT-NAME sub-element has no sub-elements; an element of
   the reference type has no content or exactly one text item *)
Theorem C04_load_sn_leaf :
  forall (T : tables) (tab_el tab_at tab_en : nametab) (check_fn : N -> list N -> res bool)
         (float_parse : list N -> option N) (s : bool) (bs : list N) (t : etree) (st : pstate),
  tables_ok T = true -> sn_charsb T = true ->
  load s T tab_el tab_at tab_en check_fn float_parse bs = Val (Ret t st) -> AllNodes (SnLeafP T) t.
Proof. exact load_sn_leaf. Qed.

Theorem C05_load_ref_plain :
  forall (T : tables) (tab_el tab_at tab_en : nametab) (check_fn : N -> list N -> res bool)
         (float_parse : list N -> option N) (s : bool) (bs : list N) (t : etree) (st : pstate),
  tables_ok T = true -> ref_charsb T = true ->
  load s T tab_el tab_at tab_en check_fn float_parse bs = Val (Ret t st) -> AllNodes (RefPlainP T) t.
Proof. exact load_ref_plain. Qed.

(* [U] the comparison of the two readings, for ANY tree (not only loaded ones) *)
Theorem C04_idents_agree :
  forall (T : tables) (t : etree), AllNodes (fun ty l => LateFreeP T ty l /\ SnLeafP T ty l) t ->
  forall path pos, pidents T path pos t = idents_of T path pos t.
Proof. exact idents_agree. Qed.

Theorem C04_idents_agree_all :
  forall (T : tables) (t : etree), AllNodes (SnLeafP T) t ->
  forall path pos, pidents T path pos t = idents_of T path pos t.
Proof. exact idents_agree_all. Qed.

Theorem C05_refs_agree :
  forall (T : tables) (t : etree), AllNodes (RefPlainP T) t -> forall pos, prefs T pos t = refs_of T pos t.
Proof. exact refs_agree. Qed.

(* [U] LateFreeP on every node is decidable *)
Theorem C04_late_freeb_spec : forall (T : tables) (t : etree), late_freeb T t = true -> AllNodes (LateFreeP T) t.
Proof. exact late_freeb_spec. Qed.

(* [F] the table hypotheses on the regenerated tables *)
Theorem C04_real_record_tables : tables_ok RT = true /\ sn_charsb RT = true /\ ref_charsb RT = true.
Proof. exact (conj tables_ok_real (conj real_sn_chars real_ref_chars)). Qed.

(* [U over inputs, F tables] the real loader model: *)
Theorem C04_C05_real_load_StOf_all :
  forall (s : bool) (bs : list N) (t : etree) (st : pstate), LOAD s bs = Val (Ret t st) -> StOf RT st t.
Proof. exact real_load_StOf_all. Qed.

Theorem C04_C05_real_load_StOf :
  forall (s : bool) (bs : list N) (t : etree) (st : pstate),
  LOAD s bs = Val (Ret t st) -> late_freeb RT t = true -> StOf RT st t.
Proof. exact real_load_StOf. Qed.

(* [F] recorded d = (late_freeb, identifiables oldest first, idents_of, references oldest first, refs_of) on the real
   tables: a regular document; the late SHORT-NAME document (regression input of the fixed defect): strict loading fails
   with RequiredSubelementMissing, lenient loading warns and both readings have /Sys only; <SHORT-NAME/> (no entry, path
   stays); a repeated SHORT-NAME (strict rejects; lenient: /A and /A/Sys on both sides) *)
Theorem C04_records_example_regular :
  recorded true doc_named =
  Some (true,
        [(BS "/Pkg", [0; 0]%nat); (BS "/Pkg/Sys", [0; 0; 1; 0]%nat)], [(BS "/Pkg", [0; 0]%nat); (BS "/Pkg/Sys", [0; 0; 1; 0]%nat)],
        [(BS "/Pkg/E", [0; 0; 1; 0; 1; 0; 0]%nat)], [(BS "/Pkg/E", [0; 0; 1; 0; 1; 0; 0]%nat)]).
Proof. exact rec_named. Qed.
Theorem C04_records_example_late_fixed :
  strict_error doc_late = Some RequiredSubelementMissing /\
  lenient_warnings doc_late = Some [RequiredSubelementMissing] /\
  recorded false doc_late = Some (false, [(BS "/Sys", [0; 0; 0; 0]%nat)], [(BS "/Sys", [0; 0; 0; 0]%nat)], [], []).
Proof. exact rec_late_fixed. Qed.
Theorem C04_records_example_nameless :
  recorded true doc_nameless = Some (true, [(BS "/Sys", [0; 0; 1; 0]%nat)], [(BS "/Sys", [0; 0; 1; 0]%nat)], [], []).
Proof. exact rec_nameless. Qed.
Theorem C04_records_example_twice_fixed :
  recorded true doc_twice = None /\
  recorded false doc_twice =
  Some (false, [(BS "/A", [0; 0]%nat); (BS "/A/Sys", [0; 0; 2; 0]%nat)],
               [(BS "/A", [0; 0]%nat); (BS "/A/Sys", [0; 0; 2; 0]%nat)], [], []).
Proof. exact rec_twice_fixed. Qed.
