(* Properties/C05Load.v — C04/C05 for load_buffer (separate closure: the loader model; NOT imported by Properties/C04.v / C05.v).
   [U] C45_load_first        AutosarModel::new(); load_buffer(..) that returns Ok: in the loaded world the path index is exact
                             (Inv04) and the referrer map is exact as a set (Inv05S: no key twice; the entries under a text are
                             precisely the reference elements of the model with that text - no dead entry), and TreeFactsL holds.
                             Hypotheses: the world before has one model with no files and empty maps (what AutosarModel::new
                             makes: C06_fresh_model) and agent-c03's RealInvL; DocSide of the loaded world (node-wise side clauses
                             of Inv04 + a SHORT-NAME first child only below a named type: properties of the loaded DOCUMENT, e.g.
                             <SHORT-NAME/> without text violates AllNamed; not derivable from the parser).
                             Proof: agent-c06's first_load_inv06d / after_first_load re-run with the sharper conclusion
                             (Tree/IndexProofsLoad.v), on agent-c09's loader refinement, agent-xmlproofs' load_StOf_all (no tree
                             condition since fix f86b268) and agent-c03's RealInvL_load.
                             NOT derived: no referrer list holds an element twice, no list is empty (the rest of Refs.Inv05).
   [U] C45_inv2_load / C45_history2_then_load   the same as a step of op2 and at the end of a history over op2 (C45_history2 of
                             Properties/C05.v).  PENDING (Pending45_4, decidable): every other load - into a model that already
                             has files (a MERGING load leaves DEAD entries in the referrer map: exact Inv05 is FALSE there,
                             agent-c06's Inv05D of Tree/FollowL.v is the statement that tolerates them, Properties/C06Load.v) or
                             into a world with several models.  After a first load the element made by AutosarModel::new keeps
                             its PModel link (finding C03-first-load-replaces-root): TreeFacts fails, so the one-step theorems of
                             Properties/C04.v / C05.v do not apply to the loaded world and the load is the last step here.
   [F] C45_load_demo         tiny tables: new, load, get_element_by_path, set_item_name; both maps exact before and after
                             (boolean checkers).
   [U] C45_history2_real / C45_load_first_real / C45_history2_then_load_real   the same three statements on the GENERATED tables
                             RT with the regex model of the character checks, histories starting in the EMPTY world: no table
                             hypothesis is left (TablesOK, plain root type, MaskOk, tables_ok, sn_charsb, ref_charsb, reference
                             types hold character data are [F] theorems about RT: Tree/IndexProofsOp2Real.v) and no invariant
                             of the start world (Inv04_empty, Inv05_empty, empty_RX).  What stays: the decidable classes in
                             steps_ok2a / Pending45_4, agent-c03's RealInvL before the load, DocSide of the loaded world. *)
From AV Require Import Base.Bytes Base.Outcome Hash.HashModel Spec.SpecOps Tree.Heap Tree.Ops Tree.Script Tree.Script2 Tree.Load Tree.MergeSpec
  Tree.Inv Tree.Index Tree.Refs Tree.RefsAll Tree.IndexProofsNodeInv Tree.SortProofsNames Tree.IndexProofsOp2 Tree.FollowL Tree.InvLoad
  Tree.InvProofsLoadLive Tree.FollowProofsLoadMain Tree.IndexProofsLoad Tree.IndexProofsOp2Load Tree.FollowWitnessLoad Tree.IndexProofsTinyLoad
  Tree.CheckFn Spec.SpecReal Tree.IndexProofsOp2Real.
From AV Require Xml.Parser Xml.TablesOk Xml.LoadRecordsRegular.
Import Tiny.
Open Scope list_scope.
Open Scope N_scope.

Theorem C45_load_first :
  forall (T : tables) (tab_el tab_at tab_en : nametab) (check_fn : N -> list N -> res bool)
         (float_parse : list N -> option N) (LATEST name_definition_ref : N)
         (buffer filename : list N) (strict : bool) (w : world) (x : model) (f : N) (ws : list Parser.perror) (w' : world),
  TablesOk.tables_ok T = true -> LoadRecordsRegular.sn_charsb T = true -> LoadRecordsRegular.ref_charsb T = true ->
  (forall ty, is_ref T ty = Val true -> content_mode T ty = Val MCharacters) ->
  RealInvL T w -> w_models w = [x] -> m_files x = [] -> m_idents x = [] -> m_origins x = [] ->
  m_load_buffer T tab_el tab_at tab_en check_fn float_parse LATEST name_definition_ref 0 buffer filename strict w = Val (OK (f, ws), w') ->
  DocSide T check_fn w' ->
  TreeFactsL w' /\ Inv04 T check_fn w' /\ Inv05S T w'.
Proof. exact IndexProofsLoad.C45_load_first. Qed.

Theorem C05_exact_implies_set :
  forall (T : tables) (w : world), Inv05 T w -> Inv05S T w.
Proof. exact Inv05_S. Qed.

Theorem C45_inv2_load :
  forall (T : tables) (tab_el tab_at tab_en : nametab) (check_fn : N -> list N -> res bool)
         (float_parse : list N -> option N) (float_fmt : N -> list N)
         (LATEST name_index name_definition_ref attr_schema_location : N) (root_attrs : list (N * cdata)),
  TablesOK T check_fn ->
  forall (w : world) (m : N) (buffer filename : list N) (strict : bool) (f : N) (ws : list Parser.perror) (w' : world),
  TablesOk.tables_ok T = true -> LoadRecordsRegular.sn_charsb T = true -> LoadRecordsRegular.ref_charsb T = true ->
  RealInvL T w -> Pending45_4 w (OpLoad m buffer filename strict) = false ->
  run_op2 T tab_el tab_at tab_en check_fn float_parse float_fmt LATEST name_index name_definition_ref attr_schema_location
          root_attrs (OpLoad m buffer filename strict) w = Val (OK (VLoad f ws), w') ->
  DocSide T check_fn w' ->
  TreeFactsL w' /\ Inv04 T check_fn w' /\ Inv05S T w'.
Proof. exact IndexProofsOp2Load.C45_inv2_load. Qed.

Theorem C45_history2_then_load :
  forall (T : tables) (tab_el tab_at tab_en : nametab) (check_fn : N -> list N -> res bool)
         (float_parse : list N -> option N) (float_fmt : N -> list N)
         (LATEST name_index name_definition_ref attr_schema_location : N) (root_attrs : list (N * cdata)),
  TablesOK T check_fn ->
  (forall ty, et_new T (autosar_element T) = Val ty -> plainty T ty) ->
  MaskOk T ->
  forall (l : list op2) (w0 w : world) (m : N) (buffer filename : list N) (strict : bool) (f : N) (ws : list Parser.perror) (w' : world),
  Inv04 T check_fn w0 -> Inv05 T w0 -> RX T w0 ->
  steps_ok2a T tab_el tab_at tab_en check_fn float_parse float_fmt LATEST name_index name_definition_ref attr_schema_location
             root_attrs l w0 ->
  run_hist2 T tab_el tab_at tab_en check_fn float_parse float_fmt LATEST name_index name_definition_ref attr_schema_location
            root_attrs l w0 = Val w ->
  TablesOk.tables_ok T = true -> LoadRecordsRegular.sn_charsb T = true -> LoadRecordsRegular.ref_charsb T = true ->
  RealInvL T w -> Pending45_4 w (OpLoad m buffer filename strict) = false ->
  run_op2 T tab_el tab_at tab_en check_fn float_parse float_fmt LATEST name_index name_definition_ref attr_schema_location
          root_attrs (OpLoad m buffer filename strict) w = Val (OK (VLoad f ws), w') ->
  DocSide T check_fn w' ->
  (Inv04 T check_fn w /\ Inv05 T w /\ RX T w) /\ TreeFactsL w' /\ Inv04 T check_fn w' /\ Inv05S T w'.
Proof. exact IndexProofsOp2Load.C45_history2_then_load. Qed.

Example C45_load_demo :
  exists w1 w2,
    load_parsed tiny LATEST 99 0 (BS "a") file_a (pstate_of tiny 2 file_a) new_world = Val (OK 0, w1) /\
    Index.Tiny.idents_of w1 0 = [(BS "/p1", 3); (BS "/p1/S", 6); (BS "/p10", 8); (BS "/p10/R", 11)] /\
    Index.Tiny.origins_list w1 0 = [(BS "/p1/S", [13])] /\
    index_ok tiny w1 = true /\ refs_ok tiny w1 = true /\
    get_element_by_path 0 (BS "/p1/S") w1 = Val (OK (Some 6), w1) /\
    e_set_item_name tiny tiny_check_fn LATEST 3 (BS "q") w1 = Val (OK tt, w2) /\
    Index.Tiny.idents_of w2 0 = [(BS "/p10/R", 11); (BS "/q", 3); (BS "/p10", 8); (BS "/q/S", 6)] /\
    Index.Tiny.origins_list w2 0 = [(BS "/q/S", [13])] /\ ref_text tiny w2 13 = Some (BS "/q/S") /\
    index_ok tiny w2 = true /\ refs_ok tiny w2 = true.
Proof. exact load_demo_summary. Qed.

Theorem C45_history2_real :
  forall (dfas : N -> option (list (list N) * list N)) (tab_el tab_at tab_en : nametab)
         (float_parse : list N -> option N) (float_fmt : N -> list N)
         (LATEST name_index name_definition_ref attr_schema_location : N) (root_attrs : list (N * cdata))
         (l : list op2) (w : world),
  steps_ok2a RT tab_el tab_at tab_en (check_fn_model dfas) float_parse float_fmt LATEST name_index name_definition_ref
             attr_schema_location root_attrs l empty_world ->
  run_hist2 RT tab_el tab_at tab_en (check_fn_model dfas) float_parse float_fmt LATEST name_index name_definition_ref
            attr_schema_location root_attrs l empty_world = Val w ->
  Inv04 RT (check_fn_model dfas) w /\ Inv05 RT w /\ RX RT w.
Proof. exact IndexProofsOp2Real.C45_history2_rt. Qed.

Theorem C45_load_first_real :
  forall (dfas : N -> option (list (list N) * list N)) (tab_el tab_at tab_en : nametab)
         (float_parse : list N -> option N) (LATEST name_definition_ref : N)
         (buffer filename : list N) (strict : bool) (w : world) (x : model) (f : N) (ws : list Parser.perror) (w' : world),
  RealInvL RT w -> w_models w = [x] -> m_files x = [] -> m_idents x = [] -> m_origins x = [] ->
  m_load_buffer RT tab_el tab_at tab_en (check_fn_model dfas) float_parse LATEST name_definition_ref 0 buffer filename strict w
    = Val (OK (f, ws), w') ->
  DocSide RT (check_fn_model dfas) w' ->
  TreeFactsL w' /\ Inv04 RT (check_fn_model dfas) w' /\ Inv05S RT w'.
Proof. exact IndexProofsOp2Real.C45_load_first_rt. Qed.

Theorem C45_history2_then_load_real :
  forall (dfas : N -> option (list (list N) * list N)) (tab_el tab_at tab_en : nametab)
         (float_parse : list N -> option N) (float_fmt : N -> list N)
         (LATEST name_index name_definition_ref attr_schema_location : N) (root_attrs : list (N * cdata))
         (l : list op2) (w : world) (m : N) (buffer filename : list N) (strict : bool) (f : N) (ws : list Parser.perror) (w' : world),
  steps_ok2a RT tab_el tab_at tab_en (check_fn_model dfas) float_parse float_fmt LATEST name_index name_definition_ref
             attr_schema_location root_attrs l empty_world ->
  run_hist2 RT tab_el tab_at tab_en (check_fn_model dfas) float_parse float_fmt LATEST name_index name_definition_ref
            attr_schema_location root_attrs l empty_world = Val w ->
  RealInvL RT w -> Pending45_4 w (OpLoad m buffer filename strict) = false ->
  run_op2 RT tab_el tab_at tab_en (check_fn_model dfas) float_parse float_fmt LATEST name_index name_definition_ref
          attr_schema_location root_attrs (OpLoad m buffer filename strict) w = Val (OK (VLoad f ws), w') ->
  DocSide RT (check_fn_model dfas) w' ->
  (Inv04 RT (check_fn_model dfas) w /\ Inv05 RT w /\ RX RT w) /\
  TreeFactsL w' /\ Inv04 RT (check_fn_model dfas) w' /\ Inv05S RT w'.
Proof. exact IndexProofsOp2Real.C45_history2_then_load_rt. Qed.
