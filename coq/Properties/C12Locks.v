(* Properties/C12Locks.v — the LOCK half of C12: "single-threaded use never hangs or reports a spurious lock conflict".
   Model: Conc/RwLock.v (threads = lock traces over reader/writer locks).  Criterion: [self_ok t] (Conc/SelfConflict.v):
   no acquisition (blocking or try) of a lock the thread itself holds in a conflicting mode.
   Both theorems are [U]: any trace, any length.
   C12_locks_single_thread_runs   : a balanced self_ok trace, run alone, completes with successful acquisitions only and is
                                    never stuck (no hang, no failing try = no spurious ParentElementLocked).
   C12_locks_self_conflict_blocks : a trace that is NOT self_ok reaches an acquisition that can never succeed: a blocking one
                                    hangs for ever, a try one can only fail (spurious lock-conflict error).
   C12_locks_criterion_complete   : so self_ok is exactly the property (iff) for balanced traces — stated as the two directions.
   UNIVERSAL part: C12_locks_footprint_classes_run — for EVERY world and any sequence of calls of the footprint classes of
   Conc/Footprint.v (lock trace = a function of operation and world, tied to the implementation event by event on every run; all
   22 classes incl. path) the single thread runs to completion with successful acquisitions only and is never stuck.
   [P]artial tie: the premise self_ok/balanced is evaluated by vm_compute on the traces the implementation produces through
   hook H2 for the enumerated operation instances (checks/locks_common.py); it is not established for all states. *)
From Coq Require Import List NArith Bool.
From AV Require Import Tree.Heap Conc.RwLock Conc.SelfConflict Conc.Footprint Conc.FootprintProofs.
Import ListNotations.

Theorem C12_locks_single_thread_runs : forall t,
    self_ok t = true -> balanced t = true ->
    sreachable (init [t]) (init [[]]) /\
    forall c, sreachable (init [t]) c ->
              ~ stuck c /\ (c = init [[]] \/ exists c', sstep c c').
Proof. exact single_thread_runs. Qed.

Theorem C12_locks_self_conflict_blocks : forall t,
    self_ok t = false ->
    exists b m l r h,
      let c := [mkThread (Acq b m l :: r) h] in
      sreachable (init [t]) c /\
      ~ can_acq c m l /\
      (b = true -> stuck c /\ forall c', ~ step c c') /\
      (b = false -> forall t' o c', lstep c t' o c' -> o = Fail /\ c' = init [[]]).
Proof. exact single_thread_conflict. Qed.

Theorem C12_locks_footprint_classes_run : forall cf fuel w os,
    sreachable (init [thread_trace cf fuel w os]) (init [[]]) /\
    forall c, sreachable (init [thread_trace cf fuel w os]) c -> ~ stuck c.
Proof. exact single_thread_footprint_classes. Qed.
