(* Properties/C07.v — C07 "What the editing API builds conforms to the specification the loader enforces".
   ONLY statements: every Theorem is `exact` a lemma of Tree/RangeProofs*.v / Tree/SpecWFReal.v.

   Model: Tree/Ops.v (calc_element_insert_range / range_loop / the create functions), Tree/ValidSubs.v (list_valid_sub_elements), tied to
   /repo's working tree on every run by the C07 sweep (checks/c07.py: every reachable ElementType x versions x contents of
   size 0..2, implementation vs extracted model) and by the generic tree histories.
   Specification side: Tree/Range.v — [Ordered T ty v items] (the child list is in specification order: every name resolves
   in version v, and every pair i < j is acceptable for the group in which the two index paths part: Sequence -> not
   decreasing, equal only with multiplicity Any; Choice -> equal with multiplicity Any; Bag/Mixed -> anything),
   [LoaderAccepts] (what parser.rs checks about a child list: ElementChoiceConflict between NEIGHBOURS, TooManySubElements
   by NAME; it does NOT check sequence order).
   Table facts: Tree/SpecWF.v [SpecWF T]; [F] SpecWF RT for the regenerated real tables (Gen/WFSweep*.v).

   Kinds: [U] unbounded (all table sets with SpecWF, all worlds / contents), [F] finite-complete over the regenerated tables,
   [P] partial.  What is NOT proved (covered by the correspondence + the oracles of checks/c07.py only) is listed at
   C07_order_inv_partial. *)
From AV Require Import Base.Bytes Base.Outcome Hash.HashModel Spec.SpecOps Spec.SpecReal Tree.Heap Tree.Ops Tree.Script Tree.Inv Tree.Range Tree.ValidSubs
  Tree.SpecWF Tree.SpecWFReal Tree.RangeProofsCalc Tree.RangeProofsOps Tree.RangeProofsLoader Tree.RangeProofsReal Tree.RangeProofsParser Tree.RangeProofsNamed Tree.CopyProofsDefs Tree.RangeProofsInv Tree.Project Tree.RangeProofsProject Tree.RangeProofsReload
  Tree.CompatTyped Tree.CompatHist1 Tree.CompatHist4 Tree.RangeProofsAttach Tree.RangeProofsAttachCopy
  Tree.Serialize Tree.Files Tree.ProjectCanon Tree.RangeProofsReloadFile Tree.RangeProofsCanon Tree.RangeProofsMoveSame
  Tree.OrdHist Tree.OrdHistReal Tree.OrdFrame Tree.WorldCheck Tree.RangeProofsCheck Tree.RangeProofsApi Tree.RangeProofsApiReal Tree.RangeProofsShortFirst Tree.RangeProofsUnique
  Tree.Listing Tree.RangeProofsListing Tree.ListingReal Tree.RangeProofsListingNamed Tree.ListingHist.
From AV Require Hash.HashRealElement Hash.HashRealAttr Hash.HashRealEnum.
From AV Require Xml.Serializer Xml.StrictValidDef Xml.RoundTripFile.
From AV Require Xml.Parser.
Open Scope list_scope.
Open Scope N_scope.

(* [F] the table facts hold of the tables of the current source *)
Theorem C07_SpecWF_real : SpecWF RT.
Proof. exact SpecWF_real. Qed.

(* [U] the reported range is exactly the set of positions that keep an ordered child list in specification order
   (soundness and completeness; the range lies inside the content) *)
Theorem C07_range_exact :
  forall T : tables, SpecWF T ->
  forall (n : node) (name v : N) (w : world) (lo hi : N) (w' : world) (items : list (option N)),
  items_of w (n_content n) = Some items ->
  Ordered T (n_type n) v items ->
  calc_element_insert_range T n name v w = Val (OK (lo, hi), w') ->
  w' = w /\ lo <= hi /\ hi <= N.of_nat (List.length items) /\
  (forall p : N, p <= N.of_nat (List.length items) ->
     (lo <= p <= hi <-> Ordered T (n_type n) v (ins items (N.to_nat p) (Some name)))).
Proof. exact range_exact. Qed.

(* [U] completeness needs no premise about the content and no table fact *)
Theorem C07_range_complete :
  forall (T : tables) (n : node) (name v : N) (w : world) (lo hi : N) (w' : world) (items : list (option N)),
  items_of w (n_content n) = Some items ->
  calc_element_insert_range T n name v w = Val (OK (lo, hi), w') ->
  forall p : N, p <= N.of_nat (List.length items) ->
  Ordered T (n_type n) v (ins items (N.to_nat p) (Some name)) -> lo <= p <= hi.
Proof. exact range_complete. Qed.

(* [U] an error (character-only parent, unknown name, ElementInsertionConflict) means that NO position keeps the order *)
Theorem C07_range_err :
  forall T : tables, SpecWF T ->
  forall (n : node) (name v : N) (w : world) (e : err) (w' : world) (items : list (option N)),
  items_of w (n_content n) = Some items ->
  calc_element_insert_range T n name v w = Val (ER e, w') ->
  w' = w /\ (forall q : nat, ~ Ordered T (n_type n) v (ins items q (Some name))).
Proof. exact range_err. Qed.

(* [U] the range never leaves the content (so Vec::insert cannot panic), for every table set and every content *)
Theorem C07_range_bounds :
  forall (T : tables) (n : node) (name v : N) (w : world) (lo hi : N) (w' : world),
  calc_element_insert_range T n name v w = Val (OK (lo, hi), w') ->
  lo <= hi <= N.of_nat (List.length (n_content n)).
Proof. exact calc_bound. Qed.

(* [U] a (not named) sub-element can be created at position p exactly when p lies in the reported range ... *)
Theorem C07_create_iff_range :
  forall (T : tables) (LATEST : N) (h : id) (n : node) (v name : N) (w : world) (lo hi : N) (w1 : world)
         (et : etype) (ix : list N),
  w_nodes w h = Some n -> w_nodes w (w_next w) = None ->
  min_version LATEST h w = Val (OK v, w) ->
  calc_element_insert_range T n name v w = Val (OK (lo, hi), w1) ->
  find_sub_element T (n_type n) name v = Val (Some (et, ix)) ->
  is_named_in_version T et v = Val false ->
  forall pos : N,
  (exists (c : id) (w' : world), e_create_sub_element_at T LATEST h name pos w = Val (OK c, w')) <-> lo <= pos <= hi.
Proof. exact create_iff_range. Qed.

(* [U] ... and at no position when the range is an error (the same error is returned, nothing changes) *)
Theorem C07_create_err :
  forall (T : tables) (LATEST : N) (h : id) (n : node) (v name : N) (w : world) (er : err) (w1 : world),
  w_nodes w h = Some n -> min_version LATEST h w = Val (OK v, w) ->
  calc_element_insert_range T n name v w = Val (ER er, w1) ->
  forall pos : N, e_create_sub_element_at T LATEST h name pos w = Val (ER er, w).
Proof. exact create_err_all_positions. Qed.

(* [U] named creation succeeds only inside the reported range, with a non-empty item name and for a type that is named in
   the version (the converse needs the item-name validity and path uniqueness conditions and is not proved; tied by the sweep,
   which creates every named child at every position) *)
Theorem C07_create_named_only_in_range :
  forall (T : tables) (check_fn : N -> list N -> res bool) (LATEST : N)
         (h : id) (n : node) (m v name : N) (item : list N) (pos : N) (w : world) (c : id) (w' : world),
  w_nodes w h = Some n ->
  model_of h w = Val (OK m, w) -> min_version LATEST h w = Val (OK v, w) ->
  e_create_named_sub_element_at T check_fn LATEST h name item pos w = Val (OK c, w') ->
  exists lo hi et ix,
    calc_element_insert_range T n name v w = Val (OK (lo, hi), w) /\ lo <= pos <= hi /\ item <> [] /\
    find_sub_element T (n_type n) name v = Val (Some (et, ix)) /\ is_named_in_version T et v = Val true.
Proof. exact create_named_at_only_in_range. Qed.

(* [U] the named iff: with a live parent (its model and version are found, the id counter is fresh) and a reported range,
   create_named_sub_element_at succeeds exactly when p lies in the range, the item name is not empty, the new type is named in the
   version, the item name is accepted by the SHORT-NAME specification of the new type in the version, the parent's path
   exists and parent_path/name is not yet a key of the model's identifiables *)
Theorem C07_create_named_iff :
  forall (T : tables) (check_fn : N -> list N -> res bool) (LATEST : N), SpecWF T ->
  forall (h : id) (n : node) (m v name : N) (item : list N) (pos : N) (w : world) (lo hi : N) (w1 : world),
  w_nodes w h = Some n -> w_nodes w (w_next w) = None -> w_nodes w (w_next w + 1) = None ->
  model_of h w = Val (OK m, w) -> min_version LATEST h w = Val (OK v, w) ->
  calc_element_insert_range T n name v w = Val (OK (lo, hi), w1) ->
  ((exists (c : id) (w' : world), e_create_named_sub_element_at T check_fn LATEST h name item pos w = Val (OK c, w')) <->
   lo <= pos <= hi /\
   item <> [] /\
   exists (et : etype) (ix : list N) (se : etype) (six : list N) (cs : cdspec) (pp : list N) (x : model),
     find_sub_element T (n_type n) name v = Val (Some (et, ix)) /\
     is_named_in_version T et v = Val true /\
     find_sub_element T et (name_short_name T) v = Val (Some (se, six)) /\
     chardata_spec T se = Val (Some cs) /\ check_value check_fn (DString item) cs v = Val true /\
     path_unchecked T n w = Val (OK pp, w) /\
     nth_opt (w_models w) (N.to_nat m) = Some x /\ assoc_get (pp ++ [47] ++ item) (m_idents x) = None).
Proof. exact create_named_iff. Qed.

(* [U] list_valid_sub_elements: is_allowed of every listed name is exactly "the range is not an error" ... *)
Theorem C07_allowed_iff_range :
  forall (T : tables) (LATEST : N) (h : id) (n : node) (v : N) (w : world) (r : list valid_info) (w' : world),
  w_nodes w h = Some n -> min_version LATEST h w = Val (OK v, w) ->
  list_valid_sub_elements T LATEST h w = Val (OK r, w') ->
  w' = w /\
  (forall vi : valid_info, In vi r ->
     exists r0 : out (N * N),
       calc_element_insert_range T n (vi_name vi) v w = Val (r0, w) /\
       vi_allowed vi = match r0 with OK _ => true | ER _ => false end).
Proof. exact list_valid_spec. Qed.

(* [U] ... hence exactly the (not named) sub-elements reported as allowed can be created *)
Theorem C07_allowed_iff :
  forall (T : tables) (LATEST : N) (h : id) (n : node) (v : N) (w : world) (r : list valid_info) (w' : world)
         (vi : valid_info) (et : etype) (ix : list N),
  w_nodes w h = Some n -> w_nodes w (w_next w) = None ->
  min_version LATEST h w = Val (OK v, w) ->
  list_valid_sub_elements T LATEST h w = Val (OK r, w') -> In vi r ->
  find_sub_element T (n_type n) (vi_name vi) v = Val (Some (et, ix)) ->
  is_named_in_version T et v = Val false ->
  (vi_allowed vi = true <->
   exists (c : id) (w2 : world), e_create_sub_element T LATEST h (vi_name vi) w = Val (OK c, w2)).
Proof. exact allowed_iff_create. Qed.

(* [P->U] specification order is an invariant of the editing calls.  This first statement (kept as pinned) covers
   create_sub_element_at, create_sub_element and removing any child; C07_order_inv_named / _copy / _move below cover
   create_named_sub_element[_at], get_or_create[_named], create_copied_sub_element[_at] and move_element_here[_at].
   Full statement: for every op of Tree/Script.v that returns OK, every parent whose child list was Ordered (for its
   min_version) before is Ordered after. *)
Theorem C07_order_inv_partial :
  forall (T : tables) (LATEST : N), SpecWF T ->
  (forall (h : id) (n : node) (v name : N) (w : world) (pos : N) (c : id) (w' : world) (items : list (option N)),
     w_nodes w h = Some n -> w_nodes w (w_next w) = None ->
     min_version LATEST h w = Val (OK v, w) ->
     items_of w (n_content n) = Some items -> Ordered T (n_type n) v items ->
     e_create_sub_element_at T LATEST h name pos w = Val (OK c, w') ->
     exists n' : node,
       w_nodes w' h = Some n' /\ n_type n' = n_type n /\
       items_of w' (n_content n') = Some (ins items (N.to_nat pos) (Some name)) /\
       Ordered T (n_type n) v (ins items (N.to_nat pos) (Some name))) /\
  (forall (h : id) (n : node) (v name : N) (w : world) (c : id) (w' : world) (items : list (option N)),
     w_nodes w h = Some n -> w_nodes w (w_next w) = None ->
     min_version LATEST h w = Val (OK v, w) ->
     items_of w (n_content n) = Some items -> Ordered T (n_type n) v items ->
     e_create_sub_element T LATEST h name w = Val (OK c, w') ->
     exists (n' : node) (items' : list (option N)),
       w_nodes w' h = Some n' /\ n_type n' = n_type n /\
       items_of w' (n_content n') = Some items' /\ Ordered T (n_type n) v items') /\
  (forall (ty : etype) (v : N) (items : list (option N)) (k : nat),
     Ordered T ty v items -> Ordered T ty v (remove_at items k)).
Proof. exact order_inv_partial. Qed.

(* [U] the order invariant for the named creations and get_or_create (the child list of the parent after a successful call) *)
Theorem C07_order_inv_named :
  forall (T : tables) (check_fn : N -> list N -> res bool) (LATEST : N), SpecWF T ->
  forall (h : id) (n : node) (m v name : N) (item : list N) (w : world) (c : id) (w' : world) (items : list (option N)),
  w_nodes w h = Some n -> w_nodes w (w_next w) = None -> w_nodes w (w_next w + 1) = None ->
  model_of h w = Val (OK m, w) -> min_version LATEST h w = Val (OK v, w) ->
  items_of w (n_content n) = Some items -> Ordered T (n_type n) v items ->
  (forall pos, e_create_named_sub_element_at T check_fn LATEST h name item pos w = Val (OK c, w') ->
     exists n', w_nodes w' h = Some n' /\ n_type n' = n_type n /\
       items_of w' (n_content n') = Some (ins items (N.to_nat pos) (Some name)) /\
       Ordered T (n_type n) v (ins items (N.to_nat pos) (Some name))) /\
  (e_create_named_sub_element T check_fn LATEST h name item w = Val (OK c, w') \/
   e_get_or_create_named_sub_element T check_fn LATEST h name item w = Val (OK c, w') \/
   e_get_or_create_sub_element T LATEST h name w = Val (OK c, w') ->
     exists n' items', w_nodes w' h = Some n' /\ n_type n' = n_type n /\
       items_of w' (n_content n') = Some items' /\ Ordered T (n_type n) v items').
Proof. exact order_inv_named. Qed.

(* [U] ... for create_copied_sub_element[_at]: the copy is inserted inside the range of ITS name (hypothesis Closed w: every
   allocated id is below w_next and every listed child exists — part of C03's invariant; the known class
   copy-keeps-source-type concerns the type of the copy, not the order of the destination's children) *)
Theorem C07_order_inv_copy :
  forall (T : tables) (LATEST : N), SpecWF T ->
  forall (h other : id) (n o : node) (m v : N) (w : world) (c : id) (w' : world) (items : list (option N)),
  Closed w -> w_nodes w h = Some n -> w_nodes w other = Some o ->
  model_of h w = Val (OK m, w) -> min_version LATEST h w = Val (OK v, w) ->
  items_of w (n_content n) = Some items -> Ordered T (n_type n) v items ->
  (forall pos, e_create_copied_sub_element_at T LATEST h other pos w = Val (OK c, w') ->
     exists n', w_nodes w' h = Some n' /\ n_type n' = n_type n /\
       items_of w' (n_content n') = Some (ins items (N.to_nat pos) (Some (n_name o))) /\
       Ordered T (n_type n) v (ins items (N.to_nat pos) (Some (n_name o)))) /\
  (e_create_copied_sub_element T LATEST h other w = Val (OK c, w') ->
     exists n' items', w_nodes w' h = Some n' /\ n_type n' = n_type n /\
       items_of w' (n_content n') = Some items' /\ Ordered T (n_type n) v items').
Proof. exact order_inv_copy. Qed.

(* [U] ... for move_element_here[_at]: inside the same parent (Ops.move_element_position with the bound of fix fd5588f), and
   from another parent in the same or another model — there the destination AND every other node keep their order (for
   every version): all steps before the insertion only shrink child lists as subsequences.  The remaining combination
   "parent link names h but the models differ" cannot occur in a world satisfying C03's invariant and is not covered. *)
Theorem C07_order_inv_move :
  forall (T : tables) (tab_en : nametab) (check_fn : N -> list N -> res bool) (LATEST : N), SpecWF T ->
  forall (h mv : id) (n mn : node) (ms m vs v : N) (w : world) (c : id) (w' : world) (items : list (option N)),
  w_nodes w h = Some n -> w_nodes w mv = Some mn ->
  model_of mv w = Val (OK ms, w) -> model_of h w = Val (OK m, w) ->
  min_version LATEST mv w = Val (OK vs, w) -> min_version LATEST h w = Val (OK v, w) ->
  items_of w (n_content n) = Some items -> Ordered T (n_type n) v items ->
  (* inside the same parent (then both belong to the same model and version) *)
  (n_parent mn = PElem h -> ms = m -> vs = v ->
   forall pos, e_move_element_here_at T tab_en check_fn LATEST h mv pos w = Val (OK c, w') ->
     exists n' items', w_nodes w' h = Some n' /\ n_type n' = n_type n /\
       items_of w' (n_content n') = Some items' /\ Ordered T (n_type n) v items') /\
  (* from another parent, same or other model: the destination and EVERY other node stay ordered *)
  (n_parent mn <> PElem h ->
   (exists pos, e_move_element_here_at T tab_en check_fn LATEST h mv pos w = Val (OK c, w')) \/
   e_move_element_here T tab_en check_fn LATEST h mv w = Val (OK c, w') ->
     (exists n' items', w_nodes w' h = Some n' /\ n_type n' = n_type n /\
        items_of w' (n_content n') = Some items' /\ Ordered T (n_type n) v items') /\
     (forall i ni itemsi vi, i <> h -> w_nodes w i = Some ni -> items_of w (n_content ni) = Some itemsi ->
        Ordered T (n_type ni) vi itemsi ->
        exists ni' itemsi', w_nodes w' i = Some ni' /\ n_type ni' = n_type ni /\
          items_of w' (n_content ni') = Some itemsi' /\ Ordered T (n_type ni) vi itemsi')).
Proof. exact order_inv_move. Qed.

(* [U] what the editor calls ordered is accepted by the loader's child-list checks: no ElementChoiceConflict, no
   TooManySubElements, no table panic *)
Theorem C07_ordered_loader_accepts :
  forall T : tables, SpecWF T ->
  forall (ty : etype) (v : N) (items : list (option N)), Ordered T ty v items -> LoaderAccepts T ty v items.
Proof. exact ordered_loader_accepts. Qed.

(* [U] LoaderAccepts is stated with Range.choice_conflict / Range.too_many; these are faithful to the parser model: when they
   answer `Some false` the functions check_element_conflict / check_multiplicity of Xml/Parser.v (the model of parser.rs that
   C01/C02/C08 tie to the implementation) return without warning, without error and without touching the parser state,
   in strict and in lenient mode *)
Theorem C07_loader_checks_quiet :
  forall (strict : bool) (T : tables) (name : N) (ty : etype) (prev ix : list N)
         (content : list (Parser.etree + Parser.cdata)) (st : Parser.pstate),
  (choice_conflict T ty prev ix = Some false ->
   Parser.check_element_conflict strict T name ty prev ix st = Val (Parser.Ret tt st)) /\
  (content <> [] -> too_many T ty ix name (seen_of content) = Some false ->
   Parser.check_multiplicity strict T name ty ix content st = Val (Parser.Ret tt st)).
Proof. exact loader_checks_quiet. Qed.

(* [F witness] the converse is false of the current tables: the loader accepts <AUTOSAR> with AR-PACKAGES before ADMIN-DATA.
   "Specification order" is enforced by the editing API only, not by the loader (parser.rs skips the sequence check on purpose). *)
Theorem C07_loader_enforces_order_refuted :
  exists (ty : etype) (v : N) (items : list (option N)), LoaderAccepts RT ty v items /\ ~ Ordered RT ty v items.
Proof. exact loader_accepts_unordered. Qed.

(* [F witness] known finding C07-copy-keeps-source-type: a copy across versions keeps the ElementType of its source although
   the name resolves to another type in the version of the target (ABSOLUTE inside ABSOLUTE-TOLERANCE, 4.0.1 -> 4.0.2) *)
Theorem C07_copy_resolves_type_refuted :
  exists (w : world) (h other c : id) (w' : world) (n nc : node) (v : N) (et : etype) (ix : list N),
    e_create_copied_sub_element RT REAL_LATEST h other w = Val (OK c, w') /\
    w_nodes w' h = Some n /\ w_nodes w' c = Some nc /\ In (CElem c) (n_content n) /\
    min_version REAL_LATEST h w' = Val (OK v, w') /\
    find_sub_element RT (n_type n) (n_name nc) v = Val (Some (et, ix)) /\
    n_type nc <> et.
Proof. exact copy_keeps_source_type. Qed.

(* [U] the reload clause, bridge to C08/C01: the content of one file of a model (Tree/Project.v proj, the filter of
   ArxmlFile::serialize) of a world that is node-wise OK — Ordered child lists, every child carries the type its name resolves to
   in the version, character data and attribute values valid for their specifications, attributes known and in the version,
   SHORT-NAME present where the type is named — is StrictValid (Xml/StrictValidDef.v) EXCEPT for "every required attribute is
   present" (SVNR), i.e. the strict loader's only possible complaint about it is the one the property allows. *)
Theorem C07_reload_bridge :
  forall (T : tables) (check_fn : N -> list N -> res bool) (ver : N), SpecWF T ->
  forall (w : world) (ff : option N), WorldOK T check_fn ver w ff ->
  forall (fuel : nat) (i : id) (t : Parser.etree), proj fuel w ff i = Some t ->
  SVNR T check_fn ver t /\
  exists n : node, w_nodes w i = Some n /\ Parser.e_name t = n_name n /\ StrictValidDef.e_type t = n_type n.
Proof. exact proj_svnr. Qed.

(* [U, corollary with explicit hypotheses] composition with C01's file round trip: if the projection is moreover canonical in
   C01's sense (RootCanon: canonical spellings, required attributes present, header attributes of the version — NOT derived
   here from the world; values outside the canonical forms and never-set required attributes are where the recorded findings
   and the allowed RequiredAttributeMissing live) then loading the bytes serialize_file writes for it gives back exactly the
   projection, strict or lenient, without any warning.  Also not derived: that f_serialize over the heap writes these bytes. *)
Theorem C07_reload_clean_composed :
  forall (strict : bool) (T : tables) (tab_el tab_at tab_en : nametab) (check_fn : N -> list N -> res bool)
         (float_fmt : N -> list N) (float_parse : list N -> option N) (ver : N),
  SpecWF T ->
  forall (w : world) (f : N) (fuel : nat) (root : id) (t : Parser.etree) (sa : option bool) (bs : list N),
  WorldOK T check_fn ver w (Some f) ->
  proj fuel w (Some f) root = Some t ->
  RoundTripFile.RootCanon strict T tab_el tab_at tab_en check_fn float_fmt float_parse ver t ->
  Serializer.set_version T tab_at check_fn ver t = Val t ->
  Serializer.serialize_file T tab_el tab_at tab_en check_fn float_fmt ver sa t = Val bs ->
  SVNR T check_fn ver t /\
  exists st, Parser.load strict T tab_el tab_at tab_en check_fn float_parse bs = Val (Parser.Ret t st) /\
             Parser.p_warnings st = [] /\ Parser.p_version st = ver /\ Parser.p_standalone st = sa.
Proof. exact reload_clean_composed. Qed.

(* [F] non-vacuity of WorldOK on the current tables *)
Theorem C07_worldok_nonvacuous :
  forall check_fn : N -> list N -> res bool,
  WorldOK RT check_fn REAL_LATEST w_root_only (Some 0) /\ exists t, proj 2 w_root_only (Some 0) 0 = Some t.
Proof. exact worldok_nonvacuous. Qed.

(* [F witness] "every node of every reachable world is Ordered for its CURRENT min_version" is FALSE: Ordered is relative to
   a version and min_version changes when a file of another version joins the model (finding class mixed-version-files):
   new model, file f0 (latest), FILE-INFO-COMMENT in the root, second file f1 in AUTOSAR 4.0.1 -> the root's version drops to
   4.0.1, where FILE-INFO-COMMENT does not exist.  The invariant that holds is per operation, for the version in force when
   the operation runs (C07_order_inv_partial / _named / _copy / _move); the child list of the witness was in order for the
   version it was built in (C07_order_history_was_ordered). *)
Theorem C07_order_history_refuted :
  forall (tab_el tab_en : nametab) (check_fn : N -> list N -> res bool) (root_attrs : list (N * cdata)),
  exists (w : world) (h : id) (n : node) (v : N) (items : list (option N)),
    run_ops RT tab_el tab_en check_fn REAL_LATEST root_attrs hist_ops (mkWorld (fun _ => None) 0 [] []) = Val w /\
    w_nodes w h = Some n /\ min_version REAL_LATEST h w = Val (OK v, w) /\
    items_of w (n_content n) = Some items /\ ~ Ordered RT (n_type n) v items.
Proof. exact order_history_refuted. Qed.

Theorem C07_order_history_was_ordered : Ordered RT real_root REAL_LATEST [Some 1043].
Proof. exact order_history_was_ordered. Qed.

(* [F] non-vacuity: an ordered child list of the root element of the current tables *)
Theorem C07_ordered_nonvacuous : Ordered RT real_root REAL_LATEST [Some 2055; Some 5413].
Proof. exact real_ordered_example. Qed.

(* ------------------------------------------------------------------ attaching an existing element keeps its stored type
   (known finding C07 move-keeps-source-type, first seen by agent-c17; same root cause as copy-keeps-source-type, other
   trigger: ONE version, ONE model, another parent) *)

(* [F witness] on the current tables, in a world built by the editing calls themselves: move_element_here succeeds although the
   destination lists the element's NAME with another datatype; the element keeps its type, one of its sub-elements is listed
   by the stored type and not by the type the loader will give the element, so the loader cannot read what was built
   (no LoaderWalk of depth 2 from the destination = IncorrectBeginElement on the implementation).
   The history uses the validator of item names that accepts everything (ok_check) for the three names n1 n2 n3. *)
Theorem C07_move_resolves_type_refuted :
  forall (tab_el tab_en : nametab) (check_fn : N -> list N -> res bool) (root_attrs : list (N * cdata)),
  exists (w : world) (h mv : id) (w' : world) (n nc ncc : node) (cc : id) (v : N) (et : etype) (ix : list N),
    run_ops RT tab_el tab_en ok_check REAL_LATEST root_attrs attach_ops (mkWorld (fun _ => None) 0 [] []) = Val w /\
    e_move_element_here RT tab_en check_fn REAL_LATEST h mv w = Val (OK mv, w') /\
    w_nodes w' h = Some n /\ w_nodes w' mv = Some nc /\ In (CElem mv) (n_content n) /\
    min_version REAL_LATEST h w' = Val (OK v, w') /\
    find_sub_element RT (n_type n) (n_name nc) v = Val (Some (et, ix)) /\
    snd (n_type nc) <> snd et /\
    In (CElem cc) (n_content nc) /\ w_nodes w' cc = Some ncc /\
    find_sub_element RT (n_type nc) (n_name ncc) v <> Val None /\
    find_sub_element RT et (n_name ncc) v = Val None /\
    ~ LoaderWalk RT 2 w' v h (n_type n).
Proof. exact move_keeps_source_type. Qed.

(* [U] when the stored types do not matter: on tables with agent-c17's fact PairOK (a datatype never lists one name with two
   datatypes that differ below; [F] for the current tables: Tree/CompatReal.v PairOK_real) and in a world whose edges are TypedU
   (C17's invariant: the parent's stored type lists the child's name, in some version set, with the child's stored DATATYPE),
   every element of a set closed under sub-elements whose child lists are in the specification order of the STORED types is read
   by the loader without complaint, to any depth, starting from any type of a related datatype: the loader's own types, which
   it derives from the names alone, never meet a child list they do not accept or a name they do not list. *)
Theorem C07_attach_loader_walk :
  forall T : tables, SpecWF T -> PairOK T ->
  forall (w : world) (v : N) (S : id -> Prop), TypedU T w -> OrdSet T w v S ->
  forall (fuel : nat) (i : id) (n : node) (lt : etype),
  S i -> w_nodes w i = Some n -> rel_ok T (snd lt) (snd (n_type n)) = true -> LoaderWalk T fuel w v i lt.
Proof. exact loader_walk_of_typed. Qed.

(* [U] move_element_here[_at] from another parent, under agent-c17's side condition attach_ok (the destination's type lists the
   element's name with the element's stored datatype, for some version set): typing (C17 move_typed) and the order of EVERY
   child list (C07_order_inv_move) are kept, hence the loader reads the destination, the moved subtree and every other element
   of the set without complaint.  C07_move_resolves_type_refuted shows that the side condition cannot be dropped. *)
Theorem C07_move_typed_loader_accepts :
  forall (T : tables) (tab_en : nametab) (check_fn : N -> list N -> res bool) (LATEST : N), SpecWF T -> PairOK T ->
  forall (h mv : id) (n mn : node) (ms m vs v : N) (w : world) (c : id) (w' : world) (S : id -> Prop),
  w_nodes w h = Some n -> w_nodes w mv = Some mn -> n_parent mn <> PElem h ->
  model_of mv w = Val (OK ms, w) -> model_of h w = Val (OK m, w) ->
  min_version LATEST mv w = Val (OK vs, w) -> min_version LATEST h w = Val (OK v, w) ->
  Bounded w -> TypedU T w -> attach_ok T w h mv ->
  OrdSet T w v S -> S h -> S mv ->
  (exists pos, e_move_element_here_at T tab_en check_fn LATEST h mv pos w = Val (OK c, w')) \/
  e_move_element_here T tab_en check_fn LATEST h mv w = Val (OK c, w') ->
  Bounded w' /\ TypedU T w' /\ OrdSet T w' v S /\
  forall (fuel : nat) (i : id) (ni : node) (lt : etype),
    S i -> w_nodes w' i = Some ni -> rel_ok T (snd lt) (snd (n_type ni)) = true -> LoaderWalk T fuel w' v i lt.
Proof. exact move_attach_walk. Qed.

(* [U] create_copied_sub_element[_at] of an element of the same ordered set, under attach_ok: the set grows by the copy (S' c)
   and everything below it; typing (C17 copy_typed), the destination's order (C07_order_inv_copy) and the order of every node of
   the copy (its child list is, name by name, a sub-sequence of its source's: C13's characterisation of deep_copy) hold, hence
   the loader reads all of it without complaint. *)
Theorem C07_copy_typed_loader_accepts :
  forall (T : tables) (LATEST : N), SpecWF T -> PairOK T ->
  forall (h other : id) (n o : node) (m v : N) (w : world) (c : id) (w' : world) (S : id -> Prop),
  Closed w -> w_nodes w h = Some n -> w_nodes w other = Some o ->
  model_of h w = Val (OK m, w) -> min_version LATEST h w = Val (OK v, w) ->
  TypedU T w -> attach_ok T w h other ->
  OrdSet T w v S -> S h -> S other ->
  (exists pos, e_create_copied_sub_element_at T LATEST h other pos w = Val (OK c, w')) \/
  e_create_copied_sub_element T LATEST h other w = Val (OK c, w') ->
  exists S' : id -> Prop, (forall i, S i -> S' i) /\ S' c /\
  Bounded w' /\ TypedU T w' /\ OrdSet T w' v S' /\
  forall (fuel : nat) (i : id) (ni : node) (lt : etype),
    S' i -> w_nodes w' i = Some ni -> rel_ok T (snd lt) (snd (n_type ni)) = true -> LoaderWalk T fuel w' v i lt.
Proof. exact copy_attach_walk. Qed.

(* ------------------------------------------------------------------ the reload clause over the bytes ArxmlFile::serialize writes
   (closes the two hypotheses C07_reload_clean_composed left open, as far as they follow from the world) *)

(* [U] Tree/Project.v proj is agent-c10's projection (Tree/Files.v fproj) *)
Theorem C07_proj_is_fproj :
  forall (w : world) (ff : option N) (fuel : nat) (i : id), proj fuel w ff i = fproj fuel w ff i.
Proof. exact proj_eq_fproj. Qed.

(* [U] with C10_file_self_contained: the hypothesis "f_serialize writes serialize_file of the projection" is gone — the
   statement is about the text f_serialize returns (set_version included).  Remaining: NoHollow (C10: an element all of whose
   content belongs to other files is written as an empty element) and RootCanon of the projection. *)
Theorem C07_reload_clean_file :
  forall (strict : bool) (T : tables) (tab_el tab_at tab_en : nametab) (check_fn : N -> list N -> res bool)
         (float_fmt : N -> list N) (float_parse : list N -> option N) (attr_schema_location : N) (ver : N),
  SpecWF T ->
  forall (w : world) (f : N) (text : list N) (w' : world),
  f_serialize T tab_el tab_at tab_en check_fn float_fmt attr_schema_location f w = Val (OK text, w') ->
  exists fl x, nth_opt (w_files w) (N.to_nat f) = Some fl /\ nth_opt (w_models w) (N.to_nat (f_model fl)) = Some x /\
    forall t, proj (fuel_of w') w' (Some f) (m_root x) = Some t ->
      WorldOK T check_fn ver w' (Some f) ->
      NoHollow T w' (Some f) (m_root x) ->
      RoundTripFile.RootCanon strict T tab_el tab_at tab_en check_fn float_fmt float_parse ver t ->
      SVNR T check_fn ver t /\
      exists st, Parser.load strict T tab_el tab_at tab_en check_fn float_parse text = Val (Parser.Ret t st) /\
                 Parser.p_warnings st = [] /\ Parser.p_version st = ver /\ Parser.p_standalone st = f_standalone fl.
Proof. exact reload_clean_file. Qed.

(* [U] RootCanon of the projection from conditions on the WORLD: WorldOK supplies every structural premise of C01's Canon
   (children resolve with their types, no choice conflict, multiplicities — read off the loader's own scan, which is silent on an
   ordered child list —, SHORT-NAME where named); WorldCanon / RootHeader (Tree/ProjectCanon.v) are the value-level rest:
   comments and names that read back, canonical value spellings, every REQUIRED attribute present (the complaint the property
   allows lives here), non-blank text (finding string-blank-or-empty), the layout of the kept content, the header attributes
   of the version (finding root-namespace-editable). *)
Theorem C07_projection_canonical :
  forall (strict : bool) (T : tables) (tab_el tab_at tab_en : nametab) (check_fn : N -> list N -> res bool)
         (float_fmt : N -> list N) (float_parse : list N -> option N) (ver : N),
  SpecWF T ->
  forall (w : world) (ff : option N) (root : id),
  WorldOK T check_fn ver w ff ->
  WorldCanon T tab_el tab_at tab_en check_fn float_fmt float_parse ver w ff root ->
  RootHeader strict T tab_el tab_at tab_en check_fn float_fmt float_parse ver w ff root ->
  forall (fuel : nat) (t : Parser.etree), proj fuel w ff root = Some t ->
  RoundTripFile.RootCanon strict T tab_el tab_at tab_en check_fn float_fmt float_parse ver t.
Proof. exact proj_rootcanon. Qed.

(* [U] the reload clause with hypotheses on the world only: what ArxmlFile::serialize writes for a file of a world that is
   node-wise OK and canonical, loaded alone (strict or lenient), is exactly the file's projection, without any warning. *)
Theorem C07_reload_clean_world :
  forall (strict : bool) (T : tables) (tab_el tab_at tab_en : nametab) (check_fn : N -> list N -> res bool)
         (float_fmt : N -> list N) (float_parse : list N -> option N) (attr_schema_location : N) (ver : N),
  SpecWF T ->
  forall (w : world) (f : N) (text : list N) (w' : world),
  f_serialize T tab_el tab_at tab_en check_fn float_fmt attr_schema_location f w = Val (OK text, w') ->
  exists fl x, nth_opt (w_files w) (N.to_nat f) = Some fl /\ nth_opt (w_models w) (N.to_nat (f_model fl)) = Some x /\
    forall t, proj (fuel_of w') w' (Some f) (m_root x) = Some t ->
      WorldOK T check_fn ver w' (Some f) ->
      WorldCanon T tab_el tab_at tab_en check_fn float_fmt float_parse ver w' (Some f) (m_root x) ->
      RootHeader strict T tab_el tab_at tab_en check_fn float_fmt float_parse ver w' (Some f) (m_root x) ->
      NoHollow T w' (Some f) (m_root x) ->
      exists st, Parser.load strict T tab_el tab_at tab_en check_fn float_parse text = Val (Parser.Ret t st) /\
                 Parser.p_warnings st = [] /\ Parser.p_version st = ver /\ Parser.p_standalone st = f_standalone fl.
Proof. exact reload_clean_world. Qed.

(* ------------------------------------------------------------------ move: the order invariant of the destination without side cases *)
(* [U] closes the two side hypotheses of C07_order_inv_move part 1 ("ms = m", "vs = v") and the excluded combination
   "the parent link names h but the models differ": the model of a child is the model of its parent (model_of walks the
   parent links), a version difference makes the call fail with VersionMismatch, and move_element_here of an element that
   already is a child of the destination changes nothing.  So: under EVERY successful move_element_here[_at] the child list of
   the destination stays in specification order (for the other nodes see C07_order_inv_move part 2). *)
Theorem C07_order_inv_move_all :
  forall (T : tables), SpecWF T ->
  forall (tab_en : nametab) (check_fn : N -> list N -> res bool) (LATEST : N)
         (h mv : id) (n mn : node) (ms m vs v : N) (w : world) (c : id) (w' : world) (items : list (option N)),
  w_nodes w h = Some n -> w_nodes w mv = Some mn ->
  model_of mv w = Val (OK ms, w) -> model_of h w = Val (OK m, w) ->
  min_version LATEST mv w = Val (OK vs, w) -> min_version LATEST h w = Val (OK v, w) ->
  items_of w (n_content n) = Some items -> Ordered T (n_type n) v items ->
  (exists pos, e_move_element_here_at T tab_en check_fn LATEST h mv pos w = Val (OK c, w')) \/
  e_move_element_here T tab_en check_fn LATEST h mv w = Val (OK c, w') ->
  exists n' items', w_nodes w' h = Some n' /\ n_type n' = n_type n /\
    items_of w' (n_content n') = Some items' /\ Ordered T (n_type n) v items'.
Proof. exact order_inv_move_all. Qed.

(* ------------------------------------------------------------------ copy across versions: nested element without SHORT-NAME *)
(* [F witness] known finding C07 copy-unnamed-into-named-version, on the current tables, in a world built by the editing calls:
   the copy of NETWORK-CONFIGURATIONS (built in an AUTOSAR_00045 file) below LOG-AND-TRACE-INSTANTIATION of an AUTOSAR_00046 file
   succeeds; the nested ETHERNET-NETWORK-CONFIGURATION k is listed by the copy's type with k's own type, that type is
   identifiable in the version of the target, k has no content at all (no SHORT-NAME) — the loader reports
   RequiredSubelementMissing — and create_sub_element refuses to make the same element at the same place (ItemNameRequired).
   The history uses the validator that accepts every item name (ok_check). *)
Theorem C07_copy_keeps_unnamed_nested_refuted :
  forall (tab_el tab_en : nametab) (root_attrs : list (N * cdata)),
  exists (w : world) (h other c : id) (w' : world) (nc nk : node) (k : id) (v : N) (w2 : world),
    run_ops RT tab_el tab_en ok_check REAL_LATEST root_attrs unnamed_ops (mkWorld (fun _ => None) 0 [] []) = Val w /\
    e_create_copied_sub_element RT REAL_LATEST h other w = Val (OK c, w') /\
    min_version REAL_LATEST h w' = Val (OK v, w') /\
    w_nodes w' c = Some nc /\ In (CElem k) (n_content nc) /\ w_nodes w' k = Some nk /\
    is_named_in_version RT (n_type nk) v = Val true /\ n_content nk = [] /\
    find_sub_element RT (n_type nc) (n_name nk) v = Val (Some (n_type nk, [0])) /\
    e_create_sub_element RT REAL_LATEST c (n_name nk) w' = Val (ER ItemNameRequired, w2).
Proof. exact copy_keeps_unnamed_nested. Qed.

(* ------------------------------------------------------------------ histories: specification order is an invariant of the API *)
(* [U] In every world reached from the empty world by ANY history of the operations of Tree/Script.v — successful or failing
   calls alike — all of whose create_file calls use one version v (single_version v ops: decidable, a condition on the history
   alone; v must be a version the model knows: v <= LATEST), the child list of EVERY allocated element (attached, removed or
   left over by a failed copy) is in specification order for v, on every table set with SpecWF.
   Per operation: the 15 operations that neither allocate nor add a sub-element only shrink child lists (Tree/OrdFrameOps.v);
   create / create_named / get_or_create insert inside the computed range (C07_range_exact); copy: deep_copy's child lists are
   sub-sequences, name by name, of the source's, the destination by C07_order_inv_copy; move: the destination by
   C07_order_inv_move_all, the rest by a frame.  The version: all files have version v and local file sets only name existing
   files, hence Element::min_version answers v (Tree/OrdHist.v mv_of_files).
   Outside the side condition the statement is false: C07_order_history_refuted (known finding mixed-version-files).  The order
   is by the STORED types: what move / copy below a parent that lists the name with another type do to the loader's view is
   C07_move_resolves_type_refuted / C07_move_typed_loader_accepts. *)
Theorem C07_order_histories :
  forall T : tables, SpecWF T ->
  forall (tab_el tab_en : nametab) (check_fn : N -> list N -> res bool) (LATEST : N) (root_attrs : list (N * cdata)) (v : N),
  v <= LATEST ->
  forall (ops : list op) (w : world),
  single_version v ops = true ->
  run_ops T tab_el tab_en check_fn LATEST root_attrs ops empty_world = Val w ->
  forall (i : id) (n : node), w_nodes w i = Some n ->
  exists items, items_of w (n_content n) = Some items /\ Ordered T (n_type n) v items.
Proof. exact order_histories. Qed.

(* [F+U] the same on the tables of the current source *)
Theorem C07_order_histories_real :
  forall (tab_el tab_en : nametab) (check_fn : N -> list N -> res bool) (root_attrs : list (N * cdata)) (v : N),
  v <= REAL_LATEST ->
  forall (ops : list op) (w : world),
  single_version v ops = true ->
  run_ops RT tab_el tab_en check_fn REAL_LATEST root_attrs ops empty_world = Val w ->
  forall (i : id) (n : node), w_nodes w i = Some n ->
  exists items, items_of w (n_content n) = Some items /\ Ordered RT (n_type n) v items.
Proof. exact order_histories_real. Qed.

(* ------------------------------------------------------------------ end to end: an API-built file reloads to itself *)

(* [U] soundness of the boolean checker Tree/WorldCheck.v world_checkb (node by node over the allocated ids: exact child types,
   SHORT-NAME where identifiable, not hollow, WorldCanon, RootHeader, the projection exists): everything
   C07_reload_clean_world asks of the world EXCEPT specification order. *)
Theorem C07_world_check_sound :
  forall (strict : bool) (T : tables) (tab_el tab_at tab_en : nametab) (check_fn : N -> list N -> res bool)
         (float_fmt : N -> list N) (float_parse : list N -> option N) (ver : N) (w : world) (ff : option N) (root : id),
  Fresh w ->
  world_checkb T tab_el tab_at tab_en check_fn float_fmt float_parse ver w ff root = true ->
  (forall i n, w_nodes w i = Some n ->
     (forall c cn, In (CElem c) (n_content n) -> w_nodes w c = Some cn ->
        exists idx, find_sub_element T (n_type n) (n_name cn) ver = Val (Some (n_type cn, idx))) /\
     (is_named_in_version T (n_type n) ver = Val true ->
        exists c cn, In (CElem c) (n_content n) /\ w_nodes w c = Some cn /\ passes ff cn = true /\ n_name cn = name_short_name T)) /\
  WorldCanon T tab_el tab_at tab_en check_fn float_fmt float_parse ver w ff root /\
  RootHeader strict T tab_el tab_at tab_en check_fn float_fmt float_parse ver w ff root /\
  NoHollow T w ff root /\
  exists t, proj (fuel_of w) w ff root = Some t.
Proof. exact world_check_sound. Qed.

(* [U] the end-to-end statement: take ANY history of editing calls from the empty world whose create_file calls all use the
   version v; serialize a file; if the boolean checker accepts the world (values canonical, required attributes present, stored
   types = resolved types, header of the version ...), then loading the written text — strictly or leniently — returns exactly
   the projection of the file, with no warning at all, in version v.  Specification order, conflict-freeness and multiplicities
   of every child list are NOT checked: they follow from the history (C07_order_histories).
   Where the checker answers false the recorded findings live: string-blank-or-empty, root-namespace-editable, the allowed
   RequiredAttributeMissing (the checker asks for every required attribute, so the conclusion is `no warning`),
   move/copy-keeps-source-type (typedb), adjacent-text-items-merge and insert-before-short-name (layout). *)
Theorem C07_api_built_reloads :
  forall (strict : bool) (T : tables) (tab_el tab_at tab_en : nametab) (check_fn : N -> list N -> res bool)
         (float_fmt : N -> list N) (float_parse : list N -> option N) (attr_schema_location LATEST : N)
         (root_attrs : list (N * cdata)) (v : N),
  SpecWF T -> v <= LATEST ->
  forall (ops : list op) (w : world),
  single_version v ops = true ->
  run_ops T tab_el tab_en check_fn LATEST root_attrs ops empty_world = Val w ->
  forall (f : N) (text : list N) (w' : world),
  f_serialize T tab_el tab_at tab_en check_fn float_fmt attr_schema_location f w = Val (OK text, w') ->
  exists fl x, nth_opt (w_files w) (N.to_nat f) = Some fl /\ nth_opt (w_models w) (N.to_nat (f_model fl)) = Some x /\
    f_version fl = v /\
    (world_checkb T tab_el tab_at tab_en check_fn float_fmt float_parse v w' (Some f) (m_root x) = true ->
     exists t st, proj (fuel_of w') w' (Some f) (m_root x) = Some t /\
       Parser.load strict T tab_el tab_at tab_en check_fn float_parse text = Val (Parser.Ret t st) /\
       Parser.p_warnings st = [] /\ Parser.p_version st = v /\ Parser.p_standalone st = f_standalone fl).
Proof. exact api_built_reloads. Qed.

(* [F] non-vacuity on the regenerated tables and name tables: the history new model / file in the latest version / AR-PACKAGES /
   AR-PACKAGE n1 is single-version, serializes, the checker EVALUATES to true on the resulting world, and the theorem gives:
   the text loads strictly to the projection without warning (not obtained by running the loader) *)
Theorem C07_api_built_reloads_example :
  single_version REAL_LATEST ex_ops = true /\
  run_ops RT HashRealElement.tab_element HashRealEnum.tab_enum ok_check REAL_LATEST ex_root_attrs ex_ops empty_world = Val ex_world /\
  f_serialize RT HashRealElement.tab_element HashRealAttr.tab_attr HashRealEnum.tab_enum ok_check no_ffmt 78 0 ex_world
    = Val (OK ex_text, ex_world') /\
  world_checkb RT HashRealElement.tab_element HashRealAttr.tab_attr HashRealEnum.tab_enum ok_check no_ffmt no_fparse REAL_LATEST
    ex_world' (Some 0) 0 = true /\
  exists t st, proj (fuel_of ex_world') ex_world' (Some 0) 0 = Some t /\
    Parser.load true RT HashRealElement.tab_element HashRealAttr.tab_attr HashRealEnum.tab_enum ok_check no_fparse ex_text
      = Val (Parser.Ret t st) /\
    Parser.p_warnings st = [] /\ Parser.p_version st = REAL_LATEST.
Proof. exact api_built_reloads_example. Qed.

(* ------------------------------------------------------------------ SHORT-NAME first *)
(* [F witness] known finding C07 insert-before-short-name (= C04's K04-front), on the current tables, in a world built by the
   editing calls: ECUC-QUERY-EXPRESSION n10 in an AUTOSAR 4.0.1 file is identifiable and has MIXED content; the insertion range
   of CONFIG-ELEMENT-DEF-GLOBAL-REF is (0, 1), create_sub_element_at(.., 0) succeeds and puts the new element in FRONT of the
   SHORT-NAME.  The child list is still in specification order (Mixed: any order), but item_name (which reads the first item)
   answers None while the path index keeps /n1/n3/n5/n7/n10; the loader (fix f86b268) reports RequiredSubelementMissing. *)
Theorem C07_insert_before_short_name_refuted :
  forall (tab_el tab_en : nametab) (root_attrs : list (N * cdata)),
  exists (w : world) (h s c : id) (nh : node) (w' : world) (n ns : node),
    run_ops RT tab_el tab_en ok_check REAL_LATEST root_attrs front_ops (mkWorld (fun _ => None) 0 [] []) = Val w /\
    w_nodes w h = Some nh /\ n_content nh = [CElem s] /\
    is_named_in_version RT (n_type nh) 1 = Val true /\ content_mode RT (n_type nh) = Val MMixed /\
    item_name RT nh w = Val (OK (Some [110; 49; 48]), w) /\
    calc_element_insert_range RT nh 959 1 w = Val (OK (0, 1), w) /\
    e_create_sub_element_at RT REAL_LATEST h 959 0 w = Val (OK c, w') /\
    w_nodes w' h = Some n /\ n_content n = [CElem c; CElem s] /\
    w_nodes w' s = Some ns /\ n_name ns = name_short_name RT /\
    Ordered RT (n_type n) 1 [Some 959; Some (name_short_name RT)] /\
    item_name RT n w' = Val (OK None, w') /\
    get_element_by_path 0 [47; 110; 49; 47; 110; 51; 47; 110; 53; 47; 110; 55; 47; 110; 49; 48] w' = Val (OK (Some h), w').
Proof. exact insert_before_short_name. Qed.

(* [U] for every identifiable type whose content is a Sequence, "SHORT-NAME first" IS part of specification order: in an
   ordered child list nothing but (another) SHORT-NAME stands before a SHORT-NAME.  No table hypothesis. *)
Theorem C07_ordered_short_first :
  forall (T : tables) (ty : etype) (v : N) (items : list (option N)),
  is_named_in_version T ty v = Val true -> content_mode T ty = Val MSequence ->
  Ordered T ty v items ->
  forall pre post a, items = pre ++ Some (name_short_name T) :: post -> In (Some a) pre -> a = name_short_name T.
Proof. exact ordered_short_first. Qed.

(* [F] on the current tables exactly two identifiable datatypes do not have Sequence content: 1298 (Choice) and 1923 (Mixed,
   the type of the witness above) *)
Theorem C07_named_nonseq_real : named_nonseq RT = [(1298, MChoice); (1923, MMixed)].
Proof. exact named_nonseq_real. Qed.

(* ------------------------------------------------------------------ make_unique_item_name and the length limit of SHORT-NAME *)
(* [F witness] known finding C07 unique-name-exceeds-max-length, on the current tables, in a world built by the editing calls:
   two SYSTEM elements named 'N' + 126 x 'a' (127 characters) in two packages; move_element_here of one beside the other
   succeeds for every validator and renames it to <name>_1 — 129 characters, stored in the SHORT-NAME although the SHORT-NAME
   specification allows 128 and check_value (what every setter applies) refuses exactly this value. *)
Theorem C07_unique_name_too_long_refuted :
  forall (tab_el tab_en : nametab) (check_fn : N -> list N -> res bool) (root_attrs : list (N * cdata)),
  exists (w : world) (h mv : id) (w' : world) (nmv ns : node) (s : id) (nm : list N) (fn : N),
    run_ops RT tab_el tab_en ok_check REAL_LATEST root_attrs long_ops (mkWorld (fun _ => None) 0 [] []) = Val w /\
    e_move_element_here RT tab_en check_fn REAL_LATEST h mv w = Val (OK mv, w') /\
    w_nodes w' mv = Some nmv /\ item_name RT nmv w' = Val (OK (Some nm), w') /\
    nm = long_name ++ [95; 49] /\ List.length nm = 129%nat /\
    n_content nmv = [CElem s] /\ w_nodes w' s = Some ns /\
    chardata_spec RT (n_type ns) = Val (Some (CPattern fn (Some 128))) /\
    check_value check_fn (DString nm) (CPattern fn (Some 128)) REAL_LATEST = Val false.
Proof. exact unique_name_too_long. Qed.

(* [U] the positive side: the generated name is the original name or original ++ "_" ++ decimal k (k >= 1); whenever
   |original| + 1 + digits(k) is within the limit of the specification the length test of check_value passes, i.e. the
   generated name is exactly as valid as the pattern validator judges it *)
Theorem C07_unique_name_valid_when_short :
  forall (T : tables) (check_fn : N -> list N -> res bool) (i : id) (m : N) (pp : list N) (w : world) (name : list N) (w' : world),
  make_unique_item_name T i m pp w = Val (OK name, w') ->
  exists n orig k,
    w_nodes w i = Some n /\ item_name T n w = Val (OK (Some orig), w) /\
    (name = orig \/ (1 <= k /\ name = orig ++ [95] ++ to_dec k)) /\
    forall maxlen fn v,
      N.of_nat (List.length orig) + 1 + N.of_nat (List.length (to_dec k)) <= maxlen ->
      check_value check_fn (DString name) (CPattern fn (Some maxlen)) v = check_fn fn name.
Proof. exact unique_name_valid_when_short. Qed.

(* ------------------------------------------------------------------ the property text without side hypotheses on the new element's type *)
(* [F] on the regenerated tables, for EVERY datatype, every listed sub-element entry and every AUTOSAR version in which the
   entry exists: the name resolves in that version and the type found is identifiable there exactly when the listing
   (sub_element_spec_iter's name_version_mask, which list_valid_sub_elements reports as is_named) says so.
   4 x sharded evaluation, 5080 datatypes x 21 versions. *)
Theorem C07_named_agree_real : forall ty : N, named_agree_b RT ty = true.
Proof. exact named_agree_real. Qed.

(* [U] under that table fact (for the parent's datatype) and for a file version among the 21 AUTOSAR versions: what
   list_valid_sub_elements reports for a name — (is_named, is_allowed) — is exactly what the un-named creation calls do:
   reported not named: allowed <-> create_sub_element succeeds, and create_sub_element_at p succeeds <-> p in the reported
   range; reported named: the un-named calls never succeed (create_named_sub_element[_at]: C07_create_named_iff). *)
Theorem C07_listing_exact :
  forall (T : tables) (LATEST : N) (h : id) (n : node) (v : N) (w : world) (r : list valid_info) (w' : world) (vi : valid_info),
  named_agree_b T (snd (n_type n)) = true -> In v VERSIONS ->
  w_nodes w h = Some n -> w_nodes w (w_next w) = None -> min_version LATEST h w = Val (OK v, w) ->
  list_valid_sub_elements T LATEST h w = Val (OK r, w') -> In vi r ->
  (vi_named vi = false ->
     (vi_allowed vi = true <-> exists c w2, e_create_sub_element T LATEST h (vi_name vi) w = Val (OK c, w2)) /\
     (forall lo hi w1, calc_element_insert_range T n (vi_name vi) v w = Val (OK (lo, hi), w1) ->
        forall pos, (exists c w2, e_create_sub_element_at T LATEST h (vi_name vi) pos w = Val (OK c, w2)) <-> lo <= pos <= hi)) /\
  (vi_named vi = true ->
     forall pos c w2, e_create_sub_element_at T LATEST h (vi_name vi) pos w <> Val (OK c, w2)).
Proof. exact listing_exact. Qed.

(* [F+U] the same on the real tables with no table hypothesis left; the first clause says what is_named means: the
   named-ness IN THE FILE VERSION of the type the name resolves to (not "in any version": C07_version_dependent_named_real) *)
Theorem C07_listing_exact_real :
  forall (h : id) (n : node) (v : N) (w : world) (r : list valid_info) (w' : world) (vi : valid_info),
  In v VERSIONS ->
  w_nodes w h = Some n -> w_nodes w (w_next w) = None -> min_version REAL_LATEST h w = Val (OK v, w) ->
  list_valid_sub_elements RT REAL_LATEST h w = Val (OK r, w') -> In vi r ->
  (exists et ix, find_sub_element RT (n_type n) (vi_name vi) v = Val (Some (et, ix)) /\
                 is_named_in_version RT et v = Val (vi_named vi)) /\
  (vi_named vi = false ->
     (vi_allowed vi = true <-> exists c w2, e_create_sub_element RT REAL_LATEST h (vi_name vi) w = Val (OK c, w2)) /\
     (forall lo hi w1, calc_element_insert_range RT n (vi_name vi) v w = Val (OK (lo, hi), w1) ->
        forall pos, (exists c w2, e_create_sub_element_at RT REAL_LATEST h (vi_name vi) pos w = Val (OK c, w2)) <-> lo <= pos <= hi)) /\
  (vi_named vi = true ->
     forall pos c w2, e_create_sub_element_at RT REAL_LATEST h (vi_name vi) pos w <> Val (OK c, w2)).
Proof. exact listing_exact_real. Qed.

(* [F] the version dependence is real: CAN-TP-ADDRESS has one type in all versions, without SHORT-NAME in 4.0.1, with one later *)
Theorem C07_version_dependent_named_real :
  find_sub_element RT (0, 516) 2866 1 = Val (Some ((766, 511), [0])) /\
  find_sub_element RT (0, 516) 2866 2 = Val (Some ((766, 511), [0])) /\
  is_named_in_version RT (766, 511) 1 = Val false /\ is_named_in_version RT (766, 511) 2 = Val true /\
  is_named RT (766, 511) = Val true.
Proof. exact version_dependent_named_real. Qed.

(* [U] the NAMED half of the property text: for a name that list_valid_sub_elements reports as named,
   create_named_sub_element_at succeeds EXACTLY when the name is reported as allowed, the position lies in the reported range
   and the item name is a valid fresh name (fresh_valid_name: not empty, accepted by the SHORT-NAME specification of the type
   the name resolves to in the file version, the parent has a path, parent_path/item is not yet an identifiable of the model) *)
Theorem C07_listing_named_creatable :
  forall (T : tables), SpecWF T ->
  forall (check_fn : N -> list N -> res bool) (LATEST : N) (h : id) (n : node) (m v : N) (w : world)
         (r : list valid_info) (w' : world) (vi : valid_info),
  named_agree_b T (snd (n_type n)) = true -> In v VERSIONS ->
  w_nodes w h = Some n -> w_nodes w (w_next w) = None -> w_nodes w (w_next w + 1) = None ->
  model_of h w = Val (OK m, w) -> min_version LATEST h w = Val (OK v, w) ->
  list_valid_sub_elements T LATEST h w = Val (OK r, w') -> In vi r -> vi_named vi = true ->
  exists et ix, find_sub_element T (n_type n) (vi_name vi) v = Val (Some (et, ix)) /\ is_named_in_version T et v = Val true /\
    forall item pos,
      (exists c w2, e_create_named_sub_element_at T check_fn LATEST h (vi_name vi) item pos w = Val (OK c, w2)) <->
      (vi_allowed vi = true /\
       (exists lo hi, calc_element_insert_range T n (vi_name vi) v w = Val (OK (lo, hi), w) /\ lo <= pos <= hi) /\
       fresh_valid_name T check_fn n m v et item w).
Proof. exact listing_named_creatable. Qed.

(* [F+U] the property text over HISTORIES on the real tables, no hypothesis on the file version or the allocation state: in
   every world reached from the empty world by a history of editing calls whose create_file calls all use one of the 21
   AUTOSAR versions v, every element that belongs to a file has version v, and for every name list_valid_sub_elements reports:
   is_named is the named-ness in v of the type the name resolves to; not named: allowed <-> create_sub_element succeeds and
   create_sub_element_at p succeeds <-> p in the reported range; named: the un-named calls never succeed *)
Theorem C07_listing_exact_histories_real :
  forall (tab_el tab_en : nametab) (check_fn : N -> list N -> res bool) (root_attrs : list (N * cdata)) (v : N),
  In v VERSIONS ->
  forall (ops : list op) (w : world),
  single_version v ops = true ->
  run_ops RT tab_el tab_en check_fn REAL_LATEST root_attrs ops empty_world = Val w ->
  forall (h : id) (n : node) (vh : N) (w1 : world) (r : list valid_info) (w' : world) (vi : valid_info),
  w_nodes w h = Some n -> min_version REAL_LATEST h w = Val (OK vh, w1) ->
  list_valid_sub_elements RT REAL_LATEST h w = Val (OK r, w') -> In vi r ->
  vh = v /\
  (exists et ix, find_sub_element RT (n_type n) (vi_name vi) v = Val (Some (et, ix)) /\
                 is_named_in_version RT et v = Val (vi_named vi)) /\
  (vi_named vi = false ->
     (vi_allowed vi = true <-> exists c w2, e_create_sub_element RT REAL_LATEST h (vi_name vi) w = Val (OK c, w2)) /\
     (forall lo hi w2, calc_element_insert_range RT n (vi_name vi) v w = Val (OK (lo, hi), w2) ->
        forall pos, (exists c w3, e_create_sub_element_at RT REAL_LATEST h (vi_name vi) pos w = Val (OK c, w3)) <-> lo <= pos <= hi)) /\
  (vi_named vi = true ->
     forall pos c w2, e_create_sub_element_at RT REAL_LATEST h (vi_name vi) pos w <> Val (OK c, w2)).
Proof. exact listing_exact_histories_real. Qed.

(* [F+U] ... and the named half over histories *)
Theorem C07_listing_named_histories_real :
  forall (tab_el tab_en : nametab) (check_fn : N -> list N -> res bool) (root_attrs : list (N * cdata)) (v : N),
  In v VERSIONS ->
  forall (ops : list op) (w : world),
  single_version v ops = true ->
  run_ops RT tab_el tab_en check_fn REAL_LATEST root_attrs ops empty_world = Val w ->
  forall (h : id) (n : node) (m vh : N) (w1 w2 : world) (r : list valid_info) (w' : world) (vi : valid_info),
  w_nodes w h = Some n -> model_of h w = Val (OK m, w1) -> min_version REAL_LATEST h w = Val (OK vh, w2) ->
  list_valid_sub_elements RT REAL_LATEST h w = Val (OK r, w') -> In vi r -> vi_named vi = true ->
  exists et ix, find_sub_element RT (n_type n) (vi_name vi) v = Val (Some (et, ix)) /\ is_named_in_version RT et v = Val true /\
    forall item pos,
      (exists c w3, e_create_named_sub_element_at RT check_fn REAL_LATEST h (vi_name vi) item pos w = Val (OK c, w3)) <->
      (vi_allowed vi = true /\
       (exists lo hi, calc_element_insert_range RT n (vi_name vi) v w = Val (OK (lo, hi), w) /\ lo <= pos <= hi) /\
       fresh_valid_name RT check_fn n m v et item w).
Proof. exact listing_named_histories_real. Qed.
