(* Properties/C12.v — "Single-threaded use never panics, hangs or reports a spurious lock conflict": the PANIC / LOOP half
   over the tree model (the lock half is Properties/C12Locks.v).

   Model: Tree/Heap.v, Ops.v, Script.v — every Rust expression that can panic is `Pan site`, every upward / recursive walk
   runs on fuel (`Fuel` = the Rust would loop for ever).  The site table is in the header of Tree/NoPanic.v.
   PanicFree w  = Closed w (everything a node / model / index map mentions exists; node types are checked types of T;
                  names and enum values are discriminants) + finite parent chains + child lists agree with parent links.
   op_wf w o    = the handles in the call are handles (allocated elements, existing models / files), element names and
                  enum values are discriminants of the Rust enums; positions, strings, numbers and WHICH handles
                  (stale, of another model, removed file) are arbitrary.

   C12_no_panic_partial [U, partial coverage]: for every table set passing tables_ok12 and every operation of covered_op
                  the call returns (Ok or Err): no Pan, no Fuel.
   SizeOk w     = every identifiables map has fewer than 10^39 entries (`format!("{counter}")` of make_unique_item_name
                  is injective on the counters that can occur; only the copy operations use it).
   side12 w o   = for move_element_here / _at: the two elements are not in different models (the cross-model path
                  move_element_full is PENDING: it is covered by the correspondence and the fuzzer only).
   C12_coverage   covered_op = every constructor of `op`; the only excluded argument class is set_character_data with a
                  Float value (f64::to_string is not modelled).  So all 26 constructors are covered, two of them
                  (OpMove, OpMoveAt) under side12.
                  pending_op = the rest: covered by the correspondence + implementation fuzzer only.
   C12_closed_preserved_partial [U, partial]: Closed (this development's own part of PanicFree) holds again after
                  create_named_sub_element(+_at), remove_sub_element, set_item_name, set_character_data (non-float),
                  set_reference_target, add_to_file, remove_from_file, whatever they return; the other operations keep it too
                  (every step of their proofs re-establishes it) but the statement is not exported yet; the tree part of
                  PanicFree (finite chains, child lists = parent links) is C03's Core invariant.
   C12_tables_real [F]: tables_ok12 holds for the regenerated tables.
   C12_depth_tree / C12_depth_walk [U]: the subtree below any node has height < number of allocated nodes + 1 (= the fuel
                  the model gives), and the recursive pre-order walk returns exactly when its fuel exceeds the height:
                  recursion depth = nesting depth (the logic half of the stack-overflow question).
   C12_path_suffix [U]: path() of an element ends with its item name (the strip_suffix(..).unwrap() of set_item_name).
   Findings (fixed in /repo, the sites are gone from Ops.v): 1b7bb3a, 72b7a48, a58912b — see findings/C12-panic-*.

   ---- the FULL theorems (the _partial ones above are kept) ----
   Float oracle (Tree/NoPanicFloat.v): run_opF fmt = run_op with Element::set_character_data's `value.to_string()` of a Float
                  replaced by fmt : N -> list N, ANY function from the 64 bits to a byte string (Ops.v has `Pan UNMODELLED` there).
                  C12_oracle_facts: run_opF = run_op on every call without a Float argument; run_opF extends run_op; every step
                  of run_opF is a step of run_op for some argument (so every invariant of run_op histories transfers).
   C12_no_panic_all [U]: EVERY constructor of `op`, every argument: PanicFree w, SizeOk w, RefNoFloat w, op_wf w o
                  => run_opF o w is neither Pan nor Fuel.  No side12 (cross-model moves: Tree/NoPanicProofsMoveX.v), no covered_op.
                  RefNoFloat T w = a reference element holds no Float (its text is taken with to_string by the cross-model move).
   H12 (Tree/NoPanicProofsHist.v) = Core (C03) /\ CharsLeaf /\ OriginsRef (C03) /\ RE /\ RV (C14) /\ RX (C04) /\ PMB (a parent link
                  `PModel m` names an existing model).  C12_invariant [U]: H12 holds in the empty world, is kept by all 26
                  operations (oracle alphabet) whatever they return, and implies PanicFree and RefNoFloat.  This is the
                  "PanicFree preservation for all 26 operations": PanicFree alone is not inductive (it does not say where
                  types and values come from), H12 is, and PanicFree is its consequence in every reachable world.
   C12_no_panic_histories [F tables, U histories]: on the regenerated tables, from the empty world, every history whose calls
                  are well-formed where they run (wf_ops) runs to its end: no call panics or runs out of fuel.
                  C12_no_panic_after_history: the same as "one more call after any history";  C12_no_panic_histories_nofloat:
                  without Float arguments the same for Tree/Script.v's own run_ops;  C12_panicfree_reachable: PanicFree and
                  RefNoFloat in every world run_ops reaches.
   C12_histories_nonvacuous: a concrete history on the real tables that hands a Float to set_character_data of a SHORT-NAME
                  satisfies wf_ops and, with the oracle answering "x1", renames the package to x1 (the UNMODELLED path of Ops.v).
   wf_ops l w   = for each call o of l, at the world w_k where it runs: op_wf w_k o and SizeOk w_k.
   op_wf, precisely (Tree/NoPanic.v), and why it does not restrict the public API:
                  - an element argument is an allocated node id (h < w_next w): an `Element` handle is an Arc that keeps its
                    ElementRaw alive, so a client cannot hold a handle to nothing; REMOVED elements and elements of OTHER models
                    are allocated nodes and are allowed (the theorems cover stale and foreign handles);
                  - a model / file argument is an index into w_models / w_files: `AutosarModel` / `ArxmlFile` handles are Arcs as
                    well (files of another model and removed files are allowed; remove_file only unlinks);
                  - an ElementName argument is inside the ElementName string table and an EnumItem inside a CharacterData::Enum
                    argument is inside the EnumItem table: both are Rust enums, a client cannot build another discriminant;
                  - NOT restricted: positions, strings (names, paths, texts, comments), numbers, versions, attribute names,
                    Float / UnsignedInteger / String values, and which handle is combined with which.
   Hypotheses left: CHECK (the validator functions return a boolean: C19's subject), RootOK (the attribute list that
                  AutosarModel::new gives the root element uses attribute names / enum values of the tables), SizeOk (< 10^39
                  identifiables per model: `format!("{counter}")` of make_unique_item_name; honest and kept — agent-c13's
                  C13_unique_loop_total replaces it by the same kind of bound).
   C12_no_panic2_partial [partial]: the large alphabet op2 (Tree/Script2.v) after any such history: Op1 (all of `op`), OpSort and
                  OpSortModel (agent-c14's C14_never_fails_histories_real) and OpSerializeElem (Tree/NoPanicProofsSer.v: the three
                  string-table lookups, content_mode, the recursion on fuel) are covered; C12_coverage2: PENDING are OpDuplicate,
                  OpLoad, OpSetVersion, OpCheckCompat, OpSerializeFile (parts exist: C02_load_total for the
                  parser, C17_unwrap_safe_real for the mask unwrap, C13_unique_loop_total for the copies' counter loop; not
                  composed to the whole call — the fuzzer and the properties' own harnesses cover them).

   ---- histories over the large alphabet op2 (third package) ----
   H2 = H12 /\ FI (Tree/NoPanicProofsFiles.v): FI = every file record names an existing model and carries a version that is
                  the value of an AutosarVersion discriminant (ver_ok), and local file sets name existing files (agent-c07's NFE).
                  op_wfv: the version argument of create_file is ver_ok — the public API takes an `AutosarVersion`, a Rust enum,
                  so it IS one of the 21 values; the model's `N` is wider, hence the explicit condition.
   C12_no_panic2_histories [F tables, U histories]: from the empty world every history of covered_step2 operations whose calls
                  are well-formed where they run (wf_ops2 / op2_wfh) runs to its end; C12_no_panic2_after_history: one more call.
                  Covered steps: Op1 (all 26), OpSort, OpSortModel, OpSetVersion, OpCheckCompat, OpSerializeFile, OpSerializeElem.
   op2_wfh      = op_wf /\ op_wfv /\ SizeOk for Op1; handles / model numbers / file ids exist; ver_ok for set_version.
   C12_check_compat_total [U]: ArxmlFile::check_version_compatibility / set_version return in every world with H12 and FI.
                  History: the walk read the sub-element mask in the STORED type with the index list of the RECALCULATED type and
                  panicked (index out of bounds) after a move / copy that keeps a stored type the new parent does not list — found
                  here (`avh panics mixup`, 80 scenarios; findings/C12-panic-check-compat-mixup.json), predicted by the model on the
                  regenerated tables, fixed in /repo 96557f4 (the mask is read in the recalculated type), the model followed.
   C12_check_compat_mixup_fixed_real [F]: the state that used to panic (a wf_ops history on the real tables) is now checked.
   C12_serialize_file_total [U]: ArxmlFile::serialize returns for every file record in an H2 world and keeps H2.
   C12_coverage_step2: PENDING as steps are OpDuplicate and OpLoad.  Missing, precisely:
     OpDuplicate  as a CALL it is covered: C12_duplicate_total [U] (D = H2 /\ agent-c10's FilesOwned; dup_sized = SizeOk whenever
                  the call is about to copy a child, the assumption wf_ops makes for every copy of a history) and
                  C12_duplicate_after_history [F]: after any history of covered steps duplicate returns (Ok or Err).
                  As a STEP of a history a SUCCESSFUL duplicate is covered (fourth package, Tree/NoPanicProofsOp3Hist.v):
                  C12_duplicate_keeps_invariant [U]: D holds again after a duplicate that returns Ok (the membership loop only
                  stores file ids of the file map, which are ids of files the call created); C12_no_panic3_histories [F]: from
                  the empty world every history over covered_step3 = all of op2 but OpLoad runs to its end, where op3_wfh asks of
                  OpDuplicate m: the model exists, dup_sized, and the call does not return Err.  A FAILING duplicate returns
                  (C12_duplicate_total) but drops the copy's model record and leaves its root with the parent link `PModel c`
                  (agent-c13's class dup_failed): PMB breaks; `op_wf` would have to exclude those garbage nodes (no handle to
                  them exists in the library) - open.  C12_histories3_nonvacuous: a history with a duplicate on the real tables.
     OpLoad       REJECTED loads are covered steps (fifth package, Tree/NoPanicProofsOp4Hist.v): C12_load_front_total [F]: load_buffer
                  of ANY byte string into an existing model is either rejected without a panic (file name taken, or the parser
                  raises - the parser never panics or loops: C02_load_total composed with the model lookup and the name check) and
                  then returns Err leaving the world untouched, or it is exactly load_parsed on the parser's output;
                  C12_no_panic4_histories [F]: histories over EVERY constructor of op2 run to their end when each call is
                  op4_wfh (as op3_wfh; a load: byte string, rejected); C12_histories4_nonvacuous.  Still PENDING: the load whose
                  buffer the parser ACCEPTS (load_parsed: install, overlap check, merge): missing H12 / FI / FilesOwned for the
                  installed tree (checked types, names, values of the parser's output) and totality of the merge for arbitrary
                  worlds (agent-c09: Good masters only, Tree/LoadRefineIndex.v).
   *)
From AV Require Import Base.Bytes Base.Outcome Hash.HashModel Hash.HashRealEnum Hash.HashRealElement Spec.SpecOps Spec.SpecReal Xml.TablesOk.
From AV Require Import Tree.Heap Tree.Ops Tree.Script Tree.Inv Tree.NoPanic.
From AV Require Import Tree.NoPanicProofsBase Tree.NoPanicProofsDepth Tree.NoPanicProofsCopy2 Tree.NoPanicProofsMain Tree.NoPanicReal.
From AV Require Import Hash.HashRealAttr Tree.Script2 Tree.SortProofsHeap Tree.SortProofsReadyV Tree.IndexProofsNodeInv Tree.NoPanicProofsMoveX Tree.NoPanicFloat
  Tree.NoPanicProofsHist Tree.NoPanicProofsHistReal Tree.NoPanicProofsOp2 Tree.SortProofsReal Tree.NoPanicProofsHistEx.
From AV Require Import Tree.Compat Tree.Serialize Tree.NoPanicProofsFiles Tree.NoPanicProofsSerFile Tree.NoPanicProofsCompat
  Tree.NoPanicProofsCompatEx Tree.NoPanicProofsOp2Hist Tree.NoPanicProofsOp2HistReal Tree.NoPanicProofsOp2HistEx.
From AV Require Tree.Copy Tree.Files Tree.NoPanicProofsDup Tree.NoPanicProofsDupHist Tree.NoPanicProofsOp3Hist Tree.NoPanicProofsOp3HistReal
  Tree.NoPanicProofsOp3HistEx Tree.Load Xml.Parser Tree.NoPanicProofsOp4Hist Tree.NoPanicProofsOp4HistReal.
Open Scope N_scope.

Theorem C12_no_panic_partial :
  forall (T : tables) (tab_el tab_en : nametab) (check_fn : N -> list N -> res bool) (LATEST : N) (root_attrs : list (N * cdata)),
    tables_ok12 T = true ->
    (forall fn s, exists b, check_fn fn s = Val b) ->
    nametab_ok tab_en = true ->
    name_ok tab_el (name_short_name T) ->
    forall w o,
      covered_op o = true -> PanicFree T tab_el tab_en w -> SizeOk w -> op_wf tab_el tab_en w o -> side12 w o ->
      (forall s, run_op T tab_el tab_en check_fn LATEST root_attrs o w <> Pan s) /\
      run_op T tab_el tab_en check_fn LATEST root_attrs o w <> Fuel.
Proof. exact no_panic_covered'. Qed.

Theorem C12_closed_preserved_partial :
  forall (T : tables) (tab_el tab_en : nametab) (check_fn : N -> list N -> res bool) (LATEST : N) (root_attrs : list (N * cdata)),
    tables_ok12 T = true ->
    (forall fn s, exists b, check_fn fn s = Val b) ->
    nametab_ok tab_en = true ->
    name_ok tab_el (name_short_name T) ->
    forall w o,
      closed_pres_op o = true -> PanicFree T tab_el tab_en w -> op_wf tab_el tab_en w o ->
      forall r w', run_op T tab_el tab_en check_fn LATEST root_attrs o w = Val (r, w') -> Closed T tab_el tab_en w'.
Proof. exact closed_preserved_partial. Qed.

Theorem C12_coverage : forall o,
  covered_op o = match o with OpSetCData _ (DFloat _) => false | _ => true end.
Proof. exact coverage. Qed.

Theorem C12_tables_real : tables_ok12 RT = true.
Proof. exact tables_ok12_real. Qed.

Theorem C12_enum_table_real : nametab_ok Hash.HashRealEnum.tab_enum = true.
Proof. exact en_ok_real. Qed.

Theorem C12_short_name_real : name_ok Hash.HashRealElement.tab_element (name_short_name RT).
Proof. exact short_ok_real. Qed.

Theorem C12_depth_tree :
  forall (T : tables) (tab_el tab_en : nametab) w i,
    PanicFree T tab_el tab_en w -> i < w_next w -> hb w i (fuel_of w).
Proof. exact depth_tree. Qed.

Theorem C12_depth_walk :
  forall (T : tables) (tab_el tab_en : nametab) w f i,
    Closed T tab_el tab_en w -> i < w_next w ->
    (hb w i f <-> exists l, dfs_ids f i w = Val (OK l, w)).
Proof. exact depth_walk. Qed.

Theorem C12_path_suffix :
  forall (T : tables) (tab_el tab_en : nametab) (check_fn : N -> list N -> res bool) (LATEST : N) (root_attrs : list (N * cdata)),
    tables_ok12 T = true ->
    (forall fn s, exists b, check_fn fn s = Val b) ->
    forall w n,
      Closed T tab_el tab_en w -> UpWF w -> node_ok T tab_el tab_en w n ->
      exists r, path_of T n w = Val (r, w) /\
        forall p own, r = OK p -> item_name T n w = Val (OK (Some own), w) -> exists base, strip_suffix own p = Some base.
Proof. exact path_suffix. Qed.

(* ================= the full theorems ================= *)

Theorem C12_oracle_facts :
  forall (T : tables) (tab_el tab_en : nametab) (check_fn : N -> list N -> res bool) (LATEST : N) (root_attrs : list (N * cdata))
         (fmt : N -> list N) (o : op),
    (covered_op o = true -> run_opF T tab_el tab_en check_fn LATEST root_attrs fmt o = run_op T tab_el tab_en check_fn LATEST root_attrs o) /\
    (forall w x, run_op T tab_el tab_en check_fn LATEST root_attrs o w = Val x ->
                 run_opF T tab_el tab_en check_fn LATEST root_attrs fmt o w = Val x) /\
    (forall w r w', run_opF T tab_el tab_en check_fn LATEST root_attrs fmt o w = Val (r, w') ->
                    exists o' r', run_op T tab_el tab_en check_fn LATEST root_attrs o' w = Val (r', w')).
Proof. exact oracle_facts. Qed.

Theorem C12_no_panic_all :
  forall (T : tables) (tab_el tab_en : nametab) (check_fn : N -> list N -> res bool) (LATEST : N) (root_attrs : list (N * cdata)),
    tables_ok12 T = true ->
    (forall fn s, exists b, check_fn fn s = Val b) ->
    nametab_ok tab_en = true ->
    name_ok tab_el (name_short_name T) ->
    forall (fmt : N -> list N) w o,
      PanicFree T tab_el tab_en w -> SizeOk w -> RefNoFloat T w -> op_wf tab_el tab_en w o ->
      (forall s, run_opF T tab_el tab_en check_fn LATEST root_attrs fmt o w <> Pan s) /\
      run_opF T tab_el tab_en check_fn LATEST root_attrs fmt o w <> Fuel.
Proof. exact no_panic_all'. Qed.

Theorem C12_invariant :
  forall (T : tables) (tab_el tab_at tab_en : nametab) (check_fn : N -> list N -> res bool) (LATEST : N) (root_attrs : list (N * cdata)),
    tables_ok12 T = true ->
    (forall i e, i < n_elements T -> T_elements T i = Some e -> to_str tab_el (ed_name e) <> None) ->
    (forall k items it, T_cdata T k = Some (CEnum items) -> In it items -> to_str tab_en (fst it) <> None) ->
    (forall k name cdid req, T_attributes T k = Some (name, cdid, req) -> to_str tab_at name <> None) ->
    attrV tab_at tab_en root_attrs ->
    (forall ty cs v ver, is_ref T ty = Val true -> chardata_spec T ty = Val (Some cs) ->
                         check_value check_fn v cs ver = Val true -> exists s, v = DString s) ->
    (forall ty, et_new T (autosar_element T) = Val ty -> plainty T ty) ->
    forall (fmt : N -> list N),
      H12 T tab_el tab_at tab_en empty_world /\
      (forall o w r w', H12 T tab_el tab_at tab_en w -> run_opF T tab_el tab_en check_fn LATEST root_attrs fmt o w = Val (r, w') ->
                        H12 T tab_el tab_at tab_en w') /\
      (forall w, H12 T tab_el tab_at tab_en w -> PanicFree T tab_el tab_en w /\ RefNoFloat T w).
Proof. exact H12_invariant. Qed.

Theorem C12_no_panic_histories :
  forall (check_fn : N -> list N -> res bool) (LATEST : N) (root_attrs : list (N * cdata)) (fmt : N -> list N),
    (forall fn s, exists b, check_fn fn s = Val b) ->
    (forall a, In a root_attrs -> to_str tab_attr (fst a) <> None /\ cdata_named tab_enum (snd a)) ->
    forall l,
      wf_ops RT tab_element tab_enum check_fn LATEST root_attrs fmt l empty_world ->
      exists w', run_opsF RT tab_element tab_enum check_fn LATEST root_attrs fmt l empty_world = Val w'.
Proof. exact no_panic_histories_real. Qed.

Theorem C12_no_panic_after_history :
  forall (check_fn : N -> list N -> res bool) (LATEST : N) (root_attrs : list (N * cdata)) (fmt : N -> list N),
    (forall fn s, exists b, check_fn fn s = Val b) ->
    (forall a, In a root_attrs -> to_str tab_attr (fst a) <> None /\ cdata_named tab_enum (snd a)) ->
    forall l w o,
      run_opsF RT tab_element tab_enum check_fn LATEST root_attrs fmt l empty_world = Val w ->
      wf_ops RT tab_element tab_enum check_fn LATEST root_attrs fmt l empty_world ->
      op_wf tab_element tab_enum w o -> SizeOk w ->
      (forall s, run_opF RT tab_element tab_enum check_fn LATEST root_attrs fmt o w <> Pan s) /\
      run_opF RT tab_element tab_enum check_fn LATEST root_attrs fmt o w <> Fuel.
Proof. exact no_panic_after_history_real. Qed.

Theorem C12_no_panic_histories_nofloat :
  forall (check_fn : N -> list N -> res bool) (LATEST : N) (root_attrs : list (N * cdata)) (fmt : N -> list N),
    (forall fn s, exists b, check_fn fn s = Val b) ->
    (forall a, In a root_attrs -> to_str tab_attr (fst a) <> None /\ cdata_named tab_enum (snd a)) ->
    forall l,
      Forall (fun o => covered_op o = true) l ->
      wf_ops RT tab_element tab_enum check_fn LATEST root_attrs fmt l empty_world ->
      exists w', Inv.run_ops RT tab_element tab_enum check_fn LATEST root_attrs l empty_world = Val w'.
Proof. exact no_panic_histories_nofloat_real. Qed.

Theorem C12_panicfree_reachable :
  forall (check_fn : N -> list N -> res bool) (LATEST : N) (root_attrs : list (N * cdata)),
    (forall a, In a root_attrs -> to_str tab_attr (fst a) <> None /\ cdata_named tab_enum (snd a)) ->
    forall l w,
      Inv.run_ops RT tab_element tab_enum check_fn LATEST root_attrs l empty_world = Val w ->
      PanicFree RT tab_element tab_enum w /\ RefNoFloat RT w.
Proof. exact panicfree_reachable_real. Qed.

Theorem C12_coverage2 : forall o,
  covered_op2 o = match o with Op1 _ | OpSort _ | OpSortModel _ | OpSerializeElem _ => true | _ => false end.
Proof. exact coverage2. Qed.

Theorem C12_no_panic2_partial :
  forall (check_fn : N -> list N -> res bool) (float_parse : list N -> option N) (fmt : N -> list N)
         (LATEST name_index name_definition_ref attr_schema_location : N) (root_attrs : list (N * cdata)),
    (forall fn s, exists b, check_fn fn s = Val b) ->
    (forall a, In a root_attrs -> to_str tab_attr (fst a) <> None /\ cdata_named tab_enum (snd a)) ->
    forall l w o,
      run_opsF RT tab_element tab_enum check_fn LATEST root_attrs fmt l empty_world = Val w ->
      wf_ops RT tab_element tab_enum check_fn LATEST root_attrs fmt l empty_world ->
      covered_op2 o = true -> op2_wf tab_element tab_enum w o ->
      (forall s, run_op2F RT tab_element tab_attr tab_enum check_fn float_parse fmt LATEST name_index name_definition_ref
                          attr_schema_location root_attrs o w <> Pan s) /\
      run_op2F RT tab_element tab_attr tab_enum check_fn float_parse fmt LATEST name_index name_definition_ref
               attr_schema_location root_attrs o w <> Fuel.
Proof. exact no_panic2_partial_real. Qed.

(* [F] non-vacuity: wf_ops is satisfiable on the real tables by a history that takes the oracle path *)
Theorem C12_histories_nonvacuous :
  wf_ops RT tab_element tab_enum nv_check 1048576 [] ex_fmt ex_hist empty_world /\
  exists w', run_opsF RT tab_element tab_enum nv_check 1048576 [] ex_fmt ex_hist empty_world = Val w' /\
             option_map n_content (w_nodes w' 3) = Some [CData (DString [120; 49])].
Proof. exact (conj ex_wf ex_runs). Qed.

(* ================= histories over the large alphabet ================= *)

Theorem C12_coverage_step2 : forall o,
  covered_step2 o = match o with OpDuplicate _ | OpLoad _ _ _ _ => false | _ => true end.
Proof. exact coverage_step2. Qed.

Theorem C12_no_panic2_histories :
  forall (check_fn : N -> list N -> res bool) (float_parse : list N -> option N) (fmt : N -> list N)
         (LATEST name_index name_definition_ref attr_schema_location : N) (root_attrs : list (N * cdata)),
    (forall fn s, exists b, check_fn fn s = Val b) ->
    (forall a, In a root_attrs -> to_str tab_attr (fst a) <> None /\ cdata_named tab_enum (snd a)) ->
    forall l,
      wf_ops2 RT tab_element tab_attr tab_enum check_fn float_parse fmt LATEST name_index name_definition_ref attr_schema_location
              root_attrs l empty_world ->
      exists w', run_ops2F RT tab_element tab_attr tab_enum check_fn float_parse fmt LATEST name_index name_definition_ref
                           attr_schema_location root_attrs l empty_world = Val w'.
Proof. exact no_panic2_histories_real. Qed.

Theorem C12_no_panic2_after_history :
  forall (check_fn : N -> list N -> res bool) (float_parse : list N -> option N) (fmt : N -> list N)
         (LATEST name_index name_definition_ref attr_schema_location : N) (root_attrs : list (N * cdata)),
    (forall fn s, exists b, check_fn fn s = Val b) ->
    (forall a, In a root_attrs -> to_str tab_attr (fst a) <> None /\ cdata_named tab_enum (snd a)) ->
    forall l w o,
      run_ops2F RT tab_element tab_attr tab_enum check_fn float_parse fmt LATEST name_index name_definition_ref
                attr_schema_location root_attrs l empty_world = Val w ->
      wf_ops2 RT tab_element tab_attr tab_enum check_fn float_parse fmt LATEST name_index name_definition_ref attr_schema_location
              root_attrs l empty_world ->
      covered_step2 o = true -> op2_wfh tab_element tab_enum w o ->
      (forall s, run_op2F RT tab_element tab_attr tab_enum check_fn float_parse fmt LATEST name_index name_definition_ref
                          attr_schema_location root_attrs o w <> Pan s) /\
      run_op2F RT tab_element tab_attr tab_enum check_fn float_parse fmt LATEST name_index name_definition_ref
               attr_schema_location root_attrs o w <> Fuel.
Proof. exact no_panic2_after_history_real. Qed.

(* [F] regression of the fixed defect C12-panic-check-compat-mixup (element.rs read the mask from the STORED type with the index
   list of the recalculated type): after this well-formed history the compatibility walk used to panic; it returns now *)
Theorem C12_check_compat_mixup_fixed_real :
  wf_ops RT tab_element tab_enum nv_check 1048576 [] ex_fmt mx_hist empty_world /\
  exists w r,
    Inv.run_ops RT tab_element tab_enum nv_check 1048576 [] mx_hist empty_world = Val w /\
    option_map n_parent (w_nodes w 10) = Some (PElem 18) /\
    f_check RT w 0 1 = Val r.
Proof. exact (conj mx_wf mx_fixed). Qed.

Theorem C12_check_compat_total :
  forall (T : tables) (tab_el tab_at tab_en : nametab),
    tables_ok12 T = true ->
    forall w f target,
      H12 T tab_el tab_at tab_en w -> FI w -> f < N.of_nat (List.length (w_files w)) ->
      (exists r, f_check T w f target = Val r) /\
      (exists r w', f_set_version T f target w = Val (r, w')).
Proof.
  exact (fun T tab_el tab_at tab_en OK w f target I F L =>
           conj (np_f_check T tab_el tab_at tab_en OK w f target I F L)
                (np_f_set_version T tab_el tab_at tab_en OK w f target I F L)).
Qed.

Theorem C12_serialize_file_total :
  forall (T : tables) (tab_el tab_at tab_en : nametab) (check_fn : N -> list N -> res bool) (LATEST : N)
         (root_attrs : list (N * cdata)) (float_fmt : N -> list N) (attr_schema_location : N),
    tables_ok12 T = true ->
    (forall fn s, exists b, check_fn fn s = Val b) ->
    (forall k items it, T_cdata T k = Some (CEnum items) -> In it items -> to_str tab_en (fst it) <> None) ->
    (forall k name cdid req, T_attributes T k = Some (name, cdid, req) -> to_str tab_at name <> None) ->
    forall w f,
      H2 T tab_el tab_at tab_en w -> f < N.of_nat (List.length (w_files w)) ->
      (exists r w', f_serialize T tab_el tab_at tab_en check_fn float_fmt attr_schema_location f w = Val (r, w')) /\
      (forall r w', f_serialize T tab_el tab_at tab_en check_fn float_fmt attr_schema_location f w = Val (r, w') ->
                    H2 T tab_el tab_at tab_en w').
Proof.
  exact (fun T tab_el tab_at tab_en check_fn LATEST root_attrs float_fmt asl OK CH EO AO w f I L =>
           conj (np_f_serialize T tab_el tab_at tab_en check_fn LATEST root_attrs float_fmt asl OK CH EO AO w f I L)
                (fun r w' H => H2_f_serialize T tab_el tab_at tab_en check_fn float_fmt asl EO AO f w r w' H I)).
Qed.

(* [F] non-vacuity of the op2 history theorem: create, sort, serialize file / element, a Float through the oracle, sort model *)
Theorem C12_histories2_nonvacuous :
  wf_ops2 RT tab_element tab_attr tab_enum nv_check (fun _ => None) ex_fmt 1048576 3516 6311 78 [] ex2_hist empty_world /\
  exists w', run_ops2F RT tab_element tab_attr tab_enum nv_check (fun _ => None) ex_fmt 1048576 3516 6311 78 [] ex2_hist empty_world = Val w' /\
             option_map n_content (w_nodes w' 1) = Some [CElem 4; CElem 2].
Proof. exact (conj ex2_wf ex2_runs). Qed.

(* ---- AutosarModel::duplicate as a call ---- *)
Theorem C12_duplicate_total :
  forall (T : tables) (tab_el tab_at tab_en : nametab) (check_fn : N -> list N -> res bool) (LATEST : N) (root_attrs : list (N * cdata)),
    tables_ok12 T = true ->
    (forall fn s, exists b, check_fn fn s = Val b) ->
    (forall i e, i < n_elements T -> T_elements T i = Some e -> to_str tab_el (ed_name e) <> None) ->
    (forall k items it, T_cdata T k = Some (CEnum items) -> In it items -> to_str tab_en (fst it) <> None) ->
    (forall k name cdid req, T_attributes T k = Some (name, cdid, req) -> to_str tab_at name <> None) ->
    attrV tab_at tab_en root_attrs ->
    (forall ty cs v ver, is_ref T ty = Val true -> chardata_spec T ty = Val (Some cs) ->
                         check_value check_fn v cs ver = Val true -> exists s, v = DString s) ->
    (forall ty, et_new T (autosar_element T) = Val ty -> plainty T ty) ->
    forall w m,
      H2 T tab_el tab_at tab_en w -> Files.FilesOwned w -> m < N.of_nat (List.length (w_models w)) -> NoPanicProofsDup.dup_sized T LATEST root_attrs m w ->
      exists r w', Copy.m_duplicate T tab_el tab_en check_fn LATEST root_attrs m w = Val (r, w').
Proof.
  exact (fun T tab_el tab_at tab_en check_fn LATEST root_attrs OK CH NO EO AO RO TK RT w m I O L S =>
           NoPanicProofsDup.np_duplicate T tab_el tab_at tab_en check_fn LATEST root_attrs OK CH NO EO AO RO TK RT w m (conj I O) L S).
Qed.

Theorem C12_duplicate_after_history :
  forall (check_fn : N -> list N -> res bool) (float_parse : list N -> option N) (fmt : N -> list N)
         (LATEST name_index name_definition_ref attr_schema_location : N) (root_attrs : list (N * cdata)),
    (forall fn s, exists b, check_fn fn s = Val b) ->
    (forall a, In a root_attrs -> to_str tab_attr (fst a) <> None /\ cdata_named tab_enum (snd a)) ->
    forall l w m,
      run_ops2F RT tab_element tab_attr tab_enum check_fn float_parse fmt LATEST name_index name_definition_ref
                attr_schema_location root_attrs l empty_world = Val w ->
      wf_ops2 RT tab_element tab_attr tab_enum check_fn float_parse fmt LATEST name_index name_definition_ref attr_schema_location
              root_attrs l empty_world ->
      m < N.of_nat (List.length (w_models w)) -> NoPanicProofsDup.dup_sized RT LATEST root_attrs m w ->
      (forall s, Copy.m_duplicate RT tab_element tab_enum check_fn LATEST root_attrs m w <> Pan s) /\
      Copy.m_duplicate RT tab_element tab_enum check_fn LATEST root_attrs m w <> Fuel.
Proof. exact duplicate_after_history_real. Qed.

(* ---- histories with AutosarModel::duplicate as a step ---- *)
Theorem C12_coverage_step3 : forall o,
  NoPanicProofsOp3Hist.covered_step3 o = match o with OpLoad _ _ _ _ => false | _ => true end.
Proof. exact NoPanicProofsOp3Hist.coverage_step3. Qed.

Theorem C12_duplicate_keeps_invariant :
  forall (T : tables) (tab_el tab_at tab_en : nametab) (check_fn : N -> list N -> res bool) (LATEST : N) (root_attrs : list (N * cdata)),
    tables_ok12 T = true ->
    (forall fn s, exists b, check_fn fn s = Val b) ->
    (forall i e, i < n_elements T -> T_elements T i = Some e -> to_str tab_el (ed_name e) <> None) ->
    (forall k items it, T_cdata T k = Some (CEnum items) -> In it items -> to_str tab_en (fst it) <> None) ->
    (forall k name cdid req, T_attributes T k = Some (name, cdid, req) -> to_str tab_at name <> None) ->
    attrV tab_at tab_en root_attrs ->
    (forall ty cs v ver, is_ref T ty = Val true -> chardata_spec T ty = Val (Some cs) ->
                         check_value check_fn v cs ver = Val true -> exists s, v = DString s) ->
    (forall ty, et_new T (autosar_element T) = Val ty -> plainty T ty) ->
    forall w m c w',
      NoPanicProofsDup.D T tab_el tab_at tab_en w -> m < N.of_nat (List.length (w_models w)) ->
      NoPanicProofsDup.dup_sized T LATEST root_attrs m w ->
      Copy.m_duplicate T tab_el tab_en check_fn LATEST root_attrs m w = Val (OK c, w') ->
      NoPanicProofsDup.D T tab_el tab_at tab_en w'.
Proof. exact NoPanicProofsDup.D_duplicate_ok. Qed.

Theorem C12_no_panic3_histories :
  forall (check_fn : N -> list N -> res bool) (float_parse : list N -> option N) (fmt : N -> list N)
         (LATEST name_index name_definition_ref attr_schema_location : N) (root_attrs : list (N * cdata)),
    (forall fn s, exists b, check_fn fn s = Val b) ->
    (forall a, In a root_attrs -> to_str tab_attr (fst a) <> None /\ cdata_named tab_enum (snd a)) ->
    forall l,
      NoPanicProofsOp3Hist.wf_ops3 RT tab_element tab_attr tab_enum check_fn float_parse fmt LATEST name_index name_definition_ref
              attr_schema_location root_attrs l empty_world ->
      exists w', run_ops2F RT tab_element tab_attr tab_enum check_fn float_parse fmt LATEST name_index name_definition_ref
                           attr_schema_location root_attrs l empty_world = Val w'.
Proof. exact NoPanicProofsOp3HistReal.no_panic3_histories_real. Qed.

Theorem C12_no_panic3_after_history :
  forall (check_fn : N -> list N -> res bool) (float_parse : list N -> option N) (fmt : N -> list N)
         (LATEST name_index name_definition_ref attr_schema_location : N) (root_attrs : list (N * cdata)),
    (forall fn s, exists b, check_fn fn s = Val b) ->
    (forall a, In a root_attrs -> to_str tab_attr (fst a) <> None /\ cdata_named tab_enum (snd a)) ->
    forall l w o,
      run_ops2F RT tab_element tab_attr tab_enum check_fn float_parse fmt LATEST name_index name_definition_ref
                attr_schema_location root_attrs l empty_world = Val w ->
      NoPanicProofsOp3Hist.wf_ops3 RT tab_element tab_attr tab_enum check_fn float_parse fmt LATEST name_index name_definition_ref
              attr_schema_location root_attrs l empty_world ->
      NoPanicProofsOp3Hist.covered_step3 o = true ->
      NoPanicProofsOp3Hist.op3_wfh RT tab_element tab_enum check_fn LATEST root_attrs w o ->
      (forall s, run_op2F RT tab_element tab_attr tab_enum check_fn float_parse fmt LATEST name_index name_definition_ref
                          attr_schema_location root_attrs o w <> Pan s) /\
      run_op2F RT tab_element tab_attr tab_enum check_fn float_parse fmt LATEST name_index name_definition_ref
               attr_schema_location root_attrs o w <> Fuel.
Proof. exact NoPanicProofsOp3HistReal.no_panic3_after_history_real. Qed.

(* [F] non-vacuity: a model with a file and two packages is duplicated, the copy sorted and serialized *)
Theorem C12_histories3_nonvacuous :
  NoPanicProofsOp3Hist.wf_ops3 RT tab_element tab_attr tab_enum nv_check (fun _ => None) ex_fmt 1048576 3516 6311 78 []
    NoPanicProofsOp3HistEx.ex3_hist empty_world /\
  exists w', run_ops2F RT tab_element tab_attr tab_enum nv_check (fun _ => None) ex_fmt 1048576 3516 6311 78 []
               NoPanicProofsOp3HistEx.ex3_hist empty_world = Val w' /\
             List.length (w_models w') = 2%nat /\ option_map n_parent (w_nodes w' 6) = Some (PModel 1).
Proof. exact (conj NoPanicProofsOp3HistEx.ex3_wf NoPanicProofsOp3HistEx.ex3_runs). Qed.

(* ---- load_buffer: the front of the call, and rejected loads as history steps ---- *)
Theorem C12_load_front_total :
  forall (check_fn : N -> list N -> res bool) (float_parse : list N -> option N) (LATEST name_definition_ref : N),
    (forall fn s, exists b, check_fn fn s = Val b) ->
    forall w m buffer filename strict,
      bytes_ok buffer = true -> m < N.of_nat (List.length (w_models w)) ->
      NoPanicProofsOp4Hist.load_rejected RT tab_element tab_attr tab_enum check_fn float_parse w m buffer filename strict \/
      exists x root st, nth_opt (w_models w) (N.to_nat m) = Some x /\ NoPanicProofsOp4Hist.name_taken_in w x filename = false /\
        Parser.load strict RT tab_element tab_attr tab_enum check_fn float_parse buffer = Val (Parser.Ret root st) /\
        Load.m_load_buffer RT tab_element tab_attr tab_enum check_fn float_parse LATEST name_definition_ref m buffer filename strict w =
          (do f <- Load.load_parsed RT LATEST name_definition_ref m filename root st; wret (f, rev (Parser.p_warnings st)))%W w.
Proof. exact NoPanicProofsOp4HistReal.load_front_total_real. Qed.

Theorem C12_load_rejected_returns :
  forall (T : tables) (tab_el tab_at tab_en : nametab) (check_fn : N -> list N -> res bool) (float_parse : list N -> option N)
         (LATEST name_definition_ref : N) w m buffer filename strict,
    NoPanicProofsOp4Hist.load_rejected T tab_el tab_at tab_en check_fn float_parse w m buffer filename strict ->
    exists e, Load.m_load_buffer T tab_el tab_at tab_en check_fn float_parse LATEST name_definition_ref m buffer filename strict w = Val (ER e, w).
Proof. exact NoPanicProofsOp4Hist.load_rejected_returns. Qed.

Theorem C12_no_panic4_histories :
  forall (check_fn : N -> list N -> res bool) (float_parse : list N -> option N) (fmt : N -> list N)
         (LATEST name_index name_definition_ref attr_schema_location : N) (root_attrs : list (N * cdata)),
    (forall fn s, exists b, check_fn fn s = Val b) ->
    (forall a, In a root_attrs -> to_str tab_attr (fst a) <> None /\ cdata_named tab_enum (snd a)) ->
    forall l,
      NoPanicProofsOp4Hist.wf_ops4 RT tab_element tab_attr tab_enum check_fn float_parse fmt LATEST name_index name_definition_ref
              attr_schema_location root_attrs l empty_world ->
      exists w', run_ops2F RT tab_element tab_attr tab_enum check_fn float_parse fmt LATEST name_index name_definition_ref
                           attr_schema_location root_attrs l empty_world = Val w'.
Proof. exact NoPanicProofsOp4HistReal.no_panic4_histories_real. Qed.

(* [F] non-vacuity: a load of a broken document, a load under a taken file name, then ordinary calls *)
Theorem C12_histories4_nonvacuous :
  NoPanicProofsOp4Hist.wf_ops4 RT tab_element tab_attr tab_enum nv_check (fun _ => None) ex_fmt 1048576 3516 6311 78 []
    NoPanicProofsOp4HistReal.ex4_hist empty_world /\
  exists w', run_ops2F RT tab_element tab_attr tab_enum nv_check (fun _ => None) ex_fmt 1048576 3516 6311 78 []
               NoPanicProofsOp4HistReal.ex4_hist empty_world = Val w' /\
             List.length (w_files w') = 1%nat /\ w_next w' = 2.
Proof. exact (conj NoPanicProofsOp4HistReal.ex4_wf NoPanicProofsOp4HistReal.ex4_runs). Qed.
