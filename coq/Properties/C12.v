(* Properties/C12.v — "Single-threaded use never panics, hangs or reports a spurious lock conflict": the PANIC / LOOP half
   over the tree model (the lock half is Properties/C12Locks.v).

   Model: Tree/Heap.v, Ops.v, Script.v — every Rust expression that can panic is `Pan site`, every upward / recursive walk
   runs on fuel (`Fuel` = the Rust would loop for ever).  The site table is in the header of Tree/NoPanic.v.
   PanicFree w  = Closed w (everything a node / model / index map mentions exists; node types are checked types of T;
                  names and enum values are discriminants) + finite parent chains + child lists agree with parent links.
   op_wf w o    = the handles in the call are handles (allocated elements, existing models / files), element names and
                  enum values are discriminants of the Rust enums; positions, strings, numbers and WHICH handles
                  (stale, of another model, removed file) are arbitrary.

   C12_no_panic_partial [U, partial coverage]: for every table set passing tables_ok12 and every operation of covered_op
                  the call returns (Ok or Err): no Pan, no Fuel.
   SizeOk w     = every identifiables map has fewer than 10^39 entries (`format!("{counter}")` of make_unique_item_name
                  is injective on the counters that can occur; only the copy operations use it).
   side12 w o   = for move_element_here / _at: the two elements are not in different models (the cross-model path
                  move_element_full is PENDING: it is covered by the correspondence and the fuzzer only).
   C12_coverage   covered_op = every constructor of `op`; the only excluded argument class is set_character_data with a
                  Float value (f64::to_string is not modelled).  So all 26 constructors are covered, two of them
                  (OpMove, OpMoveAt) under side12.
                  pending_op = the rest: covered by the correspondence + implementation fuzzer only.
   C12_closed_preserved_partial [U, partial]: Closed (this development's own part of PanicFree) holds again after
                  create_named_sub_element(+_at), remove_sub_element, set_item_name, set_character_data (non-float),
                  set_reference_target, add_to_file, remove_from_file, whatever they return; the other operations keep it too
                  (every step of their proofs re-establishes it) but the statement is not exported yet; the tree part of
                  PanicFree (finite chains, child lists = parent links) is C03's Core invariant.
   C12_tables_real [F]: tables_ok12 holds for the regenerated tables.
   C12_depth_tree / C12_depth_walk [U]: the subtree below any node has height < number of allocated nodes + 1 (= the fuel
                  the model gives), and the recursive pre-order walk returns exactly when its fuel exceeds the height:
                  recursion depth = nesting depth (the logic half of the stack-overflow question).
   C12_path_suffix [U]: path() of an element ends with its item name (the strip_suffix(..).unwrap() of set_item_name).
   Findings (fixed in /repo, the sites are gone from Ops.v): c28d8d2, dbf2768, 8b342ea — see findings/C12-panic-*. *)
From AV Require Import Base.Bytes Base.Outcome Hash.HashModel Hash.HashRealEnum Hash.HashRealElement Spec.SpecOps Spec.SpecReal Xml.TablesOk.
From AV Require Import Tree.Heap Tree.Ops Tree.Script Tree.Inv Tree.NoPanic.
From AV Require Import Tree.NoPanicProofsBase Tree.NoPanicProofsDepth Tree.NoPanicProofsCopy2 Tree.NoPanicProofsMain Tree.NoPanicReal.
Open Scope N_scope.

Theorem C12_no_panic_partial :
  forall (T : tables) (tab_el tab_en : nametab) (check_fn : N -> list N -> res bool) (LATEST : N) (root_attrs : list (N * cdata)),
    tables_ok12 T = true ->
    (forall fn s, exists b, check_fn fn s = Val b) ->
    nametab_ok tab_en = true ->
    name_ok tab_el (name_short_name T) ->
    forall w o,
      covered_op o = true -> PanicFree T tab_el tab_en w -> SizeOk w -> op_wf tab_el tab_en w o -> side12 w o ->
      (forall s, run_op T tab_el tab_en check_fn LATEST root_attrs o w <> Pan s) /\
      run_op T tab_el tab_en check_fn LATEST root_attrs o w <> Fuel.
Proof. exact no_panic_covered'. Qed.

Theorem C12_closed_preserved_partial :
  forall (T : tables) (tab_el tab_en : nametab) (check_fn : N -> list N -> res bool) (LATEST : N) (root_attrs : list (N * cdata)),
    tables_ok12 T = true ->
    (forall fn s, exists b, check_fn fn s = Val b) ->
    nametab_ok tab_en = true ->
    name_ok tab_el (name_short_name T) ->
    forall w o,
      closed_pres_op o = true -> PanicFree T tab_el tab_en w -> op_wf tab_el tab_en w o ->
      forall r w', run_op T tab_el tab_en check_fn LATEST root_attrs o w = Val (r, w') -> Closed T tab_el tab_en w'.
Proof. exact closed_preserved_partial. Qed.

Theorem C12_coverage : forall o,
  covered_op o = match o with OpSetCData _ (DFloat _) => false | _ => true end.
Proof. exact coverage. Qed.

Theorem C12_tables_real : tables_ok12 RT = true.
Proof. exact tables_ok12_real. Qed.

Theorem C12_enum_table_real : nametab_ok Hash.HashRealEnum.tab_enum = true.
Proof. exact en_ok_real. Qed.

Theorem C12_short_name_real : name_ok Hash.HashRealElement.tab_element (name_short_name RT).
Proof. exact short_ok_real. Qed.

Theorem C12_depth_tree :
  forall (T : tables) (tab_el tab_en : nametab) w i,
    PanicFree T tab_el tab_en w -> i < w_next w -> hb w i (fuel_of w).
Proof. exact depth_tree. Qed.

Theorem C12_depth_walk :
  forall (T : tables) (tab_el tab_en : nametab) w f i,
    Closed T tab_el tab_en w -> i < w_next w ->
    (hb w i f <-> exists l, dfs_ids f i w = Val (OK l, w)).
Proof. exact depth_walk. Qed.

Theorem C12_path_suffix :
  forall (T : tables) (tab_el tab_en : nametab) (check_fn : N -> list N -> res bool) (LATEST : N) (root_attrs : list (N * cdata)),
    tables_ok12 T = true ->
    (forall fn s, exists b, check_fn fn s = Val b) ->
    forall w n,
      Closed T tab_el tab_en w -> UpWF w -> node_ok T tab_el tab_en w n ->
      exists r, path_of T n w = Val (r, w) /\
        forall p own, r = OK p -> item_name T n w = Val (OK (Some own), w) -> exists base, strip_suffix own p = Some base.
Proof. exact path_suffix. Qed.
