(* Properties/C01.v — Loading is faithful; load -> serialize -> load is the identity.
   Models: Xml/Lexer.v, Xml/Parser.v (loader), Xml/Serializer.v (writer).  Proofs: Xml/Escape.v, Xml/RoundTripValues.v,
   Xml/RoundTripAttrs.v, Xml/RoundTripLexer.v, Xml/RoundTripElem.v, Xml/RoundTripFile.v.  Every statement is for every
   table set, name table, validator, float oracles and both modes; no hypothesis beyond the canonicity predicates.

   Faithfulness to an independent reading of XML: C01_faithful (end of this file).
   The full property is RoundTripFile.C01_full (a Definition, NOT proved).  Proved: C01_roundtrip_partial — for every
   canonical root (RootCanon ver root: every node Canon) whose xsi:schemaLocation is the canonical text for ver,
   load (serialize_file ver sa root) returns root, no warning, file version ver.  Canon says exactly which trees
   survive: clean names that round-trip through the name tables; attributes AttrsOk; values ValOk (Pattern values without
   the five escaped bytes — known finding pattern-value-not-unescaped; no blank at either end unless preserve_whitespace —
   known finding encoded-edge-blank-lost; escaped length within max_length); content fitting the content mode
   (Characters: one value; Mixed: no two adjacent text items; otherwise sub-elements only); text items not blank; the
   parser's lookups pass; SHORT-NAME as the FIRST content item where named (parser fix f86b268).
   Comments are covered: a comment is UTF-8 and CommentOk (the lexer finds its end where the writer put it).
   The first half of C01_full, "what the loader returns is canonical", is false on the recorded classes
   (C01_reload_identity_refuted) and PROVED outside them: C01_loader_canonical, with the decidable tree predicate
   RoundTripCanon.knownb; the property as stated is C01_reload_identity.
   MISSING, named: (1) [closed since: C01_set_version_canon, C01_reload_rewritten - for a root whose xsi:schemaLocation
   text is not the canonical one, serialize rewrites it and the re-loaded tree equals the REWRITTEN tree]; lenient loads WITH warnings
   (nothing is claimed about their trees); (2) RootCanon states the header attributes semantically (parse_file_header
   returns ver silently on them; rootcanonb evaluates that).
   For the recorded classes there is a positive statement, not only the refutation: what IS read back -
   C01_value_reload (plain String: the text modulo blanks at both ends; Pattern: the escaped text),
   C01_text_merge_same_text / C01_reload_merged (adjacent text items: the concatenated text). *)
From AV Require Import Base.Bytes Base.Outcome Base.Utf8 Hash.HashModel Spec.SpecOps Spec.Versions
  Xml.Lexer Xml.Parser Xml.Serializer Xml.LexerProofs Xml.Escape Xml.RoundTripValues Xml.RoundTripAttrs
  Xml.RoundTripLexer Xml.StrictValidDef Xml.ParserDepth Xml.RoundTripElem Xml.RoundTripFile Xml.TablesOk
  Xml.RoundTripCanonValues Xml.RoundTripCanon Xml.Utf8Closure Xml.RoundTripCanonFinal Xml.RoundTripCanonb Xml.RoundTripLexerComment Xml.ParserExamples Xml.RoundTripExamples
  Xml.RoundTripReload Xml.RoundTripReloadExamples Xml.RoundTripSetVersion
  Xml.Reading Xml.ReadingLexer Xml.ReadingInterp Xml.ReadingParser Xml.ReadingExamples Xml.ReadingUnique Xml.ReadingFunctional.
From AV Require Import Spec.SpecTypes.
From AV Require Import Spec.SpecReal Hash.HashRealElement Hash.HashRealAttr Hash.HashRealEnum.
Open Scope list_scope.
Open Scope N_scope.

(* [U] unescaping an escaped string gives the string back: value, no error, no warning, state untouched; every byte string, both modes *)
Theorem C01_escape_unescape :
  forall (strict : bool) (s : list N) (st : pstate), unescape_string strict (escape_text s) st = Val (Ret s st).
Proof. exact escape_unescape. Qed.

(* [U] escaped text contains none of the bytes 60, 62, 34, 39 (markup_free) *)
Theorem C01_escape_no_markup :
  forall s : list N, forallb markup_free (escape_text s) = true.
Proof. exact escape_no_markup. Qed.

(* [U] a canonical value (RoundTripValues.ValOk: exactly which values survive) is read back from its printed text; the state changes in the compatibility mask only *)
Theorem C01_value_roundtrip :
  forall (strict : bool) (tab_en : nametab) (check_fn : N -> list N -> res bool) (float_fmt : N -> list N)
         (float_parse : list N -> option N) (ver : N) (spec : cdspec) (v : cdata) (st : pstate),
       ValOk tab_en check_fn float_fmt float_parse ver spec v ->
       p_version st = ver ->
       exists (bytes : list N) (c : N),
         ser_cdata tab_en float_fmt v = Val bytes /\
         parse_character_data strict tab_en check_fn float_parse bytes spec st = Val (Ret v (set_compat st c)).
Proof. exact value_roundtrip. Qed.

(* [U] parse_attribute_text inverts ser_attrs on canonical attribute lists (RoundTripAttrs.AttrsOk) *)
Theorem C01_attrs_roundtrip :
  forall (strict : bool) (T : tables) (tab_at tab_en : nametab) (check_fn : N -> list N -> res bool)
         (float_fmt : N -> list N) (float_parse : list N -> option N) (ver : N) (ty : etype)
         (attrs : list (N * cdata)) (st : pstate),
       AttrsOk T tab_at tab_en check_fn float_fmt float_parse ver ty attrs ->
       p_version st = ver ->
       exists (text : list N) (c : N),
         ser_attrs tab_at tab_en float_fmt attrs = Val text /\
         parse_attribute_text strict T tab_at tab_en check_fn float_parse ty text st =
         Val (Ret attrs (set_compat st c)).
Proof. exact attrs_roundtrip. Qed.

(* [U] the lexer on <inner> with the exact side conditions on the bytes between the brackets *)
Theorem C01_lexer_begin_tag :
  forall (f : nat) (inner tail : list N) (line c1 : N) (tl : list N),
       inner = c1 :: tl ->
       c1 <> 47 ->
       c1 <> 63 ->
       c1 <> 33 ->
       Forall (fun x : N => x <> 62) inner ->
       last inner 0 <> 47 ->
       lex_next (S f) (mk (60 :: inner ++ 62 :: tail) line None) =
       Val
         (LOk line (EvBegin (fst (split_tag inner)) (snd (split_tag inner)))
            (mk tail (line + count_lines inner) None)).
Proof. exact lex_begin_tag. Qed.

(* [U] the lexer on <inner/>: begin event now, end event deferred *)
Theorem C01_lexer_empty_tag :
  forall (f : nat) (inner tail : list N) (line c1 : N) (tl : list N),
       inner = c1 :: tl ->
       c1 <> 47 ->
       c1 <> 63 ->
       c1 <> 33 ->
       Forall (fun x : N => x <> 62) inner ->
       lex_next (S f) (mk (60 :: inner ++ 47 :: 62 :: tail) line None) =
       Val
         (LOk line (EvBegin (fst (split_tag inner)) (snd (split_tag inner)))
            (mk tail (line + count_lines inner) (Some (fst (split_tag inner))))).
Proof. exact lex_empty_tag. Qed.

(* [U] the lexer on </name> *)
Theorem C01_lexer_end_tag :
  forall (f : nat) (nm tail : list N) (line : N),
       Forall (fun x : N => x <> 62) nm ->
       lex_next (S f) (mk (60 :: 47 :: nm ++ 62 :: tail) line None) = Val (LOk line (EvEnd nm) (mk tail line None)).
Proof. exact lex_end_tag. Qed.

(* [U] the lexer on a text run up to the next tag *)
Theorem C01_lexer_text :
  forall (f : nat) (text X : list N) (line : N),
       text <> [] ->
       Forall (fun x : N => x <> 60) text ->
       forallb is_ws text = false ->
       lex_next (S f) (mk (text ++ 60 :: X) line None) =
       Val (LOk (line + count_lines text) (EvChars text) (mk (60 :: X) (line + count_lines text) None)).
Proof. exact lex_text. Qed.

(* [U] the lexer on <!--c--> for a comment text that produces no earlier end marker (CommentOk: no "-->" in "<!--c--" ending before the last byte; the two dashes of the opening count) *)
Theorem C01_lexer_comment :
  forall (f : nat) (c tail : list N) (line : N),
       CommentOk c ->
       lex_next (S f) (mk (comment_text c ++ 62 :: tail) line None) =
       Val
         (LOk (line + count_lines (comment_text c)) (EvComment c)
            (mk tail (line + count_lines (comment_text c)) None)).
Proof. exact lex_comment. Qed.

(* [U] one child element, written by ser_elem (any indentation, inline or not, with or without a comment in front), is consumed by its parent loop and appended to the content as the same tree; by induction on the nesting depth d; recursion fuel f >= d and loop fuel lf > width suffice *)
Theorem C01_element_roundtrip :
  forall (strict : bool) (T : tables) (tab_el tab_at tab_en : nametab) (check_fn : N -> list N -> res bool)
         (float_fmt : N -> list N) (float_parse : list N -> option N) (ver : N) (d f lf : nat),
       (d <= f)%nat -> StepOK strict T tab_el tab_at tab_en check_fn float_fmt float_parse ver f lf d.
Proof. exact elem_step. Qed.

(* [U] load (xml header ++ ser_elem root) = root, without warnings, with the file version and the standalone flag recovered; the fuel of load suffices *)
Theorem C01_file_roundtrip :
  forall (strict : bool) (T : tables) (tab_el tab_at tab_en : nametab) (check_fn : N -> list N -> res bool)
         (float_fmt : N -> list N) (float_parse : list N -> option N) (ver : N) (root : etree) 
         (sa : option bool) (body : list N),
       RootCanon strict T tab_el tab_at tab_en check_fn float_fmt float_parse ver root ->
       ser_elem T tab_el tab_at tab_en float_fmt root 0 false = Val body ->
       exists st : pstate,
         load strict T tab_el tab_at tab_en check_fn float_parse (xml_header sa ++ body) = Val (Ret root st) /\
         p_warnings st = [] /\ p_version st = ver /\ p_standalone st = sa.
Proof. exact file_roundtrip. Qed.

(* [U] PARTIAL C01: load (serialize_file ver sa root) = root for canonical roots (see the header for what is missing) *)
Theorem C01_roundtrip_partial :
  forall (strict : bool) (T : tables) (tab_el tab_at tab_en : nametab) (check_fn : N -> list N -> res bool)
         (float_fmt : N -> list N) (float_parse : list N -> option N) (ver : N) (root : etree) 
         (sa : option bool) (bs : list N),
       RootCanon strict T tab_el tab_at tab_en check_fn float_fmt float_parse ver root ->
       set_version T tab_at check_fn ver root = Val root ->
       serialize_file T tab_el tab_at tab_en check_fn float_fmt ver sa root = Val bs ->
       exists st : pstate,
         load strict T tab_el tab_at tab_en check_fn float_parse bs = Val (Ret root st) /\
         p_warnings st = [] /\ p_version st = ver /\ p_standalone st = sa.
Proof. exact serialize_load_roundtrip. Qed.

(* [U] serializing what was loaded gives the same bytes *)
Theorem C01_serialize_fixpoint :
  forall (strict : bool) (T : tables) (tab_el tab_at tab_en : nametab) (check_fn : N -> list N -> res bool)
         (float_fmt : N -> list N) (float_parse : list N -> option N) (ver : N) (root : etree) 
         (sa : option bool) (bs : list N) (st : pstate),
       RootCanon strict T tab_el tab_at tab_en check_fn float_fmt float_parse ver root ->
       set_version T tab_at check_fn ver root = Val root ->
       serialize_file T tab_el tab_at tab_en check_fn float_fmt ver sa root = Val bs ->
       load strict T tab_el tab_at tab_en check_fn float_parse bs = Val (Ret root st) ->
       serialize_file T tab_el tab_at tab_en check_fn float_fmt (p_version st) sa root = Val bs.
Proof. exact serialize_fixpoint. Qed.

(* [F] non-vacuity on the REAL tables: a concrete tree (the strict load of <AUTOSAR ...><AR-PACKAGES/></AUTOSAR>) is a
   canonical root, so C01_roundtrip_partial applies to it *)
Theorem C01_canon_nonvacuous :
  RootCanon true RT tab_element tab_attr tab_enum accept_all no_float_fmt no_float v_small t_small.
Proof. exact t_small_canon. Qed.

(* [F] a computed double round trip on the real tables (attributes, entities, mixed content, a comment): load; serialize;
   load; serialize — both loads strict and silent, the second text byte-identical to the first *)
Theorem C01_cycle_example : cycle_ok doc_rich = true.
Proof. exact cycle_rich. Qed.

(* [F] REFUTED on the real tables (known finding mixed-text-split, confirmed on the library): the first half of C01_full
   is false — text of a mixed-content element that is interrupted by a comment loads as two adjacent items, is written
   as one run and re-loads as one item: load (serialize (load d)) <> load d, both loads strict and silent *)
Theorem C01_reload_identity_refuted :
  exists d, match LOAD true d with
            | Val (Ret t st) =>
              p_warnings st = [] /\
              match SERF (p_version st) (p_standalone st) t with
              | Val bs => match LOAD true bs with
                          | Val (Ret t' _) => any_node (has_text (BS "a")) t = true /\ any_node (has_text (BS "a")) t' = false /\
                                              any_node (has_text (BS "ab")) t' = true
                          | _ => False
                          end
              | _ => False
              end
            | _ => False
            end.
Proof. exact reload_identity_refuted. Qed.

(* [U] first half, values: what strict parse_character_data returns is ValOk for the file version, or belongs to a recorded value class (known_valueb: Pattern value with an escaped byte / non-preserving String with a blank at an end / escaped text over max_length); hypotheses: the std float law and the UTF-8 closure (= C01_utf8_closure) *)
Theorem C01_values_canonical :
  forall (tab_en : nametab) (check_fn : N -> list N -> res bool) (float_fmt : N -> list N)
         (float_parse : list N -> option N),
       (forall (s : list N) (b : N),
        float_parse s = Some b ->
        no_edge_ws (float_fmt b) /\
        utf8_valid (float_fmt b) = true /\
        float_parse (float_fmt b) = Some b /\ float_fmt b <> [] /\ forallb markup_free (float_fmt b) = true) ->
       (forall (raw u : list N) (st st' : pstate),
        utf8_valid raw = true -> unescape_string true raw st = Val (Ret u st') -> utf8_valid (escape_text u) = true) ->
       forall (input : list N) (spec : cdspec) (st : pstate) (v : cdata) (st' : pstate),
       parse_character_data true tab_en check_fn float_parse input spec st = Val (Ret v st') ->
       ValOk tab_en check_fn float_fmt float_parse (p_version st) spec v \/ known_valueb spec v = true.
Proof. exact pcd_canon. Qed.

(* [U] first half, attributes: every attribute strict parse_attribute_text returns is AttrOk or has a value in a recorded class, and the required attributes are present *)
Theorem C01_attributes_canonical :
  forall (T : tables) (tab_en : nametab) (check_fn : N -> list N -> res bool) (float_fmt : N -> list N)
         (float_parse : list N -> option N),
       (forall (s : list N) (b : N),
        float_parse s = Some b ->
        no_edge_ws (float_fmt b) /\
        utf8_valid (float_fmt b) = true /\
        float_parse (float_fmt b) = Some b /\ float_fmt b <> [] /\ forallb markup_free (float_fmt b) = true) ->
       (forall (raw u : list N) (st st' : pstate),
        utf8_valid raw = true -> unescape_string true raw st = Val (Ret u st') -> utf8_valid (escape_text u) = true) ->
       (forall (s : list N) (i : N), from_bytes tab_en s = Ok i -> clean_name s = true) ->
       forall tab_at : nametab,
       (forall (s : list N) (i : N), from_bytes tab_at s = Ok i -> clean_name s = true) ->
       forall (ty : etype) (text : list N) (st : pstate) (attrs : list (N * cdata)) (st' : pstate),
       parse_attribute_text true T tab_at tab_en check_fn float_parse ty text st = Val (Ret attrs st') ->
       Forall (AttrCanon T tab_en check_fn float_fmt float_parse tab_at (p_version st) ty) attrs /\
       (exists specs : list (N * N * cdspec * N),
          attribute_spec_list T ty = Val specs /\
          (forall (name cdid : N) (c : cdspec) (req : N),
           In (name, cdid, c, req) specs -> req <> 0 -> existsb (fun a : N * cdata => fst a =? name) attrs = true)).
Proof. exact pat_canon. Qed.

(* [U] UTF-8 validity (the model of std::str::from_utf8) is preserved by strict unescaping followed by escaping; no hypothesis *)
Theorem C01_utf8_closure :
  forall (raw u : list N) (st st' : pstate),
       utf8_valid raw = true -> unescape_string true raw st = Val (Ret u st') -> utf8_valid (escape_text u) = true.
Proof. exact utf8_unescape_escape. Qed.

(* [U] FIRST HALF of C01_full, outside the recorded classes: a tree that load returns without warnings (either mode) and on which knownb is false is a canonical root for the file version.  canon_hyps = tables_ok, cd_mode_ok, clean names in the three name tables (boolean, [F] for the regenerated tables: C01_real_canon_hyps) and the std float law *)
Theorem C01_loader_canonical :
  forall (T : tables) (tab_el tab_at tab_en : nametab) (check_fn : N -> list N -> res bool)
         (float_fmt : N -> list N) (float_parse : list N -> option N),
       canon_hyps T tab_el tab_at tab_en float_fmt float_parse ->
       forall (b : bool) (bs : list N) (t : etree) (st : pstate),
       load b T tab_el tab_at tab_en check_fn float_parse bs = Val (Ret t st) ->
       p_warnings st = [] ->
       knownb T t = false ->
       forall s : bool, RootCanon s T tab_el tab_at tab_en check_fn float_fmt float_parse (p_version st) t.
Proof. exact loader_canonical. Qed.

(* [U] the property as stated: load -> serialize -> load is the identity (same tree, no warnings, same version, standalone flag as written) and the second serialization is byte-identical, for every accepted input whose load is silent, whose tree is outside the recorded classes and whose root already carries the canonical xsi:schemaLocation text (set_version t = t; ArxmlFile::serialize rewrites it otherwise) *)
Theorem C01_reload_identity :
  forall (T : tables) (tab_el tab_at tab_en : nametab) (check_fn : N -> list N -> res bool)
         (float_fmt : N -> list N) (float_parse : list N -> option N),
       canon_hyps T tab_el tab_at tab_en float_fmt float_parse ->
       forall (b : bool) (bs : list N) (t : etree) (st : pstate),
       load b T tab_el tab_at tab_en check_fn float_parse bs = Val (Ret t st) ->
       p_warnings st = [] ->
       knownb T t = false ->
       set_version T tab_at check_fn (p_version st) t = Val t ->
       forall sa : option bool,
       exists bs' : list N,
         serialize_file T tab_el tab_at tab_en check_fn float_fmt (p_version st) sa t = Val bs' /\
         (exists st' : pstate,
            load b T tab_el tab_at tab_en check_fn float_parse bs' = Val (Ret t st') /\
            p_warnings st' = [] /\
            p_version st' = p_version st /\
            p_standalone st' = sa /\
            serialize_file T tab_el tab_at tab_en check_fn float_fmt (p_version st') sa t = Val bs').
Proof. exact reload_identity_closed. Qed.

(* [F] the boolean hypotheses of C01_loader_canonical hold for the regenerated tables (no_float: the float law is vacuous
   for an oracle that parses nothing; for the real oracles it is the std print/parse law) *)
Theorem C01_real_canon_hyps : canon_hyps RT tab_element tab_attr tab_enum no_float_fmt no_float.
Proof. exact real_canon_hyps. Qed.

(* [F] knownb recognises the three recorded classes on the trees loaded from their replay documents, and is false on
   ordinary documents (real tables) *)
Theorem C01_known_classes_examples :
  known_of doc_ok = Some false /\ known_of doc_rich = Some false /\
  known_of doc_mixed_split = Some true /\ known_of doc_edge_blank = Some true /\ known_of doc_amp_pattern = Some true.
Proof. exact (conj known_plain (conj known_rich (conj known_mixed_split (conj known_edge_blank known_amp_pattern)))). Qed.

(* [U] Canon is decidable: the boolean checker canonb reflects it (evaluable by vm_compute or by the extracted model) *)
Theorem C01_canonb_spec :
  forall (T : tables) (tab_el tab_at tab_en : nametab) (check_fn : N -> list N -> res bool)
         (float_fmt : N -> list N) (float_parse : list N -> option N) (ver : N) (t : etree),
       canonb T tab_el tab_at tab_en check_fn float_fmt float_parse ver t = true <->
       Canon T tab_el tab_at tab_en check_fn float_fmt float_parse ver t.
Proof. exact canonb_spec. Qed.

(* [U] a sound boolean checker for canonical roots (the header clause is evaluated on one state; pfh_indep extends it to all states and both modes) *)
Theorem C01_rootcanonb_sound :
  forall (T : tables) (tab_el tab_at tab_en : nametab) (check_fn : N -> list N -> res bool)
         (float_fmt : N -> list N) (float_parse : list N -> option N) (ver : N) (t : etree),
       rootcanonb T tab_el tab_at tab_en check_fn float_fmt float_parse ver t = true ->
       forall s : bool, RootCanon s T tab_el tab_at tab_en check_fn float_fmt float_parse ver t.
Proof. exact rootcanonb_sound. Qed.

(* [F] on the real tables: the strictly loaded trees of the plain and of the rich example document are canonical roots
   (rootcanonb = true: hypotheses of C01_roundtrip_partial hold for realistic trees), those of the three recorded classes
   are not *)
Theorem C01_rootcanonb_examples :
  rootcanon_of doc_ok = Some true /\ rootcanon_of doc_rich = Some true /\
  rootcanon_of doc_mixed_split = Some false /\ rootcanon_of doc_edge_blank = Some false /\ rootcanon_of doc_amp_pattern = Some false.
Proof. exact (conj rootcanon_plain (conj rootcanon_rich (conj rootcanon_mixed_split (conj rootcanon_edge_blank rootcanon_amp_pattern)))). Qed.

(* [U] every comment token the lexer returns is CommentOk: "--" inside a comment is accepted and stored (e.g. "a--b",
   "a-"), and such comments are read back unchanged; a stored comment fails CommentsOk only if its bytes were not UTF-8
   (the loader stores the lossy conversion) — the fourth clause of knownb *)
Theorem C01_lexed_comments_ok :
  forall (f : nat) (st : lstate) (line : N) (c : list N) (st' : lstate),
  lex_next f st = Val (LOk line (EvComment c) st') -> CommentOk c.
Proof. exact lex_comment_ok. Qed.

(* ---------- the recorded classes: what IS read back (Xml/RoundTripReload.v) ---------- *)
(* [U] escaping commutes with dropping the blanks at both ends (strip s = rev (drop_ws (rev (drop_ws s))), the value of
   trim_byte_string): blanks are written as they are, an escape sequence neither begins nor ends with a blank *)
Theorem C01_trim_escape :
  forall s : list N, trim_byte_string (escape_text s) = Val (escape_text (strip s)).
Proof. exact trim_escape. Qed.

(* [U] values, without the conditions that define the recorded value classes (ValLoose: a Pattern value may contain the
   five escaped bytes and blanks at the ends, a plain String may have blanks at the ends; the length / validator / UTF-8
   conditions are those of the text the loader will see).  The written text of v is read back, silently, as
   reload_value spec v:
       Pattern                       DString (escape_text (strip s))   - one more level of escaping, modulo edge blanks
       String, no preserve_whitespace DString (strip s)                - the text modulo edge blanks
       anything else                 v
   and reload_value spec v = v on ValOk (so this contains C01_value_roundtrip). *)
Theorem C01_value_reload :
  forall (strict : bool) (tab_en : nametab) (check_fn : N -> list N -> res bool)
         (float_fmt : N -> list N) (float_parse : list N -> option N) (ver : N) (spec : cdspec) (v : cdata) (st : pstate),
  ValLoose tab_en check_fn float_fmt float_parse ver spec v -> p_version st = ver ->
  exists bytes c, ser_cdata tab_en float_fmt v = Val bytes /\
    parse_character_data strict tab_en check_fn float_parse bytes spec st = Val (Ret (reload_value spec v) (set_compat st c)).
Proof. exact value_reload. Qed.

Theorem C01_value_reload_conservative :
  forall (tab_en : nametab) (check_fn : N -> list N -> res bool) (float_fmt : N -> list N)
         (float_parse : list N -> option N) (ver : N) (spec : cdspec) (v : cdata),
  ValOk tab_en check_fn float_fmt float_parse ver spec v -> reload_value spec v = v.
Proof. exact reload_ok. Qed.

(* [U] adjacent text items: a tree and its merged form (norm T t: in every element with Mixed content, runs of adjacent
   text items are concatenated, recursively) are written as the same text - every tree, every indent *)
Theorem C01_text_merge_same_text :
  forall (T : tables) (tab_el tab_at tab_en : nametab) (float_fmt : N -> list N) (t : etree) (indent : nat) (inline : bool),
  ser_elem T tab_el tab_at tab_en float_fmt (norm T t) indent inline = ser_elem T tab_el tab_at tab_en float_fmt t indent inline.
Proof. exact ser_norm. Qed.

(* [U] hence what is read back from the written text of t is the merged tree, whenever that is a canonical root
   (decidable: rootcanonb; for the document of the class mixed-text-split it is: C01_merged_example) *)
Theorem C01_reload_merged :
  forall (T : tables) (tab_el tab_at tab_en : nametab) (check_fn : N -> list N -> res bool) (float_fmt : N -> list N)
         (strict : bool) (float_parse : list N -> option N) (ver : N) (sa : option bool) (t : etree) (bs : list N),
  RootCanon strict T tab_el tab_at tab_en check_fn float_fmt float_parse ver (norm T t) ->
  set_version T tab_at check_fn ver t = Val t ->
  serialize_file T tab_el tab_at tab_en check_fn float_fmt ver sa t = Val bs ->
  exists st, load strict T tab_el tab_at tab_en check_fn float_parse bs = Val (Ret (norm T t) st) /\
             p_warnings st = [] /\ p_version st = ver /\ p_standalone st = sa.
Proof. exact reload_merged. Qed.

(* [F] on the real tables, for the three documents of the recorded classes (load, serialize, load):
   mixed-text-split: the second tree IS norm of the first, which differs from it ("ab" only after merging) and is a
   canonical root while the first is not; a document without adjacent text items is its own merged form;
   encoded-edge-blank-lost: " lead" is read back as "lead"; pattern value: "a&amp;b" is read back as "a&amp;amp;b". *)
Theorem C01_merged_example :
  match reload_of doc_mixed_split with
  | Some (t, ver, t') =>
    t' = norm RT t /\ any_node (has_text (BS "ab")) t = false /\ any_node (has_text (BS "ab")) (norm RT t) = true /\
    rootcanonb RT tab_element tab_attr tab_enum accept_all no_float_fmt no_float ver (norm RT t) = true /\
    rootcanonb RT tab_element tab_attr tab_enum accept_all no_float_fmt no_float ver t = false
  | None => False
  end.
Proof. exact merged_real. Qed.
Theorem C01_merged_identity_example :
  match LOAD true doc_rich with Val (Ret t _) => norm RT t = t | _ => False end.
Proof. exact merged_rich_id. Qed.
Theorem C01_edge_blank_example :
  match reload_of doc_edge_blank with
  | Some (t, _, t') => any_node (has_text (BS " lead")) t = true /\ any_node (has_text (BS "lead")) t' = true /\
                       any_node (has_text (BS " lead")) t' = false
  | None => False
  end.
Proof. exact edge_blank_real. Qed.
Theorem C01_amp_pattern_example :
  match reload_of doc_amp_pattern with
  | Some (t, _, t') => any_node (has_text (BS "1.0.0;a&amp;b")) t = true /\ any_node (has_text (BS "1.0.0;a&amp;amp;b")) t' = true
  | None => False
  end.
Proof. exact amp_pattern_real. Qed.

(* ---------- the schemaLocation rewrite of ArxmlFile::serialize (Xml/RoundTripSetVersion.v) ---------- *)
(* [U] the rewrite changes nothing, or the value of the root's xsi:schemaLocation attribute only *)
Theorem C01_set_version_shape :
  forall (T : tables) (tab_at : nametab) (check_fn : N -> list N -> res bool) (ver : N) (t t' : etree),
  set_version T tab_at check_fn ver t = Val t' ->
  t' = t \/
  exists name ty attrs content cm a value,
    t = ENode name ty attrs content cm /\ t' = ENode name ty (set_attr a (DString value) attrs) content cm /\
    from_bytes tab_at (BS "xsi:schemaLocation") = Ok a /\ schema_location_value ver = Val value.
Proof. exact set_version_shape. Qed.

(* [U] it keeps canonical roots canonical (both modes) and is idempotent - every table set; the facts about the canonical
   texts (plain, no blank at an end, UTF-8, parse back to their version) are evaluated over the version list *)
Theorem C01_set_version_canon :
  forall (T : tables) (tab_el tab_at tab_en : nametab) (check_fn : N -> list N -> res bool)
         (float_fmt : N -> list N) (float_parse : list N -> option N) (ver : N) (t t' : etree),
  RootCanon true T tab_el tab_at tab_en check_fn float_fmt float_parse ver t ->
  set_version T tab_at check_fn ver t = Val t' ->
  (forall s, RootCanon s T tab_el tab_at tab_en check_fn float_fmt float_parse ver t') /\
  set_version T tab_at check_fn ver t' = Val t'.
Proof. exact set_version_canon. Qed.

(* [U] C01_reload_identity without the premise on the root's spelling: load -> serialize -> load returns the rewritten
   tree t' (= t for the canonical spelling), silently, same version, and serializing t' gives the same bytes.  The premise
   set_version = Val t' only says that the rewrite did not stop (it can only for a Pattern-typed attribute whose
   validator panics; the real attribute is String-typed). *)
Theorem C01_reload_rewritten :
  forall (T : tables) (tab_el tab_at tab_en : nametab) (check_fn : N -> list N -> res bool)
         (float_fmt : N -> list N) (float_parse : list N -> option N),
       canon_hyps T tab_el tab_at tab_en float_fmt float_parse ->
       forall (b : bool) (bs : list N) (t : etree) (st : pstate) (t' : etree),
       load b T tab_el tab_at tab_en check_fn float_parse bs = Val (Ret t st) ->
       p_warnings st = [] ->
       knownb T t = false ->
       set_version T tab_at check_fn (p_version st) t = Val t' ->
       forall sa : option bool,
       exists bs' : list N,
         serialize_file T tab_el tab_at tab_en check_fn float_fmt (p_version st) sa t = Val bs' /\
         (exists st' : pstate,
            load b T tab_el tab_at tab_en check_fn float_parse bs' = Val (Ret t' st') /\
            p_warnings st' = [] /\
            p_version st' = p_version st /\
            p_standalone st' = sa /\
            serialize_file T tab_el tab_at tab_en check_fn float_fmt (p_version st') sa t' = Val bs').
Proof. exact reload_rewritten. Qed.

(* [F] on the real tables: a root with the spelling "... autosar_00050.xsd more" loads silently, outside the recorded
   classes, and is read back as set_version of it, with "... AUTOSAR_00050.xsd" *)
Theorem C01_rewritten_example :
  match reload_of doc_lower_xsd with
  | Some (t, ver, t') =>
    knownb RT t = false /\ set_version RT tab_attr accept_all ver t = Val t' /\
    existsb (bytes_eqb (BS "http://autosar.org/schema/r4.0 autosar_00050.xsd more")) (root_attr_texts t) = true /\
    existsb (bytes_eqb (BS "http://autosar.org/schema/r4.0 autosar_00050.xsd more")) (root_attr_texts t') = false /\
    existsb (bytes_eqb (BS "http://autosar.org/schema/r4.0 AUTOSAR_00050.xsd")) (root_attr_texts t') = true
  | None => False
  end.
Proof. exact rewritten_real. Qed.

(* ---------- faithfulness to an independent reading of XML (Xml/Reading.v, ReadingInterp.v, ReadingLexer.v, ReadingParser.v) ----------
   Reads bs d : a declarative, parser-independent reading of the arxml subset of XML - bs is the rendering of the plain XML
   tree d (elements with attributes and layout, character data runs, comments, processing instructions; prolog with the
   XML declaration; misc after the root) and every node is lexically well formed; no lexer state, no fuel, no tables.
   The grammar is XML's, with seven RELAXATIONS that the loader forces on any sound reading (each is accepted by strict
   loading, on the model - C01_reading_relaxations7 - and on the implementation - findings/C08-wellformedness-leniencies.cases.txt):
   R1 "--" inside comments, R2 any PI body without '>', R3 '<' inside attribute values, R4 repeated attribute names,
   R5 misc before the XML declaration, R6 the declaration is read by position only, R7 any byte but '<' is character
   data.  (An eighth, a dangling attribute - name, '=', quote, blanks - at the end of a tag being ignored, was a defect of
   parse_attribute_text and is repaired: C01_dangling_attribute_rejected.)
   InterpDoc d ver t : the AUTOSAR interpretation of d - types resolved top-down through the tables, values per
   CharacterDataSpec (ValueOf: Pattern values are deliberately NOT entity-decoded - the recorded class - and blanks at
   both ends are dropped except for preserve_whitespace strings), blank runs and PIs dropped, a comment attached to the
   next element, comments without a following element dropped. *)
(* [U] every call of the lexer that returns an event has consumed misc items and then exactly the bytes of one token of
   the grammar (TokR); no hypothesis *)
Theorem C01_lexer_reads :
  forall (f : nat) (st : lstate) (line : N) (ev : event) (st' : lstate),
  l_deferred st = None -> lex_next f st = Val (LOk line ev st') -> StepR st ev st'.
Proof. exact lex_next_reads. Qed.

(* [U] values: what strict value parsing returns is the value the raw text denotes *)
Theorem C01_value_faithful :
  forall (tab_en : nametab) (check_fn : N -> list N -> res bool) (float_parse : list N -> option N)
         (input : list N) (spec : SpecTypes.cdspec) (st : pstate) (v : cdata) (st' : pstate),
  parse_character_data true tab_en check_fn float_parse input spec st = Val (Ret v st') ->
  ValueOf tab_en check_fn float_parse (p_version st) spec input v.
Proof. exact pcd_value. Qed.

(* [U] C01_faithful: a byte string that strict loading accepts (or lenient loading without a warning) has a reading, and
   the returned tree is the AUTOSAR interpretation of that reading for the file version.  Every table set whose element
   and attribute name tables hold clean names (boolean, true for the regenerated tables), every validator, float oracle *)
Theorem C01_faithful :
  forall (T : tables) (tab_el tab_at tab_en : nametab) (check_fn : N -> list N -> res bool) (float_parse : list N -> option N),
  names_clean tab_el = true -> names_clean tab_at = true ->
  forall (b : bool) (bs : list N) (t : etree) (st : pstate),
  load b T tab_el tab_at tab_en check_fn float_parse bs = Val (Ret t st) -> p_warnings st = [] ->
  exists d, Reads bs d /\ InterpDoc T tab_el tab_at tab_en check_fn float_parse d (p_version st) t.
Proof. exact load_faithful_clean. Qed.

(* [U over inputs, F tables] the real loader model; [F] non-vacuity: the rich document is loaded and so has a reading;
   an explicit reading of the plain document (tree with layout) *)
Theorem C01_real_faithful :
  forall (bs : list N) (t : etree) (st : pstate), LOAD true bs = Val (Ret t st) ->
  exists d, Reads bs d /\ InterpDoc RT tab_element tab_attr tab_enum accept_all no_float d (p_version st) t.
Proof. exact real_load_faithful. Qed.

Theorem C01_faithful_example :
  exists t st d, LOAD true doc_rich = Val (Ret t st) /\ Reads doc_rich d /\
    InterpDoc RT tab_element tab_attr tab_enum accept_all no_float d (p_version st) t.
Proof. exact faithful_rich. Qed.

Theorem C01_reads_example : Reads doc_ok d_ok.
Proof. exact reads_doc_ok. Qed.

(* [F] the relaxations R1..R7: each document is accepted by STRICT loading *)
Theorem C01_reading_relaxations7 :
  map (fun d => is_ret (LOAD true d)) [doc_R1; doc_R2; doc_R3; doc_R4; doc_R5; doc_R6; doc_R7] =
  [true; true; true; true; true; true; true].
Proof. exact relaxations_accepted. Qed.

(* [F] the former relaxation R8, a dangling attribute at the end of a tag, is rejected since the fix of that defect *)
Theorem C01_dangling_attribute_rejected :
  strict_kind doc_R8 = Some AttributeValueError /\ lenient_kinds doc_R8 = Some [AttributeValueError].
Proof. exact dangling_attribute_rejected. Qed.

(* [U] the reading is unique (Xml/ReadingUnique.v): on well-formed trees the rendering is injective - unique readability of
   the grammar, relaxations included - so the existential of C01_faithful determines the document; no hypothesis *)
Theorem C01_reads_unique : forall (bs : list N) (d1 d2 : doc), Reads bs d1 -> Reads bs d2 -> d1 = d2.
Proof. exact reads_unique. Qed.

(* [U] unique readability of one item: two well-formed items whose texts start the same byte string (a character data
   run being followed by markup or nothing) are the same item, and what follows is the same *)
Theorem C01_item_unique :
  forall (x y : xml) (r1 r2 : list N), WfX x -> WfX y -> render x ++ r1 = render y ++ r2 ->
  (is_xtext x = true -> at_markup r1) -> (is_xtext y = true -> at_markup r2) -> x = y /\ r1 = r2.
Proof. exact item_unique. Qed.

(* [U] the interpretation is a (partial) function of the plain XML tree (Xml/ReadingFunctional.v): one document has at most
   one file version and one element tree *)
Theorem C01_interp_functional :
  forall (T : tables) (tab_el tab_at tab_en : nametab) (check_fn : N -> list N -> res bool) (float_parse : list N -> option N)
         (d : doc) (ver1 : N) (t1 : etree) (ver2 : N) (t2 : etree),
  InterpDoc T tab_el tab_at tab_en check_fn float_parse d ver1 t1 ->
  InterpDoc T tab_el tab_at tab_en check_fn float_parse d ver2 t2 -> ver1 = ver2 /\ t1 = t2.
Proof. exact InterpDoc_functional. Qed.

(* [U] C01_faithful with uniqueness: the tree the loader returns is THE interpretation of THE reading of the byte string *)
Theorem C01_faithful_unique :
  forall (T : tables) (tab_el tab_at tab_en : nametab) (check_fn : N -> list N -> res bool) (float_parse : list N -> option N)
         (b : bool) (bs : list N) (t : etree) (st : pstate),
  names_clean tab_el = true -> names_clean tab_at = true ->
  load b T tab_el tab_at tab_en check_fn float_parse bs = Val (Ret t st) -> p_warnings st = [] ->
  exists d, Reads bs d /\ InterpDoc T tab_el tab_at tab_en check_fn float_parse d (p_version st) t /\
    forall d' ver' t', Reads bs d' -> InterpDoc T tab_el tab_at tab_en check_fn float_parse d' ver' t' ->
                       d' = d /\ ver' = p_version st /\ t' = t.
Proof. exact load_faithful_unique. Qed.

(* [F] where the interpretation deliberately follows the loader and not a naive reading: a Pattern value is the text itself,
   its references are not decoded, although the text denotes "1.0.0;a&b" - which is what a String value is *)
Theorem C01_pattern_not_decoded_example :
  ValueOf tab_enum accept_all no_float 0 (SpecTypes.CPattern 24 None) (BS " 1.0.0;a&amp;b ") (DString (BS "1.0.0;a&amp;b")) /\
  StrictValidEntities.Unesc (BS "1.0.0;a&amp;b") (BS "1.0.0;a&b") /\
  ValueOf tab_enum accept_all no_float 0 (SpecTypes.CString false None) (BS " 1.0.0;a&amp;b ") (DString (BS "1.0.0;a&b")).
Proof. exact pattern_not_decoded. Qed.

(* ---------- the header of the loaded file ---------- *)
(* [U] both modes, every table set: the standalone flag of the loaded file is the one of the XML declaration, which is the
   FIRST event the lexer returns for the byte string; a later declaration never changes it (inside the root element it is
   an UnexpectedXmlFileHeader error / warning and is otherwise ignored).  The version of the loaded file is the one the
   root's xsi:schemaLocation names (HeaderOf in InterpDoc, C01_faithful). *)
Theorem C01_load_standalone :
  forall (T : tables) (tab_el tab_at tab_en : nametab) (check_fn : N -> list N -> res bool) (float_parse : list N -> option N)
         (s : bool) (bs : list N) (t : etree) (st : pstate),
  load s T tab_el tab_at tab_en check_fn float_parse bs = Val (Ret t st) ->
  exists line sa l1, next (lexer_new bs) = Val (LOk line (EvHeader sa) l1) /\ p_standalone st = sa.
Proof. exact load_standalone. Qed.

(* [U] C01_faithful with the header: the standalone flag of the loaded file is what the declaration of THE reading says
   (XmlDeclR), the version what the root's attributes of the reading say *)
Theorem C01_faithful_header :
  forall (T : tables) (tab_el tab_at tab_en : nametab) (check_fn : N -> list N -> res bool) (float_parse : list N -> option N)
         (b : bool) (bs : list N) (t : etree) (st : pstate),
  names_clean tab_el = true -> names_clean tab_at = true ->
  load b T tab_el tab_at tab_en check_fn float_parse bs = Val (Ret t st) -> p_warnings st = [] ->
  exists d, Reads bs d /\ InterpDoc T tab_el tab_at tab_en check_fn float_parse d (p_version st) t /\
            XmlDeclR (d_decl d) (p_standalone st).
Proof. exact load_faithful_header. Qed.

(* [F] a stray second declaration (standalone="no") inside the root: strict error, lenient warning, the flag stays "yes" *)
Theorem C01_stray_declaration_example :
  strict_kind doc_stray_decl = Some UnexpectedXmlFileHeader /\
  lenient_kinds doc_stray_decl = Some [UnexpectedXmlFileHeader] /\
  lenient_standalone doc_stray_decl = Some (Some true).
Proof. exact stray_declaration_ignored. Qed.
