(* Properties/C09Load.v — C09 for AutosarModel::load_buffer with the parser state the REAL parser produces.
   Only statements; every proof is `exact <lemma>` (Tree/LoadUnionReal.v).  Kept apart from Properties/C09.v because its
   closure contains the Xml development (C01's round trip, the loader-record theorems of Properties/C04Load.v).

   Ingredients: Tree/LoadRefineIndex.heap_union_buffers_total (C09_merge_union_total: every load returns OK, given that
   the parser state records exactly the named elements and references of the parsed tree — StOf);
   Xml/LoadRecordsTree.load_StOf_all (C04_C05_load_StOf_all, agent-xmlproofs: StOf holds for every tree Parser.load
   returns, both modes, after the fix f86b268 of the late SHORT-NAME defect; table hypotheses tables_ok, sn_charsb,
   ref_charsb, true on the regenerated tables: C04_real_record_tables); Xml/RoundTripFile.file_roundtrip (C01_file_roundtrip:
   the serialization of a canonical tree parses to that tree, with the file version). *)
From AV Require Import Base.Bytes Base.Outcome Hash.HashModel Spec.SpecOps Spec.SpecReal Hash.HashRealElement Hash.HashRealAttr
  Hash.HashRealEnum Tree.Heap Tree.Ops Tree.Script Tree.Load Tree.MergeSpec Tree.MergePure Tree.MergePureProofsBase
  Tree.MergePureProofs Tree.MergePureProofsMain Tree.MergePureProofsKeys Tree.LoadRefineBase Tree.LoadRefineTop
  Tree.LoadRefineIndex Tree.LoadUnionReal Tree.MergeGoodReal.
From AV Require Import Xml.Lexer Xml.Parser Xml.Serializer Xml.TablesOk Xml.StrictValidDef Xml.LoadRecordsRegular.
Open Scope list_scope.
Open Scope N_scope.

(* ---- [U over tables with the three table properties, worlds, masters of the class Good, splits, buffers, both modes]
        C09_merge_union_total WITHOUT the hypothesis on the parser state: the buffers parse to the partial views of the
        master M (class Good, one version v; file k of the master = file id b + k), they are loaded into an empty model
        under pairwise distinct file names, and the paths of M are consistent (PathsOK, decidable).  Then EVERY
        load_buffer returns OK with its file id — the duplicate-name check, the overlap check and the merge cannot reject,
        the index fills return — and the model read back from the heap is the master restricted to the loaded files
        (every element once, membership normalised), the master itself up to the order of siblings when the files cover
        it, and every file projects out of it. *)
Theorem C09_merge_union_unconditional :
  forall (T : tables) (tab_el tab_at tab_en : nametab) (check_fn : N -> list N -> res bool)
         (float_parse : list N -> option N) (LATEST defref v : N),
    tables_ok T = true -> sn_charsb T = true -> ref_charsb T = true ->
  forall (M : mtree) (m : N) (x : model) (w0 : world) (n : nat) (strict : bool)
         (bufs : list (list N * list N)) (items : list item),
    Good T defref v M ->
    nth_opt (w_models w0) (N.to_nat m) = Some x -> m_files x = [] -> m_idents x = [] ->
    let gs := n_range (S n) (N.of_nat (List.length (w_files w0))) in
    Forall2 (parses_to T tab_el tab_at tab_en check_fn float_parse strict) bufs items ->
    Forall2 (is_view v M) gs items ->
    NoDup (map snd bufs) ->
    (forall g, In g gs -> In g (mfiles M)) -> PathsOK T M gs ->
    exists os w,
      load_bufs T tab_el tab_at tab_en check_fn float_parse LATEST defref m strict bufs w0 = Val (os, w) /\
      Forall2 (fun g o => exists ws, o = OK (g, ws)) gs os /\
      exists ta, ModelTree w m ta gs /\ abs_model w m = Some (erase ta) /\
                 Rep T (rev gs) None M (erase ta) /\
                 (covers gs M -> hperm (erase ta) (expected None M)) /\
                 (forall f, In f gs -> hperm (hproj f (erase ta)) (pview f M)).
Proof. exact union_unconditional. Qed.

(* ---- bytes in: the k-th buffer IS the serialization of the view of file b + k (xml header ++ ser_elem), the view being
        canonical in the sense of C01 (RootCanon for the mode and the version v): splitting a master into files, writing
        the files and loading them again gives the master back. *)
Theorem C09_merge_union_bytes :
  forall (T : tables) (tab_el tab_at tab_en : nametab) (check_fn : N -> list N -> res bool)
         (float_parse : list N -> option N) (LATEST defref v : N),
    tables_ok T = true -> sn_charsb T = true -> ref_charsb T = true ->
  forall (float_fmt : N -> list N) (M : mtree) (m : N) (x : model) (w0 : world) (n : nat) (strict : bool)
         (files : list (Parser.etree * option bool * list N * list N)),
    Good T defref v M ->
    nth_opt (w_models w0) (N.to_nat m) = Some x -> m_files x = [] -> m_idents x = [] ->
    let gs := n_range (S n) (N.of_nat (List.length (w_files w0))) in
    Forall2 (is_file_of T tab_el tab_at tab_en check_fn float_parse v float_fmt strict M) gs files ->
    NoDup (map (fun f => snd f) files) ->
    (forall g, In g gs -> In g (mfiles M)) -> PathsOK T M gs ->
    exists os w,
      load_bufs T tab_el tab_at tab_en check_fn float_parse LATEST defref m strict (map buffer_of files) w0 = Val (os, w) /\
      Forall2 (fun g o => exists ws, o = OK (g, ws)) gs os /\
      exists ta, ModelTree w m ta gs /\ abs_model w m = Some (erase ta) /\
                 Rep T (rev gs) None M (erase ta) /\
                 (covers gs M -> hperm (erase ta) (expected None M)) /\
                 (forall f, In f gs -> hperm (hproj f (erase ta)) (pview f M)).
Proof. exact union_bytes. Qed.

(* ---- on the regenerated tables [F tables, U everything else]: no hypothesis on the tables is left *)
Theorem C09_merge_union_real :
  forall (check_fn : N -> list N -> res bool) (float_parse : list N -> option N) (LATEST defref v : N)
         (M : mtree) (m : N) (x : model) (w0 : world) (n : nat) (strict : bool)
         (bufs : list (list N * list N)) (items : list item),
    Good RT defref v M ->
    nth_opt (w_models w0) (N.to_nat m) = Some x -> m_files x = [] -> m_idents x = [] ->
    let gs := n_range (S n) (N.of_nat (List.length (w_files w0))) in
    Forall2 (parses_to RT tab_element tab_attr tab_enum check_fn float_parse strict) bufs items ->
    Forall2 (is_view v M) gs items ->
    NoDup (map snd bufs) ->
    (forall g, In g gs -> In g (mfiles M)) -> PathsOK RT M gs ->
    exists os w,
      load_bufs RT tab_element tab_attr tab_enum check_fn float_parse LATEST defref m strict bufs w0 = Val (os, w) /\
      Forall2 (fun g o => exists ws, o = OK (g, ws)) gs os /\
      exists ta, ModelTree w m ta gs /\ abs_model w m = Some (erase ta) /\
                 Rep RT (rev gs) None M (erase ta) /\
                 (covers gs M -> hperm (erase ta) (expected None M)) /\
                 (forall f, In f gs -> hperm (hproj f (erase ta)) (pview f M)).
Proof. exact union_real. Qed.

(* ---- [F] the class is inhabited on the regenerated tables by a master with the usual ARXML structure:
        AUTOSAR / AR-PACKAGES (bag, splittable) / AR-PACKAGE "Pkg" / ELEMENTS (bag, splittable) / SYSTEM "A" in file 0 and
        SYSTEM "B" in file 1, version AUTOSAR_00051; its paths are consistent; the unconditional theorem instantiated, and
        the same by computation *)
Theorem C09_real_class_nonvacuous :
  Good RT RealM.DEFREF RealM.V RealM.master /\ PathsOK RT RealM.master [0; 1].
Proof. exact (conj RealM.real_master_good RealM.real_paths_ok). Qed.

Theorem C09_real_union :
  exists os w,
    load_views RT RealM.V RealM.DEFREF 0 RealM.master (fun _ => RealM.V) [0; 1] RealM.new_world = Val (os, w) /\
    Forall2 (fun g o => o = OK g) [0; 1] os /\
    exists ta, abs_model w 0 = Some (erase ta) /\ hperm (erase ta) (expected None RealM.master).
Proof. exact RealM.real_union. Qed.

Theorem C09_real_union_computed :
  match load_views RT RealM.V RealM.DEFREF 0 RealM.master (fun _ => RealM.V) [0; 1] RealM.new_world with
  | Val (os, w) => (os, abs_model w 0)
  | _ => ([], None)
  end = ([OK 0; OK 1], Some (expected None RealM.master)).
Proof. exact RealM.real_union_computed. Qed.
